"""GF(2)-affine bit-level abstract interpretation of the masked-word operations
(C10.D2).

Domain: every integer value is a vector of bits, each bit an XOR-set of atoms
(an atom is a bit of an input object, a bit of a fresh random word, or the
constant 1).  Control flow and addresses are concrete (the `size` arguments of
the partial operations are enumerated), data is symbolic.  Non-linear
operations on symbolic data produce opaque atoms, so a proof can be lost but
never forged.

The word's own store function is taken as the definition of the encoded value
(decode_K).  Obligations, for every K and every operation that exists in the
configuration:
    load:       decode_K(load(x))            == x
    zero:       decode_K(zero())             == 0
    randomize:  decode_K(randomize(w))       == decode_K(w), every bit of every
                                               share of the result carries a
                                               fresh random atom
    xor:        decode_K(a ^= b)             == decode_K(a) ^ decode_K(b)
    from_x<B>:  decode_K(from_xB(w))         == decode_B(w)   (stale upper
                                               shares of w must not matter)
    store:      decode_K is a bit permutation of each of the K shares, XORed
    load/store_partial, load_32, replace, pad, separator: the corresponding
                byte-level identities
and for the state-level conversions ascon_x<K>_copy_from_x<B>,
ascon_x<K>_copy_to/from_x1 the same identities word by word.
"""
import itertools
import re

from . import ir, repo

ONE = frozenset()                 # the empty monomial: constant 1
ONEBIT = frozenset([ONE])
ZERO = frozenset()
MONOMIAL_LIMIT = 4000


class Unsupported(Exception):
    pass


def atom_bit(a):
    """the bit expression consisting of the single atom a"""
    return frozenset([frozenset([a])])


def atoms_of(bexpr):
    """atoms of an affine bit expression (monomials of degree <= 1); raises on
    non-linear terms"""
    out = []
    for mono in bexpr:
        if len(mono) == 0:
            out.append(None)
        elif len(mono) == 1:
            out.append(next(iter(mono)))
        else:
            raise Unsupported("non-linear term in an affine context")
    return out


def and_bits1(a, b):
    """product of two bit polynomials over GF(2)"""
    if not a or not b:
        return ZERO
    if a == ONEBIT:
        return b
    if b == ONEBIT:
        return a
    acc = {}
    for m1 in a:
        for m2 in b:
            m = m1 | m2
            acc[m] = acc.get(m, 0) ^ 1
    r = frozenset(m for m, c in acc.items() if c)
    if len(r) > MONOMIAL_LIMIT:
        raise Unsupported("polynomial too large")
    return r


def const_bits(v, w):
    return tuple(ONEBIT if (v >> k) & 1 else ZERO for k in range(w))


def is_const(bits):
    return all(b <= ONEBIT for b in bits)


def to_int(bits):
    if not is_const(bits):
        return None
    v = 0
    for k, b in enumerate(bits):
        if b:
            v |= 1 << k
    return v


def xor_bits(a, b):
    return tuple(x ^ y for x, y in zip(a, b))


class Ptr:
    __slots__ = ("obj", "off")

    def __init__(self, obj, off):
        self.obj, self.off = obj, off


class Machine:
    def __init__(self, module):
        self.m = module
        self.mem = {}        # (obj, byte offset) -> tuple of 8 bitexprs
        self.fresh = 0
        self.rnd = 0
        self.steps = 0
        self.opaque = 0
        self.objsize = {}
        self.nonlinear = False      # allow products (ANF polynomials) instead of opaque atoms
        self.hooks = {}             # callee name -> python function(machine, args)
        self.pmem = {}              # (obj, byte offset) -> Ptr stored there (pointer-typed cells)
        self.force = {}             # (function, ssa id) -> value that replaces the computed one

    def new_obj(self, name, size, symbolic=True):
        self.objsize[name] = size
        for k in range(size):
            if symbolic:
                self.mem[(name, k)] = tuple(atom_bit((name, k, b)) for b in range(8))
        return Ptr(name, 0)

    def opaque_bits(self, w, why):
        self.fresh += 1
        self.opaque += 1
        return tuple(atom_bit(("opaque", self.fresh, why, b)) for b in range(w))

    def random_bits(self, w):
        self.rnd += 1
        return tuple(atom_bit(("rnd", self.rnd, b)) for b in range(w))

    def load(self, p, nbytes):
        out = []
        for k in range(nbytes):
            key = (p.obj, p.off + k)
            if p.obj in self.objsize and not (0 <= p.off + k < self.objsize[p.obj]):
                raise Unsupported("access outside object %s at offset %d" % (p.obj, p.off + k))
            b = self.mem.get(key)
            if b is None:
                b = tuple(atom_bit(("uninit", p.obj, p.off + k, bb)) for bb in range(8))
            out.extend(b)
        return tuple(out)

    def store(self, p, bits):
        nbytes = len(bits) // 8
        for k in range(nbytes):
            if p.obj in self.objsize and not (0 <= p.off + k < self.objsize[p.obj]):
                raise Unsupported("store outside object %s at offset %d" % (p.obj, p.off + k))
            self.mem[(p.obj, p.off + k)] = tuple(bits[8 * k:8 * k + 8])

    def store_ptr(self, p, v):
        """a pointer value stored in memory (8-byte cell)"""
        if v.obj == "null":
            self.pmem.pop((p.obj, p.off), None)
            self.store(p, const_bits(0, 64))
            return
        self.pmem[(p.obj, p.off)] = v
        for k in range(8):
            self.mem.pop((p.obj, p.off + k), None)

    # ------------------------------------------------------------------
    def call(self, fname, args, depth=0):
        f = self.m.funcs.get(fname)
        if f is None or f.decl:
            raise Unsupported("call to %s (no body)" % fname)
        if depth > 12:
            raise Unsupported("call depth")
        env = {}
        for p, a in zip(f.params, args):
            env[p] = a
        b = f.blocks[0]
        prev = None
        allocas = 0
        while True:
            nxt = None
            for i in b.insts:
                self.steps += 1
                if self.steps > 2000000:
                    raise Unsupported("step budget exhausted")
                op = i.op
                if op == "phi":
                    for v, pr in i.d["inc"]:
                        if pr == prev:
                            env[i.id] = self.val(env, v, i.ty)
                    continue
                if op == "alloca":
                    allocas += 1
                    name = "%s.%s.%d" % (fname, i.id, depth)
                    self.objsize[name] = i.d.get("sz", 0)
                    env[i.id] = Ptr(name, 0)
                    continue
                if op == "load":
                    p = env.get(i.ops[0]) if ir.is_local(i.ops[0]) else None
                    if not isinstance(p, Ptr):
                        raise Unsupported("load through non-pointer in %s" % fname)
                    if i.ty.endswith("*"):
                        cell = self.pmem.get((p.obj, p.off))
                        if cell is not None:
                            env[i.id] = cell
                            continue
                        raw = self.load(p, 8)
                        if is_const(raw) and to_int(raw) == 0:
                            env[i.id] = Ptr("null", 0)
                            continue
                        raise Unsupported("pointer load at %s" % i.where())
                    env[i.id] = self.load(p, i.d["sz"])[:self.width(i.ty)]
                    continue
                if op == "store":
                    p = env.get(i.ops[1]) if ir.is_local(i.ops[1]) else None
                    if not isinstance(p, Ptr):
                        raise Unsupported("store through non-pointer in %s" % fname)
                    v = self.val(env, i.ops[0], i.d["vty"])
                    if isinstance(v, Ptr):
                        self.store_ptr(p, v)
                        continue
                    self.pmem.pop((p.obj, p.off), None)
                    bits = tuple(v) + tuple(ZERO for _ in range(i.d["sz"] * 8 - len(v)))
                    self.store(p, bits)
                    continue
                if op in ("bitcast",):
                    env[i.id] = self.val(env, i.ops[0], i.ty)
                    continue
                if op == "getelementptr":
                    base = self.val(env, i.ops[0], i.ty)
                    if not isinstance(base, Ptr):
                        raise Unsupported("gep on non-pointer")
                    off = i.d["coff"]
                    for stride, v in i.d["terms"]:
                        c = to_int(self.val(env, v, "i64"))
                        if c is None:
                            raise Unsupported("symbolic index in %s" % fname)
                        if c >> 63:
                            c -= 1 << 64
                        elif (c >> 31) & 1 and c < (1 << 32):
                            c -= 1 << 32
                        off += stride * c
                    env[i.id] = Ptr(base.obj, base.off + off)
                    continue
                if op == "br":
                    if not i.ops:
                        nxt = i.succs[0]
                    else:
                        c = to_int(self.val(env, i.ops[0], "i1"))
                        if c is None:
                            raise Unsupported("branch on symbolic data in %s at %s" % (fname, i.where()))
                        nxt = i.succs[0] if c & 1 else i.succs[1]
                    break
                if op == "switch":
                    c = to_int(self.val(env, i.ops[0], "i32"))
                    if c is None:
                        raise Unsupported("switch on symbolic data")
                    nxt = i.succs[0]
                    for case, s in zip(i.d["cases"], i.succs[1:]):
                        if (case & 0xffffffffffffffff) == c or case == c:
                            nxt = s
                    break
                if op == "ret":
                    return self.val(env, i.ops[0], f.d["ret"]) if i.ops else None
                if op in ("call", "invoke"):
                    env_res = self.do_call(i, env, depth)
                    if i.id:
                        env[i.id] = env_res
                    if op == "invoke":
                        # no exception is modelled: control continues at the normal destination
                        nxt = i.succs[0] if getattr(i, "succs", None) else i.d["succs"][0]
                        break
                    continue
                if op == "unreachable":
                    raise Unsupported("unreachable")
                env[i.id] = self.binop(i, env)
                if self.force and (fname, i.id) in self.force:
                    env[i.id] = self.force[(fname, i.id)]
            if nxt is None:
                raise Unsupported("fell off block")
            prev = b.name
            b = f.bmap[nxt]

    def width(self, ty):
        if ty.startswith("i") and ty[1:].isdigit():
            return int(ty[1:])
        return 64

    def val(self, env, o, ty):
        c = ir.const_int(o)
        if c is not None:
            w = o.get("w", self.width(ty))
            return const_bits(c & ((1 << w) - 1), w)
        if o == "null":
            return Ptr("null", 0)
        if o in ("undef", "poison"):
            return self.opaque_bits(self.width(ty), "undef")
        if ir.is_local(o):
            if o not in env:
                raise Unsupported("value %s not available" % o)
            return env[o]
        if isinstance(o, dict) and "ce" in o:
            if o["ce"] in ("bitcast",):
                return self.val(env, o["ops"][0], ty)
            if o["ce"] == "getelementptr":
                base = self.val(env, o["ops"][0], ty)
                if isinstance(base, Ptr) and "off" in o:
                    return Ptr(base.obj, base.off + o["off"])
        if ir.is_global(o):
            g = self.m.globals.get(o[1:])
            if g is not None and g.get("constant") and g.get("bytes"):
                name = "@" + g["name"]
                if name not in self.objsize:
                    data = bytes.fromhex(g["bytes"])
                    self.objsize[name] = len(data)
                    for k, bt in enumerate(data):
                        self.mem[(name, k)] = const_bits(bt, 8)
                    # pointer-valued slots (vtables, tables of functions): the addresses they hold
                    for off, sym in g.get("ptrs", []):
                        self.pmem[(name, off)] = Ptr("@" + sym, 0)
                return Ptr(name, 0)
            # any other global (a vtable, a function): an address without readable contents
            return Ptr("@" + o[1:], 0)
        raise Unsupported("operand %r" % (o,))

    def binop(self, i, env):
        op = i.op
        w = self.width(i.ty)
        if op in ("zext",):
            a = self.val(env, i.ops[0], i.d["fromty"])
            return tuple(a) + tuple(ZERO for _ in range(w - len(a)))
        if op == "sext":
            a = self.val(env, i.ops[0], i.d["fromty"])
            return tuple(a) + tuple(a[-1] for _ in range(w - len(a)))
        if op == "trunc":
            a = self.val(env, i.ops[0], i.d["fromty"])
            return tuple(a[:w])
        if op == "select" and i.ty.endswith("*"):
            c = to_int(self.val(env, i.ops[0], "i1"))
            if c is None:
                raise Unsupported("select between pointers on symbolic data")
            return self.val(env, i.ops[1] if c & 1 else i.ops[2], i.ty)
        a = self.val(env, i.ops[0], i.ty)
        if isinstance(a, Ptr):
            if op == "icmp" and i.d["pred"] in ("eq", "ne"):
                b = self.val(env, i.ops[1], i.ty)
                if isinstance(b, Ptr):
                    same = (a.obj == b.obj and a.off == b.off)
                else:
                    cb0 = to_int(b)
                    if cb0 != 0:
                        raise Unsupported("pointer compared with a non-null integer")
                    same = a.obj == "null"
                return const_bits(int(same if i.d["pred"] == "eq" else not same), 1)
            if op == "select":
                raise Unsupported("select on pointers")
            raise Unsupported("arithmetic on pointer (%s at %s)" % (op, i.where()))
        b = self.val(env, i.ops[1], i.ty) if len(i.ops) > 1 else None
        if op == "xor":
            return xor_bits(a, b)
        ca, cb = to_int(a), (to_int(b) if b is not None else None)
        if op == "and":
            if cb is not None:
                return tuple(a[k] if (cb >> k) & 1 else ZERO for k in range(w))
            if ca is not None:
                return tuple(b[k] if (ca >> k) & 1 else ZERO for k in range(w))
            if not self.nonlinear:
                return self.opaque_bits(w, "and")
            return tuple(and_bits1(a[k], b[k]) for k in range(w))
        if op == "or":
            out = []
            for k in range(w):
                if not a[k]:
                    out.append(b[k])
                elif not b[k]:
                    out.append(a[k])
                elif a[k] == ONEBIT or b[k] == ONEBIT:
                    out.append(ONEBIT)
                elif self.nonlinear:
                    out.append(a[k] ^ b[k] ^ and_bits1(a[k], b[k]))
                else:
                    return self.opaque_bits(w, "or")
            return tuple(out)
        if op in ("shl", "lshr", "ashr"):
            if cb is None:
                return self.opaque_bits(w, op)
            n = cb & 63
            if n >= w:
                return const_bits(0, w)
            if op == "shl":
                return tuple(ZERO for _ in range(n)) + tuple(a[:w - n])
            fill = a[-1] if op == "ashr" else ZERO
            return tuple(a[n:]) + tuple(fill for _ in range(n))
        if op in ("add", "sub", "mul", "udiv", "urem", "sdiv", "srem"):
            if ca is not None and cb is not None:
                mask = (1 << w) - 1

                def sg(x):
                    return x - (1 << w) if x >> (w - 1) else x
                if op in ("sdiv", "srem"):
                    x, y = sg(ca), sg(cb)
                    if y == 0:
                        raise Unsupported("division by zero")
                    q = abs(x) // abs(y) * (1 if (x >= 0) == (y >= 0) else -1)
                    r = q if op == "sdiv" else x - q * y
                    return const_bits(r & mask, w)
                r = {"add": ca + cb, "sub": ca - cb, "mul": ca * cb,
                     "udiv": ca // cb if cb else 0, "urem": ca % cb if cb else 0}[op] & mask
                return const_bits(r, w)
            if op in ("add", "sub") and cb == 0:
                return a
            return self.opaque_bits(w, op)
        if op == "icmp":
            ow = len(a)
            if ca is None or cb is None:
                return self.opaque_bits(1, "icmp")

            def sg(x):
                return x - (1 << ow) if x >> (ow - 1) else x
            p = i.d["pred"]
            r = {"eq": ca == cb, "ne": ca != cb, "ult": ca < cb, "ule": ca <= cb, "ugt": ca > cb, "uge": ca >= cb,
                 "slt": sg(ca) < sg(cb), "sle": sg(ca) <= sg(cb), "sgt": sg(ca) > sg(cb), "sge": sg(ca) >= sg(cb)}[p]
            return const_bits(int(r), 1)
        if op == "select":
            c = to_int(a)
            x = self.val(env, i.ops[1], i.ty)
            y = self.val(env, i.ops[2], i.ty)
            if isinstance(x, Ptr) or isinstance(y, Ptr):
                if c is None:
                    raise Unsupported("select of pointers on symbolic data")
                return x if c & 1 else y
            if c is None:
                return self.opaque_bits(w, "select")
            return x if c & 1 else y
        raise Unsupported("instruction %s" % op)

    def do_call(self, i, env, depth):
        cal = i.callee or ""
        if not cal and "calleev" in i.d:
            # indirect call: followed when the called value is the address of a defined function (a virtual call on an
            # object whose vtable pointer was stored by the constructor being interpreted)
            tgt = self.val(env, i.d["calleev"], "i8*")
            if isinstance(tgt, Ptr) and tgt.off == 0 and tgt.obj.startswith("@") and tgt.obj[1:] in self.m.funcs:
                cal = tgt.obj[1:]
            else:
                raise Unsupported("indirect call")
        argty = i.d.get("argty", [])
        args = [self.val(env, a, argty[k] if k < len(argty) else "i64") for k, a in enumerate(i.ops)]
        if cal.startswith("llvm.dbg") or cal.startswith("llvm.lifetime"):
            return None
        if cal in self.hooks:
            return self.hooks[cal](self, args)
        if cal == "ascon_trng_generate_64":
            return self.random_bits(64)
        if cal == "ascon_trng_generate_32":
            return self.random_bits(32)
        if cal.startswith("llvm.bswap."):
            a = args[0]
            n = len(a) // 8
            out = []
            for k in range(n):
                out.extend(a[8 * (n - 1 - k):8 * (n - k)])
            return tuple(out)
        if cal.startswith(("llvm.fshl.", "llvm.fshr.")):
            a, b, c = args
            n = to_int(c)
            w = len(a)
            if n is None:
                return self.opaque_bits(w, "funnel")
            n %= w
            cat = tuple(b) + tuple(a)            # low = b, high = a
            if cal.startswith("llvm.fshl."):
                # result = high w bits of (a:b << n)
                start = w - n
            else:
                start = n
            return tuple(cat[start:start + w])
        if cal.startswith(("llvm.memcpy.", "llvm.memmove.")) or cal in ("memcpy", "memmove"):
            n = to_int(args[2])
            if n is None or not isinstance(args[0], Ptr) or not isinstance(args[1], Ptr):
                raise Unsupported("memcpy with symbolic length")
            data = self.load(args[1], n)
            self.store(args[0], data)
            return args[0]
        if cal.startswith("llvm.memset.") or cal == "memset":
            n = to_int(args[2])
            if n is None:
                raise Unsupported("memset with symbolic length")
            v = tuple(args[1][:8])
            self.store(args[0], v * n)
            return args[0]
        if cal in ("ascon_clean", "explicit_bzero"):
            n = to_int(args[1])
            if n is not None and isinstance(args[0], Ptr):
                self.store(args[0], const_bits(0, 8) * n)
            return None
        if cal in ("ascon_acquire", "ascon_release"):
            return None
        if cal == "strlen":
            p0 = args[0]
            n = 0
            while True:
                b = to_int(self.load(Ptr(p0.obj, p0.off + n), 1))
                if b is None:
                    raise Unsupported("strlen of symbolic data")
                if b == 0:
                    return const_bits(n, 64)
                n += 1
                if n > 4096:
                    raise Unsupported("unterminated string")
        if cal == "ascon_init":
            self.store(args[0], const_bits(0, 8) * 40)
            return None
        return self.call(cal, args, depth + 1)


# ---------------------------------------------------------------------------
# decoders and obligations

def be64(bits64_bytes):
    """64 data bits given as 8 bytes (byte 0 first) -> value bits, bit k of the
    big-endian 64-bit integer"""
    out = [None] * 64
    for byte in range(8):
        for b in range(8):
            out[(7 - byte) * 8 + b] = bits64_bytes[byte * 8 + b]
    return tuple(out)


class WordOps:
    def __init__(self, module, max_shares):
        self.m = module
        self.maxs = max_shares
        self.wsize = 8 * max_shares
        self._dec = {}

    def has(self, name):
        f = self.m.funcs.get(name)
        return f is not None and not f.decl

    def decoder(self, K):
        """linear map: word atoms -> 64 value bits (from the store function)"""
        if K in self._dec:
            return self._dec[K]
        mc = Machine(self.m)
        w = mc.new_obj("W", self.wsize)
        d = mc.new_obj("D", 8, symbolic=False)
        mc.call("ascon_masked_word_x%d_store" % K, [d, w])
        bits = be64(mc.load(d, 8))
        self._dec[K] = bits
        return bits

    def decode(self, K, mc, wordptr):
        """apply decode_K to the current contents of the word at wordptr"""
        lin = self.decoder(K)
        cur = mc.load(wordptr, self.wsize)
        out = []
        for bexpr in lin:
            acc = ZERO
            for atom in atoms_of(bexpr):
                if atom is None:
                    acc = acc ^ ONEBIT
                    continue
                _, byte, bit = atom
                acc = acc ^ cur[byte * 8 + bit]
            out.append(acc)
        return tuple(out)


def _eq(a, b):
    return all(x == y for x, y in zip(a, b))


def _first_diff(a, b):
    for k, (x, y) in enumerate(zip(a, b)):
        if x != y:
            return k, sorted(str(sorted(map(str, m))) for m in (x ^ y))[:4]
    return None


def check_word_ops(rep, rid, m, cname, maxs):
    W = WordOps(m, maxs)
    n = 0

    def ok(name, detail=None):
        nonlocal n
        n += 1
        s = {"config": cname, "operation": name}
        if detail:
            s.update(detail)
        rep.instance(rid, 1, s)

    def bad(name, where, msg):
        rep.violation(rid, name, where, "%s: %s" % (name, msg), config=cname)

    def src_of(name):
        return m.funcs[name].src

    for K in (2, 3, 4):
        if K > maxs:
            continue
        pre = "ascon_masked_word_x%d_" % K
        if not W.has(pre + "store"):
            continue
        try:
            lin = W.decoder(K)
        except Unsupported as e:
            rep.unproved_item(rid, "%s %sstore: %s" % (cname, pre, e))
            continue
        # store: every value bit = XOR of exactly one bit from each share < K, each share bit used once
        shares_ok = True
        used = {}
        for vb, bexpr in enumerate(lin):
            per_share = {}
            for atom in atoms_of(bexpr):
                if atom is None or atom[0] != "W":
                    shares_ok = False
                    continue
                sh = atom[1] // 8
                per_share[sh] = per_share.get(sh, 0) + 1
                used[atom] = used.get(atom, 0) + 1
            if sorted(per_share) != list(range(K)) or any(v != 1 for v in per_share.values()):
                shares_ok = False
        if any(v != 1 for v in used.values()) or len(used) != 64 * K:
            shares_ok = False
        if shares_ok:
            ok(pre + "store", {"decoder": "XOR of a bit permutation of each of %d shares" % K})
        else:
            bad(pre + "store", src_of(pre + "store"),
                "the stored value is not the XOR of a bit permutation of each of the %d shares (a share is ignored, "
                "used twice, or a share beyond %d is read)" % (K, K))
            continue

        def run(fn, setup):
            mc = Machine(m)
            try:
                res = setup(mc)
            except Unsupported as e:
                rep.unproved_item(rid, "%s %s: %s" % (cname, fn, e))
                return None, None
            return mc, res

        # zero
        fn = pre + "zero"
        if W.has(fn):
            def s_zero(mc):
                w = mc.new_obj("Wd", W.wsize, symbolic=True)
                t = mc.new_obj("T", 64)
                mc.call(fn, [w, t])
                return w
            mc, w = run(fn, s_zero)
            if mc:
                got = W.decode(K, mc, w)
                if _eq(got, const_bits(0, 64)):
                    ok(fn)
                else:
                    bad(fn, src_of(fn), "the encoded value is not zero (bit %s: %s)" % _first_diff(got, const_bits(0, 64)))
        # load
        fn = pre + "load"
        if W.has(fn):
            def s_load(mc):
                w = mc.new_obj("Wd", W.wsize)
                x = mc.new_obj("X", 8)
                t = mc.new_obj("T", 64)
                mc.call(fn, [w, x, t])
                return w, x
            mc, r = run(fn, s_load)
            if mc:
                w, x = r
                got = W.decode(K, mc, w)
                want = be64(tuple(atom_bit(("X", k // 8, k % 8)) for k in range(64)))
                if _eq(got, want):
                    ok(fn)
                else:
                    bad(fn, src_of(fn), "decode(load(x)) != x (value bit %s differs by %s)" % _first_diff(got, want))
        # randomize
        fn = pre + "randomize"
        if W.has(fn):
            def s_rand(mc):
                d = mc.new_obj("Wd", W.wsize)
                s = mc.new_obj("Ws", W.wsize)
                t = mc.new_obj("T", 64)
                mc.call(fn, [d, s, t])
                return d, s
            mc, r = run(fn, s_rand)
            if mc:
                d, s = r
                got = W.decode(K, mc, d)
                want = W.decode(K, mc, s)
                cur = mc.load(d, W.wsize)
                stale = [k for k in range(64 * K) if not any(a is not None and a[0] == "rnd" for a in atoms_of(cur[k]))]
                if not _eq(got, want):
                    bad(fn, src_of(fn), "re-randomising changes the encoded value (value bit %s differs by %s)" % _first_diff(got, want))
                elif stale:
                    bad(fn, src_of(fn), "share %d keeps bit(s) without any fresh randomness (%d bits in total): "
                        "re-randomising must change every share" % (stale[0] // 64, len(stale)))
                else:
                    ok(fn, {"fresh_random_words": mc.rnd})
            # in-place variant (dest == src) as used by the key code
            def s_rand2(mc):
                d = mc.new_obj("Ws", W.wsize)
                t = mc.new_obj("T", 64)
                before = W.decode(K, mc, d)
                mc.call(fn, [d, d, t])
                return d, before
            mc, r = run(fn + " (in place)", s_rand2)
            if mc:
                d, before = r
                got = W.decode(K, mc, d)
                if not _eq(got, before):
                    bad(fn + ":in-place", src_of(fn), "in-place re-randomising changes the encoded value")
                else:
                    ok(fn + " (in place)")
        # xor
        fn = pre + "xor"
        if W.has(fn):
            def s_xor(mc):
                d = mc.new_obj("Wd", W.wsize)
                s = mc.new_obj("Ws", W.wsize)
                before = xor_bits(W.decode(K, mc, d), W.decode(K, mc, s))
                mc.call(fn, [d, s])
                return d, before
            mc, r = run(fn, s_xor)
            if mc:
                d, want = r
                got = W.decode(K, mc, d)
                if _eq(got, want):
                    ok(fn)
                else:
                    bad(fn, src_of(fn), "decode(a ^= b) != decode(a) ^ decode(b) (value bit %s differs by %s)" % _first_diff(got, want))
        # replace: the top `size` bytes of the value come from src, the rest stays
        fn = pre + "replace"
        if W.has(fn):
            for size in range(1, 8):
                def s_repl(mc, size=size):
                    d = mc.new_obj("Wd", W.wsize)
                    s = mc.new_obj("Ws", W.wsize)
                    keep = 64 - 8 * size
                    want = tuple(W.decode(K, mc, d)[:keep]) + tuple(W.decode(K, mc, s)[keep:])
                    mc.call(fn, [d, s, const_bits(size, 32)])
                    return d, want
                mc, r = run(fn, s_repl)
                if mc:
                    d, want = r
                    got = W.decode(K, mc, d)
                    if _eq(got, want):
                        ok("%s size %d" % (fn, size))
                    else:
                        bad(fn + ":size%d" % size, src_of(fn),
                            "replace(dest, src, %d) does not give the top %d byte(s) of src followed by the remaining "
                            "byte(s) of dest on the decoded value (value bit %s differs by %s)" % (
                                (size, size) + _first_diff(got, want)))
        # from_x<B>
        for B in (2, 3, 4):
            fn = pre + "from_x%d" % B
            if B == K or B > maxs or not W.has(fn) or not W.has("ascon_masked_word_x%d_store" % B):
                continue
            def s_from(mc):
                d = mc.new_obj("Wd", W.wsize)
                s = mc.new_obj("Ws", W.wsize)
                t = mc.new_obj("T", 64)
                want = W.decode(B, mc, s)
                mc.call(fn, [d, s, t])
                return d, want
            mc, r = run(fn, s_from)
            if mc:
                d, want = r
                got = W.decode(K, mc, d)
                if _eq(got, want):
                    ok(fn)
                else:
                    bad(fn, src_of(fn), "decode_%d(from_x%d(w)) != decode_%d(w) (value bit %s differs by %s)" % (
                        (K, B, B) + _first_diff(got, want)))
        # load_32
        fn = pre + "load_32"
        if W.has(fn):
            def s_l32(mc):
                w = mc.new_obj("Wd", W.wsize)
                a = mc.new_obj("A", 4)
                b2 = mc.new_obj("B", 4)
                t = mc.new_obj("T", 64)
                mc.call(fn, [w, a, b2, t])
                return w
            mc, w = run(fn, s_l32)
            if mc:
                got = W.decode(K, mc, w)
                data = tuple(atom_bit(("A", k // 8, k % 8)) for k in range(32)) + \
                    tuple(atom_bit(("B", k // 8, k % 8)) for k in range(32))
                want = be64(data)
                if _eq(got, want):
                    ok(fn)
                else:
                    bad(fn, src_of(fn), "decode(load_32(a, b)) != a || b (value bit %s differs by %s)" % _first_diff(got, want))
        # load_partial / store_partial round trip, for every size
        lp, sp = pre + "load_partial", pre + "store_partial"
        if W.has(lp) and W.has(sp):
            for size in range(1, 8):
                def s_part(mc, size=size):
                    w = mc.new_obj("Wd", W.wsize)
                    x = mc.new_obj("X", size)
                    y = mc.new_obj("Y", size, symbolic=False)
                    t = mc.new_obj("T", 64)
                    mc.call(lp, [w, x, const_bits(size, 32), t])
                    mc.call(sp, [y, const_bits(size, 32), w])
                    return y
                mc, y = run(lp, s_part)
                if mc:
                    got = mc.load(y, size)
                    want = tuple(atom_bit(("X", k // 8, k % 8)) for k in range(size * 8))
                    if _eq(got, want):
                        ok("%s/%s size %d" % (lp, sp, size))
                    else:
                        bad(lp + ":size%d" % size, src_of(lp),
                            "store_partial(load_partial(x, %d), %d) != x (bit %s differs by %s)" % ((size, size) + _first_diff(got, want)))
        # pad / separator are share-count independent
    for fn, what in (("ascon_masked_word_pad", "pad"), ("ascon_masked_word_separator", "separator")):
        if not W.has(fn) or not W.has("ascon_masked_word_x2_store"):
            continue
        K = 2
        if what == "separator":
            def s_sep(mc):
                w = mc.new_obj("Wd", W.wsize)
                before = W.decode(K, mc, w)
                mc.call(fn, [w])
                return w, before
            mc = Machine(m)
            try:
                w, before = s_sep(mc)
                got = W.decode(K, mc, w)
                want = xor_bits(before, const_bits(1, 64))
                if _eq(got, want):
                    ok(fn)
                else:
                    bad(fn, src_of(fn), "the separator does not flip exactly the last bit of the word")
            except Unsupported as e:
                rep.unproved_item(rid, "%s %s: %s" % (cname, fn, e))
        else:
            for k in range(8):
                mc = Machine(m)
                try:
                    w = mc.new_obj("Wd", W.wsize)
                    before = W.decode(K, mc, w)
                    mc.call(fn, [w, const_bits(k, 32)])
                    got = W.decode(K, mc, w)
                    want = xor_bits(before, const_bits(0x80 << (8 * (7 - k)), 64))
                    if _eq(got, want):
                        ok("%s offset %d" % (fn, k))
                    else:
                        bad(fn + ":%d" % k, src_of(fn), "pad(%d) does not XOR 0x80 into canonical byte %d of the word" % (k, k))
                except Unsupported as e:
                    rep.unproved_item(rid, "%s %s(%d): %s" % (cname, fn, k, e))
    # state-level conversions
    for K in (2, 3, 4):
        for B in (2, 3, 4):
            fn = "ascon_x%d_copy_from_x%d" % (K, B)
            if K > maxs or B > maxs or not W.has(fn) or not W.has("ascon_masked_word_x%d_store" % B) \
                    or not W.has("ascon_masked_word_x%d_store" % K):
                continue
            mc = Machine(m)
            try:
                d = mc.new_obj("Sd", 5 * W.wsize)
                s = mc.new_obj("Ss", 5 * W.wsize) if True else None
                t = mc.new_obj("T", 64)
                wants = [W.decode(B, mc, Ptr("Ss", k * W.wsize)) for k in range(5)]
                mc.call(fn, [d, s, t])
                badw = None
                for k in range(5):
                    got = W.decode(K, mc, Ptr("Sd", k * W.wsize))
                    if not _eq(got, wants[k]) and badw is None:
                        badw = (k,) + _first_diff(got, wants[k])
                if badw:
                    bad(fn, src_of(fn), "word %d of the converted state does not encode the value of the source word under "
                        "%d shares (value bit %s differs by %s): stale upper shares of the source leak into the result" % (
                            (badw[0], B) + badw[1:]))
                else:
                    ok(fn)
            except Unsupported as e:
                rep.unproved_item(rid, "%s %s: %s" % (cname, fn, e))
    return n


def rule_linear_ops(rep, tier, rid):
    rep.rule(rid, "linear masked-word operations preserve the encoded value and refresh every share (GF(2)-affine proof)")
    cfgs = [repo.Config("c64", 4, 2, 4), repo.Config("c64", 3, 2, 3), repo.Config("c64", 2, 2, 2)]
    if tier == "thorough":
        cfgs += [repo.Config("direct", 4, 2, 4), repo.Config("direct", 3, 2, 3), repo.Config("c32", 4, 2, 4),
                 repo.Config("c32", 3, 2, 3), repo.Config("generic", 4, 2, 4)]
    builds = repo.configure_many(cfgs)
    total = 0
    for b in builds:
        lr = repo.lower(b, group="lib", level="O0", langs=("c",))
        m = ir.Module.load(lr.json)
        cname = b.cfg.name
        if cname not in rep.configs:
            rep.configs.append(cname)
        total += check_word_ops(rep, rid, m, cname, b.cfg.maxs)
    rep.floor(rid, 20 * len(cfgs))
