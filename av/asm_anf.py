"""Bit-polynomial (ANF) abstract interpretation of x86-64 straight-line code.

Every 64-bit register or 8-byte memory cell holds a vector of 64 polynomials
over GF(2) in named input bits (the representation of av/affine.py: a
polynomial is a frozenset of monomials, a monomial a frozenset of atoms), or a
pointer (region, byte offset), or - for loop counters and address arithmetic -
a constant, which is just a vector of constant polynomials.  Control flow is
concrete: conditional jumps are followed only when the compared operands are
constants; anything else raises Unsupported (a lost proof, never an alarm).

Used by rules_c18 (D5) to show that each round block of the x86-64
`ascon_permute` is the specification's round as a polynomial identity in the
320 state bits, that the prologue / epilogue are inverse register mappings,
and hence that ascon_permute(first_round) is rounds first_round..11.
"""
from . import affine
from .affine import ONEBIT, ZERO, Unsupported, const_bits, to_int

MASK = (1 << 64) - 1


class PtrVal:
    __slots__ = ("region", "off")

    def __init__(self, region, off):
        self.region, self.off = region, off

    def __eq__(self, o):
        return isinstance(o, PtrVal) and (self.region, self.off) == (o.region, o.off)

    def __hash__(self):
        return hash((self.region, self.off))

    def __repr__(self):
        return "&%s%+d" % (self.region, self.off)


def sym_word(name):
    return tuple(affine.atom_bit((name, k)) for k in range(64))


def w_xor(a, b):
    return tuple(x ^ y for x, y in zip(a, b))


def w_and(a, b):
    return tuple(affine.and_bits1(x, y) for x, y in zip(a, b))


def w_not(a):
    return tuple(x ^ ONEBIT for x in a)


def w_or(a, b):
    return tuple(x ^ y ^ affine.and_bits1(x, y) for x, y in zip(a, b))


def w_ror(a, n):
    w = len(a)
    n %= w
    return tuple(a[(k + n) % w] for k in range(w))


def w_shl(a, n):
    return tuple(ZERO if k < n else a[k - n] for k in range(len(a)))


def w_shr(a, n):
    w = len(a)
    return tuple(a[k + n] if k + n < w else ZERO for k in range(w))


def signed(v):
    v &= MASK
    return v - (1 << 64) if v >> 63 else v


def signed32(v):
    v &= 0xffffffff
    return v - (1 << 32) if v >> 31 else v


JCC = {
    "je": lambda a, b: a == b, "jz": lambda a, b: a == b, "jne": lambda a, b: a != b, "jnz": lambda a, b: a != b,
    "jl": lambda a, b: signed(a) < signed(b), "jge": lambda a, b: signed(a) >= signed(b),
    "jg": lambda a, b: signed(a) > signed(b), "jle": lambda a, b: signed(a) <= signed(b),
    "jb": lambda a, b: a < b, "jae": lambda a, b: a >= b, "ja": lambda a, b: a > b, "jbe": lambda a, b: a <= b,
}


class Machine:
    def __init__(self, fn, w=64):
        self.fn = fn
        self.w = w                 # 64: x86-64 (q suffix), 32: i386 (l suffix)
        self.sfx = "q" if w == 64 else "l"
        self.regs = {}
        self.mem = {}          # (region, offset) -> value
        self.flags = None      # (dst value, src value) of the last cmpq, both constants
        self.steps = 0
        self.reads = set()     # registers read before being written (per run)
        self.written = set()

    # -- operands
    def _addr(self, o):
        if o.index is not None:
            raise Unsupported("indexed addressing %s" % o.text)
        b = self.get_reg(o.base)
        if not isinstance(b, PtrVal):
            raise Unsupported("memory access through a non-pointer register in %s" % o.text)
        return (b.region, b.off + o.disp)

    def get_reg(self, r):
        if r not in self.written:
            self.reads.add(r)
        if r not in self.regs:
            raise Unsupported("register %%%s read before it holds a known value" % r)
        return self.regs[r]

    def set_reg(self, r, v):
        self.written.add(r)
        self.regs[r] = v

    def read(self, o):
        if o.kind == "imm":
            return const_bits(o.imm & ((1 << self.w) - 1), self.w)
        if o.kind == "reg":
            if o.width != self.w // 8:
                raise Unsupported("sub-register operand %s" % o.text)
            return self.get_reg(o.reg)
        if o.kind == "mem":
            a = self._addr(o)
            if a not in self.mem:
                raise Unsupported("read of uninitialised memory %s%+d" % a)
            return self.mem[a]
        raise Unsupported("operand %s" % o.text)

    def write(self, o, v):
        if o.kind == "reg":
            if o.width != self.w // 8:
                raise Unsupported("sub-register operand %s" % o.text)
            self.set_reg(o.reg, v)
        elif o.kind == "mem":
            self.mem[self._addr(o)] = v
        else:
            raise Unsupported("store to %s" % o.text)

    @staticmethod
    def _bits(v, what):
        if isinstance(v, PtrVal):
            raise Unsupported("bit operation on a pointer (%s)" % what)
        return v

    # -- execution
    def run(self, start, stop_labels=(), max_steps=20000, stop_idx=None):
        """execute from instruction index `start` until a label in stop_labels
        is reached (returns its name), the instruction index stop_idx is
        reached (returns "idx"), or `ret` (returns "ret")"""
        fn = self.fn
        at = {idx: lab for lab, idx in fn.labels.items()}
        pc = start
        first = True
        while True:
            if not first and pc in at and at[pc] in stop_labels:
                return at[pc]
            first = False
            if stop_idx is not None and pc == stop_idx:
                return "idx"
            if pc >= len(fn.insns):
                raise Unsupported("fell off the end of %s" % fn.name)
            self.steps += 1
            if self.steps > max_steps:
                raise Unsupported("step budget exhausted")
            ins = fn.insns[pc]
            op, ops = ins.op, ins.ops
            W, step = self.w, self.w // 8
            wmask = (1 << W) - 1
            if op.endswith(self.sfx) and op[:-1] in ("mov", "xor", "and", "or", "not", "bswap", "ror", "rol", "shl", "shr",
                                                       "add", "sub", "push", "pop", "cmp"):
                op = op[:-1] + "q"          # the rules below are written with the 64-bit mnemonics
            elif op.endswith(("q", "l")) and op not in JCC and op not in ("jl", "call") and op[:-1] in (
                    "mov", "xor", "and", "or", "not", "bswap", "ror", "rol", "shl", "shr", "add", "sub", "push", "pop", "cmp"):
                raise Unsupported("operand size of %s does not match the %d-bit mode" % (ins.text, W))
            if op == "movq":
                self.write(ops[1], self.read(ops[0]))
            elif op in ("xorq", "andq", "orq"):
                a, b = self.read(ops[0]), self.read(ops[1])
                a, b = self._bits(a, ins.text), self._bits(b, ins.text)
                self.write(ops[1], {"xorq": w_xor, "andq": w_and, "orq": w_or}[op](b, a))
            elif op == "bswapq":
                self.write(ops[0], w_bswap(self._bits(self.read(ops[0]), ins.text)))
            elif op == "notq":
                self.write(ops[0], w_not(self._bits(self.read(ops[0]), ins.text)))
            elif op in ("rorq", "rolq", "shlq", "shrq"):
                if len(ops) != 2 or ops[0].kind != "imm":
                    raise Unsupported("variable shift %s" % ins.text)
                n = ops[0].imm & (W - 1)
                v = self._bits(self.read(ops[1]), ins.text)
                self.write(ops[1], {"rorq": w_ror(v, n), "rolq": w_ror(v, W - n), "shlq": w_shl(v, n), "shrq": w_shr(v, n)}[op])
            elif op in ("addq", "subq"):
                a, b = self.read(ops[0]), self.read(ops[1])
                ca = None if isinstance(a, PtrVal) else to_int(a)
                if isinstance(b, PtrVal) and ca is not None:
                    d = ca - (1 << W) if ca >> (W - 1) else ca
                    self.write(ops[1], PtrVal(b.region, b.off + (d if op == "addq" else -d)))
                else:
                    cb = None if isinstance(b, PtrVal) else to_int(b)
                    if ca is None or cb is None:
                        raise Unsupported("arithmetic on symbolic data: %s" % ins.text)
                    self.write(ops[1], const_bits((cb + ca if op == "addq" else cb - ca) & wmask, W))
            elif op == "pushq":
                sp = self.get_reg("rsp")
                self.set_reg("rsp", PtrVal(sp.region, sp.off - step))
                self.mem[(sp.region, sp.off - step)] = self.read(ops[0])
            elif op == "popq":
                sp = self.get_reg("rsp")
                if (sp.region, sp.off) not in self.mem:
                    raise Unsupported("pop of an unknown stack slot")
                self.write(ops[0], self.mem[(sp.region, sp.off)])
                self.set_reg("rsp", PtrVal(sp.region, sp.off + step))
            elif op == "cmpq":
                a, b = self.read(ops[0]), self.read(ops[1])
                ca = None if isinstance(a, PtrVal) else to_int(a)
                cb = None if isinstance(b, PtrVal) else to_int(b)
                if ca is None or cb is None:
                    raise Unsupported("comparison of symbolic data: %s" % ins.text)
                self.flags = (cb, ca)
            elif op in JCC:
                if self.flags is None:
                    raise Unsupported("conditional jump without a constant comparison: %s" % ins.text)
                fa, fb = self.flags
                if W == 32 and op in ("jl", "jge", "jg", "jle"):
                    fa, fb = signed32(fa) & MASK, signed32(fb) & MASK
                if JCC[op](fa, fb):
                    lab = ops[0].sym
                    if lab in stop_labels:
                        return lab
                    pc = fn.labels[lab]
                    continue
            elif op == "jmp":
                if ops[0].kind != "sym":
                    raise Unsupported("indirect jump")
                lab = ops[0].sym
                if lab in stop_labels:
                    return lab
                pc = fn.labels[lab]
                continue
            elif op in ("ret", "retq"):
                return "ret"
            else:
                raise Unsupported("instruction %s" % ins.text)
            pc += 1


def w_bswap(a):
    out = []
    for byte in range(8):
        out.extend(a[8 * (7 - byte):8 * (7 - byte) + 8])
    return tuple(out)


# ---------------------------------------------------------------------------
# masked permutations of the x86-64 back end

def _find_funcs(build):
    from . import asm_x86, repo
    out = {}
    for u in asm_x86.asm_units(build):
        af = asm_x86.AsmFile(repo.preprocess(u), u.file)
        for name, fn in af.funcs.items():
            out[name] = (u, af, fn)
    return out



def wipe_summaries(build):
    """Must-wipe summaries of the x86-64 assembly functions of a configuration,
    for the effect analysis of the C callers (C13): every function is
    interpreted from its entry to `ret` with the six integer argument registers
    holding distinct pointers (arg0..arg5) and %rsp a stack pointer; an 8-byte
    cell of an argument object that holds constant zero at the return was wiped
    on every path (the run is a single path: any data-dependent branch, loop or
    unsupported instruction gives no summary, i.e. no credit).  Returns
    {function: (must {arg index: frozenset of byte offsets}, maywrite {arg index: bool})}."""
    from . import repo
    out = {}
    argregs = ("rdi", "rsi", "rdx", "rcx", "r8", "r9")
    for name, (u, af, fn) in _find_funcs(build).items():
        mc = Machine(fn)
        for k, r in enumerate(argregs):
            mc.regs[r] = PtrVal("arg%d" % k, 0)
        mc.regs["rsp"] = PtrVal("stack", 0)
        for r in ("rbx", "rbp", "r12", "r13", "r14", "r15", "rax", "r10", "r11"):
            mc.regs[r] = sym_word("in_" + r)
        try:
            if mc.run(0) != "ret":
                continue
        except Unsupported:
            continue
        must, mayw = {}, {}
        for (region, off), v in mc.mem.items():
            if not region.startswith("arg"):
                continue
            k = int(region[3:])
            if not isinstance(v, PtrVal) and to_int(v) == 0 and off >= 0:
                must.setdefault(k, set()).update(range(off, off + 8))
            else:
                mayw[k] = True
        out[name] = ({k: frozenset(v) for k, v in must.items()}, mayw)
    return out


def decoder_from_store(fn, K):
    """the value a K-share masked word stands for, as defined by the back
    end's own ascon_masked_word_x<K>_store: run it on symbolic shares and read
    the 8 stored bytes as a big-endian word -> function(shares) -> 64 polys"""
    mc = Machine(fn)
    mc.regs = {"rdi": PtrVal("out", 0), "rsi": PtrVal("word", 0), "rsp": PtrVal("stack", 0)}
    mc.written = set(mc.regs)
    shares = [sym_word("d%d" % j) for j in range(K)]
    for j in range(K):
        mc.mem[("word", 8 * j)] = shares[j]
    if mc.run(0) != "ret" or ("out", 0) not in mc.mem:
        raise Unsupported("store function did not write its output")
    val = w_bswap(mc.mem[("out", 0)])
    # the decoder must be share-wise linear: bit k of the value = XOR of one bit of each share
    table = []
    for k in range(64):
        atoms = affine.atoms_of(val[k])
        if None in atoms or len(atoms) != K or sorted(a[0] for a in atoms) != ["d%d" % j for j in range(K)]:
            raise Unsupported("store is not an XOR of one bit of each share")
        table.append({a[0]: a[1] for a in atoms})

    def decode(words):
        return [frozenset().union() if False else _xor_all([words[j][table[k]["d%d" % j]] for j in range(K)]) for k in range(64)]
    return decode


def _xor_all(bits):
    acc = ZERO
    for b in bits:
        acc = acc ^ b
    return acc


def rule_masked_rounds(rep, rid, tier):
    """For K = 2, 3, 4 (in a configuration where the K-share permutation is
    built): run [prologue; one loop iteration for round r; epilogue] of
    ascon_x<K>_permute on symbolic shares and symbolic preserved randomness and
    compare decode(shares after) with the specification's round r applied to
    decode(shares before) - a polynomial identity in all share and randomness
    bits, so it holds for every state, every sharing and every value of the
    randomness.  The loop counter sequence is checked with a constant run."""
    from . import repo
    from .rules_c08 import spec_round
    rep.rule(rid, "x86-64 ascon_x<K>_permute: one loop iteration on the shares is the specification's round on the decoded state, for all randomness")
    cfgs = [repo.Config("asm", 4, 2, 4), repo.Config("asm", 3, 3, 3)] if tier == "quick" else \
        [repo.Config("asm", 4, 2, 4), repo.Config("asm", 3, 3, 3), repo.Config("asm", 4, 3, 4), repo.Config("asm", 2, 2, 2), repo.Config("asm", 4, 4, 4)]
    done = set()
    for b in repo.configure_many(cfgs):
        funcs = _find_funcs(b)
        stride = 8 * b.cfg.maxs
        for K in (2, 3, 4):
            name = "ascon_x%d_permute" % K
            if name not in funcs or (K, b.cfg.maxs) in done:
                continue
            done.add((K, b.cfg.maxs))
            u, af, fn = funcs[name]
            sname = "ascon_masked_word_x%d_store" % K
            rounds = (0, 5, 11) if tier == "quick" and K == 4 else range(12)
            try:
                if sname not in funcs:
                    raise Unsupported("%s not found" % sname)
                decode = decoder_from_store(funcs[sname][2], K)
                _masked_one(rep, rid, b, u, fn, K, stride, decode, rounds, spec_round)
            except Unsupported as e:
                rep.unproved_item(rid, "%s (%s): %s" % (name, b.cfg.name, e))
    if not done:
        rep.broken.append("%s: no masked x86-64 permutation found" % rid)


def _masked_one(rep, rid, b, u, fn, K, stride, decode, rounds, spec_round):
    name = fn.name
    # loop structure: the body label is the target of the (single) backward conditional jump
    back = [i for i in fn.insns if i.op in JCC and i.ops[0].sym in fn.labels and fn.labels[i.ops[0].sym] <= i.idx]
    if len(back) != 1:
        raise Unsupported("%d backward conditional jumps" % len(back))
    body_label = back[0].ops[0].sym
    exit_idx = back[0].idx + 1

    def fresh():
        mc = Machine(fn)
        saved = {r: sym_word("saved_" + r) for r in ("rbx", "rbp", "r12", "r13", "r14", "r15")}
        mc.regs = dict(saved)
        mc.regs.update({"rdi": PtrVal("state", 0), "rdx": PtrVal("pres", 0), "rsp": PtrVal("stack", 0)})
        S = [[sym_word("s%d_%d" % (i, j)) for j in range(K)] for i in range(5)]
        for i in range(5):
            for j in range(K):
                mc.mem[("state", stride * i + 8 * j)] = S[i][j]
        P = [sym_word("p%d" % j) for j in range(K - 1)]
        for j in range(K - 1):
            mc.mem[("pres", 8 * j)] = P[j]
        return mc, S, saved

    def read_state(mc):
        return [[mc.mem[("state", stride * i + 8 * j)] for j in range(K)] for i in range(5)]
    # identity: first_round = 12 executes no round
    mc, S, saved = fresh()
    mc.regs["rsi"] = const_bits(12, 64)
    mc.written = set(mc.regs)
    if mc.run(0, stop_labels={body_label}) != "ret":
        rep.violation(rid, "%s:first-round-12" % name, "%s:%d" % (u.file, fn.start_line),
                      "%s with first_round = 12 executes a round" % name, config=b.cfg.name)
        return
    if [decode(w) for w in read_state(mc)] != [decode(w) for w in S] or any(mc.regs.get(r) != saved[r] for r in saved) \
            or mc.regs.get("rsp") != PtrVal("stack", 0):
        rep.violation(rid, "%s:prologue-epilogue" % name, "%s:%d" % (u.file, fn.start_line),
                      "%s with no round to execute changes the decoded state, a callee-saved register or the stack pointer" % name,
                      config=b.cfg.name)
        return
    rep.instance(rid, 1, {"config": b.cfg.name, "function": name, "identity": "first_round 12"})
    # counter sequence: values of the loop-control register at each body entry for first_round = 0
    counters = {}
    for r in rounds:
        mc, S, saved = fresh()
        mc.regs["rsi"] = const_bits(r, 64)
        mc.written = set(mc.regs)
        if mc.run(0, stop_labels={body_label}) != body_label:
            rep.violation(rid, "%s:round%d:entry" % (name, r), "%s:%d" % (u.file, fn.start_line),
                          "%s with first_round = %d does not enter the round loop" % (name, r), config=b.cfg.name)
            continue
        # one iteration: run the body until the backward jump instruction, then continue at the loop exit
        mc.reads, mc.written = set(), set()
        got = mc.run(fn.labels[body_label], stop_idx=back[0].idx)
        if got != "idx":
            raise Unsupported("loop body of round %d did not reach the loop test" % r)
        carried = sorted(mc.reads)
        counters[r] = (carried, mc.flags)
        if mc.run(exit_idx) != "ret":
            raise Unsupported("epilogue did not return")
        want = spec_round([decode(w) for w in S], r)
        have = [decode(w) for w in read_state(mc)]
        bad = [i for i in range(5) if list(have[i]) != list(want[i])]
        if bad:
            rep.violation(rid, "%s:round%d" % (name, r), "%s:%d" % (u.file, fn.insns[fn.labels[body_label]].line),
                          "one iteration of %s for round %d does not compute the specification's round on the decoded state: "
                          "word(s) x%s differ as polynomials in the share and randomness bits (%d-share masking, %s)" % (
                              name, r, ", x".join(str(i) for i in bad), K, b.cfg.name), config=b.cfg.name)
        else:
            rep.instance(rid, 1, {"config": b.cfg.name, "function": name, "round": r, "loop_carried_registers": carried})
    # loop trip count: a constant-data run for first_round = 0 must execute the body 12 times with the counter
    # values that the per-round runs used (flags at the loop test identify the counter)
    mc = Machine(fn)
    mc.regs = {r: const_bits(0, 64) for r in ("rbx", "rbp", "r12", "r13", "r14", "r15")}
    mc.regs.update({"rdi": PtrVal("state", 0), "rdx": PtrVal("pres", 0), "rsp": PtrVal("stack", 0), "rsi": const_bits(0, 64)})
    mc.written = set(mc.regs)
    for i in range(5):
        for j in range(K):
            mc.mem[("state", stride * i + 8 * j)] = const_bits(0, 64)
    for j in range(K - 1):
        mc.mem[("pres", 8 * j)] = const_bits(0, 64)
    seq = []
    where = mc.run(0, stop_labels={body_label})
    while where == body_label and len(seq) < 20:
        where = mc.run(fn.labels[body_label], stop_idx=back[0].idx)
        seq.append(mc.flags)
        where = mc.run(back[0].idx, stop_labels={body_label})
    want_seq = [counters[r][1] for r in range(12) if r in counters]
    have_seq = [f for k, f in enumerate(seq) if k in counters]
    if len(seq) != 12 or have_seq != want_seq:
        rep.violation(rid, "%s:trip-count" % name, "%s:%d" % (u.file, back[0].line),
                      "%s with first_round = 0 executes %d loop iteration(s); the loop counter does not step through rounds 0..11" % (
                          name, len(seq)), config=b.cfg.name)
    else:
        rep.instance(rid, 1, {"config": b.cfg.name, "function": name, "iterations_for_first_round_0": 12})
