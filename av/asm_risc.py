"""Bit-polynomial interpretation of the RISC assembly back ends.

The same abstract domain as av/asm_anf.py (a register or memory cell holds W
polynomials over GF(2) in named input bits, or a pointer (region, offset), or a
constant), with instruction semantics for the subsets of RISC-V (RV32/RV64),
AArch64, ARM / Thumb (unified syntax) and Xtensa (call0) that the generated
`ascon_permute` functions use.  Control flow is concrete: a conditional branch
is followed only when its operands are constants (the first_round dispatch);
anything outside the subset raises Unsupported - a lost proof, never an alarm.

rule_rounds() decides, for one back end:
  (a) epilogue(prologue(M)) = M for every memory image M of the state; callee-
      saved registers, the stack pointer and the return address are restored;
  (b) the dispatch sends first_round r = 0..11 to twelve blocks laid out in
      ascending order, each falling through into the next, without touching
      the carried state; first_round >= 12 leaves the state unchanged;
  (c) prologue(epilogue(R)) = R for a symbolic carried state R, so the blocks
      compose;
  (d) for every round r: decode(epilogue(block_r(prologue(M)))) =
      round_r(decode(M)) as polynomials in the 320 state bits, where decode is
      the C helper `ascon_extract_bytes` of the layout the back end shares
      (sliced64 / sliced32), interpreted over the same polynomials, and every
      register outside the carried state holds an unrelated symbol when the
      block starts.
Together: ascon_permute(first_round) is rounds first_round..11 of the
specification for every state, under the documented layout.
"""
import os
import re

from . import affine
from .affine import Unsupported, const_bits, to_int
from .asm_anf import PtrVal, w_and, w_not, w_or, w_ror, w_shl, w_shr, w_xor


# ---------------------------------------------------------------------------
# parsing
class Ins:
    __slots__ = ("op", "args", "line", "idx", "text")

    def __repr__(self):
        return "%s (line %d)" % (self.text, self.line)


class Func:
    def __init__(self, name):
        self.name = name
        self.insns = []
        self.labels = {}
        self.numlabels = {}      # numeric local labels: name -> instruction indices (1: ... 1b / 1f)


def _split_args(s):
    out, depth, cur = [], 0, ""
    for ch in s:
        if ch in "[{(":
            depth += 1
        elif ch in "]})":
            depth -= 1
        if ch == "," and depth == 0:
            out.append(cur.strip())
            cur = ""
        else:
            cur += ch
    if cur.strip():
        out.append(cur.strip())
    return out


def parse(text, comment="@"):
    """preprocessed assembly text -> {global function name: Func}.  Line numbers
    follow the `# n "file"` markers of the preprocessor."""
    funcs, globs, cur = {}, set(), None
    line = 0
    for raw in text.splitlines():
        mm = re.match(r'#\s*(\d+)\s+"', raw)
        if mm:
            line = int(mm.group(1)) - 1
            continue
        line += 1
        s = raw.split("//")[0]
        if comment and comment in s:
            s = s.split(comment)[0]
        s = s.strip()
        if not s or s.startswith("#"):
            continue
        mm = re.match(r"([.\w$]+):\s*(.*)$", s)
        if mm:
            lab, s = mm.group(1), mm.group(2).strip()
            if lab.isdigit():
                if cur is not None:
                    cur.numlabels.setdefault(lab, []).append(len(cur.insns))
            elif lab in globs or not lab.startswith(".L"):
                cur = Func(lab)
                funcs[lab] = cur
            elif cur is not None:
                cur.labels[lab] = len(cur.insns)
            if not s:
                continue
        parts = s.split(None, 1)
        op = parts[0].lower()
        args = _split_args(parts[1]) if len(parts) > 1 else []
        if op in (".globl", ".global"):
            globs.update(args)
            continue
        if op.startswith(".") and op != ".word":
            if op == ".size":
                cur = None if cur is not None and args and args[0] == cur.name else cur
            continue
        if cur is None:
            continue
        i = Ins()
        i.op, i.args, i.line, i.idx, i.text = op, args, line, len(cur.insns), s
        cur.insns.append(i)
    return funcs


def _imm(s):
    s = s.strip().lstrip("#=")
    try:
        return int(s, 0)
    except ValueError:
        raise Unsupported("immediate %r" % s)


class LabelDiff:
    """value of `.word .La-.Lb`"""
    def __init__(self, a, b):
        self.a, self.b = a, b


class CodePtr:
    def __init__(self, label):
        self.label = label


# ---------------------------------------------------------------------------
class Machine:
    def __init__(self, fn, isa):
        self.fn, self.isa, self.W = fn, isa, isa.W
        self.regs, self.mem = {}, {}
        self.flags = None
        self.sar = None
        self.steps = 0
        self.written, self.rbw = set(), set()      # registers written / read before being written since reset_tracking()
        self.oob = []                              # accesses outside the state object and the own stack frame
        self.tflag = None
        self.pc = 0

    def const(self, v):
        return const_bits(v & ((1 << self.W) - 1), self.W)

    def rd(self, r):
        r = self.isa.canon(r)
        if r in self.isa.ZERO_REGS:
            return self.const(0)
        if r not in self.regs:
            raise Unsupported("register %s read before it holds a known value" % r)
        if r not in self.written:
            self.rbw.add(r)
        return self.regs[r]

    def wr(self, r, v):
        r = self.isa.canon(r)
        if r in self.isa.ZERO_REGS:
            return
        self.written.add(r)
        self.regs[r] = v

    def bits(self, v, what=""):
        if not isinstance(v, tuple):
            raise Unsupported("bit operation on a pointer (%s)" % what)
        return v

    def cint(self, v, what=""):
        c = to_int(v) if isinstance(v, tuple) else None
        if c is None:
            raise Unsupported("constant expected (%s)" % what)
        return c

    def addr(self, base, off):
        b = self.rd(base)
        if not isinstance(b, PtrVal):
            raise Unsupported("memory access through a non-pointer register %s" % base)
        return (b.region, b.off + off)

    def _frame_check(self, a, what, sp_after=None):
        """accesses must stay inside the 40-byte state and the function's own frame: not below the stack pointer
        (an interrupt or signal may overwrite that at any time) and, for stores, not in the caller's frame"""
        region, off = a
        step = self.W // 8
        if region == "state":
            if off < 0 or off + step > 40:
                self.oob.append("%s of %d byte(s) at offset %d of the state object" % (what, step, off))
        elif region == "stack":
            sp = self.regs.get(self.isa.canon(self.isa.SP))
            low = sp_after if sp_after is not None else (sp.off if isinstance(sp, PtrVal) and sp.region == "stack" else None)
            if low is not None and off < low:
                self.oob.append("%s at %d byte(s) below the stack pointer" % (what, low - off))
            elif off >= 0 and what == "store":
                self.oob.append("store into the caller's frame (entry sp%+d)" % off)

    def load(self, a):
        if a not in self.mem:
            raise Unsupported("read of uninitialised memory %s%+d" % a)
        self._frame_check(a, "load")
        return self.mem[a]

    def store(self, a, v, sp_after=None):
        self._frame_check(a, "store", sp_after)
        self.mem[a] = v

    def add(self, a, c):
        """a + constant c for a pointer or a constant"""
        if isinstance(a, PtrVal):
            return PtrVal(a.region, a.off + c)
        return self.const(self.cint(a, "addition") + c)

    def run(self, start, stop_labels=(), stop_idx=None, max_steps=60000):
        fn = self.fn
        at = {}
        for lab, idx in fn.labels.items():
            at.setdefault(idx, []).append(lab)
        pc, first = start, True
        first0 = isinstance(stop_idx, (set, frozenset))     # a set of stop indices: do not stop on the starting instruction
        while True:
            if not first and pc in at:
                for lab in at[pc]:
                    if lab in stop_labels:
                        return lab
            first = False
            if stop_idx is not None and not first0 and (pc in stop_idx if isinstance(stop_idx, (set, frozenset)) else pc == stop_idx):
                return "idx"
            first0 = False
            if pc >= len(fn.insns):
                raise Unsupported("fell off the end of %s" % fn.name)
            self.steps += 1
            if self.steps > max_steps:
                raise Unsupported("step budget exhausted")
            ins = fn.insns[pc]
            self.pc = pc
            r = self.isa.step(self, ins)
            if r is None:
                pc += 1
            elif r == "ret":
                return "ret"
            elif r[0] == "jumpidx":
                pc = r[1]
            else:
                lab = r[1]
                if lab in stop_labels:
                    return lab
                if lab not in fn.labels:
                    raise Unsupported("branch to %s outside the function" % lab)
                pc = fn.labels[lab]


def _signed(v, w):
    v &= (1 << w) - 1
    return v - (1 << w) if v >> (w - 1) else v


# ---------------------------------------------------------------------------
class RiscV:
    ZERO_REGS = ("zero",)
    ALIAS = {"x0": "zero", "x1": "ra", "x2": "sp", "x8": "s0", "fp": "s0", "x9": "s1"}
    comment = None

    def __init__(self, W, embedded=False):
        self.W = W
        self.name = "RV%d%s" % (W, "E" if embedded else "I")
        self.STATE, self.ROUND, self.SP, self.LINK = "a0", "a1", "sp", "ra"
        self.SAVED = ["s0", "s1"] + ([] if embedded else ["s%d" % k for k in range(2, 12)])
        self.SCRATCH = ["t0", "t1", "t2", "a2", "a3", "a4", "a5"] + \
            ([] if embedded else ["a6", "a7", "t3", "t4", "t5", "t6"])
        self.ld, self.st = ("ld", "sd") if W == 64 else ("lw", "sw")

    def canon(self, r):
        return self.ALIAS.get(r, r)

    def _mem(self, mc, s):
        mm = re.fullmatch(r"(-?\w*)\((\w+)\)", s.replace(" ", ""))
        if not mm:
            raise Unsupported("address %s" % s)
        return mc.addr(mm.group(2), _imm(mm.group(1)) if mm.group(1) else 0)

    def is_dispatch_start(self, ins):
        return ins.op in ("beq", "bne", "bltu", "bgeu", "blt", "bge")

    def step(self, mc, ins):
        op, a = ins.op, ins.args
        if op == self.ld:
            mc.wr(a[0], mc.load(self._mem(mc, a[1])))
        elif op == self.st:
            mc.store(self._mem(mc, a[1]), mc.rd(a[0]))
        elif op in ("ld", "sd", "lw", "sw", "lb", "sb", "lh", "sh", "lbu", "lhu", "lwu"):
            raise Unsupported("access width of %s differs from the register width" % ins.text)
        elif op == "not":
            mc.wr(a[0], w_not(mc.bits(mc.rd(a[1]), ins.text)))
        elif op == "mv":
            mc.wr(a[0], mc.rd(a[1]))
        elif op == "li":
            mc.wr(a[0], mc.const(_imm(a[1])))
        elif op in ("xor", "and", "or"):
            f = {"xor": w_xor, "and": w_and, "or": w_or}[op]
            mc.wr(a[0], f(mc.bits(mc.rd(a[1]), ins.text), mc.bits(mc.rd(a[2]), ins.text)))
        elif op in ("xori", "andi", "ori"):
            f = {"xori": w_xor, "andi": w_and, "ori": w_or}[op]
            v = _imm(a[2])
            if not -2048 <= v <= 2047:
                raise Unsupported("immediate out of range in %s" % ins.text)
            mc.wr(a[0], f(mc.bits(mc.rd(a[1]), ins.text), mc.const(v)))
        elif op in ("srli", "slli"):
            n = _imm(a[2])
            if not 0 <= n < self.W:
                raise Unsupported("shift amount in %s" % ins.text)
            mc.wr(a[0], (w_shr if op == "srli" else w_shl)(mc.bits(mc.rd(a[1]), ins.text), n))
        elif op == "addi":
            mc.wr(a[0], mc.add(mc.rd(a[1]), _imm(a[2])))
        elif op in ("beq", "bne", "bltu", "bgeu"):
            x, y = mc.cint(mc.rd(a[0]), ins.text), mc.cint(mc.rd(a[1]), ins.text)
            if {"beq": x == y, "bne": x != y, "bltu": x < y, "bgeu": x >= y}[op]:
                return ("jump", a[2])
        elif op in ("beqz", "bnez"):
            x = mc.cint(mc.rd(a[0]), ins.text)
            if (x == 0) == (op == "beqz"):
                return ("jump", a[1])
        elif op == "j":
            return ("jump", a[0])
        elif op == "ret":
            return "ret"
        else:
            raise Unsupported("instruction %s" % ins.text)
        return None

    def return_ok(self, mc, link0):
        return mc.regs.get(self.LINK) == link0


class AArch64:
    ZERO_REGS = ("xzr",)
    W = 64
    name = "AArch64"
    comment = None
    STATE, ROUND, SP, LINK = "x0", "x1", "sp", "x30"
    # AAPCS64: a uint8_t argument defines bits 0..7 of w1 only, "any unused bits have unspecified value": the callee narrows
    ARG_DEFINED_BITS = 8
    SAVED = ["x%d" % k for k in range(19, 30)]
    SCRATCH = ["x%d" % k for k in range(2, 18)]

    def canon(self, r):
        r = r.lower()
        if r == "wzr":
            return "xzr"
        if r == "lr":
            return "x30"
        if r == "fp":
            return "x29"
        if re.fullmatch(r"w\d+", r):
            return "x" + r[1:]
        return r

    @staticmethod
    def _is32(r):
        return r.lower().startswith("w")

    def rdx(self, mc, r):
        v = mc.rd(r)
        if self._is32(r):
            v = mc.bits(v, r)
            return tuple(v[:32]) + tuple(const_bits(0, 32))
        return v

    def wrx(self, mc, r, v):
        if self._is32(r):
            v = tuple(mc.bits(v, r)[:32]) + tuple(const_bits(0, 32))
        mc.wr(r, v)

    def _mem(self, mc, s):
        mm = re.fullmatch(r"\[(\w+)(?:,#?(-?\w+))?\]", s.replace(" ", ""))
        if not mm:
            raise Unsupported("address %s" % s)
        return mc.addr(mm.group(1), _imm(mm.group(2)) if mm.group(2) else 0)

    def _op2(self, mc, args, text):
        """register operand with an optional shift: [reg] or [reg, 'ror #n']"""
        v = mc.bits(self.rdx(mc, args[0]), text)
        if len(args) > 1:
            mm = re.fullmatch(r"(ror|lsl|lsr)\s*#?(\d+)", args[1].strip().lower())
            if not mm:
                raise Unsupported("operand %s" % text)
            n = int(mm.group(2))
            w = 32 if self._is32(args[0]) else 64
            lo = v[:w]
            lo = {"ror": w_ror, "lsl": w_shl, "lsr": w_shr}[mm.group(1)](tuple(lo), n)
            v = tuple(lo) + tuple(v[w:])
        return v

    def is_dispatch_start(self, ins):
        return ins.op == "cmp"

    def step(self, mc, ins):
        op, a = ins.op, ins.args
        if op == "ldr":
            if a[1].startswith("="):
                mc.wr(a[0], mc.const(_imm(a[1])))
            else:
                if self._is32(a[0]):
                    raise Unsupported("32-bit load %s" % ins.text)
                mc.wr(a[0], mc.load(self._mem(mc, a[1])))
        elif op == "str":
            if self._is32(a[0]):
                raise Unsupported("32-bit store %s" % ins.text)
            mc.store(self._mem(mc, a[1]), mc.rd(a[0]))
        elif op in ("ldp", "stp"):
            if self._is32(a[0]) or len(a) != 3:
                raise Unsupported("pair access %s" % ins.text)
            reg, off = self._mem(mc, a[2])
            for k in (0, 1):
                if op == "ldp":
                    mc.wr(a[k], mc.load((reg, off + 8 * k)))
                else:
                    mc.store((reg, off + 8 * k), mc.rd(a[k]))
        elif op == "mvn":
            self.wrx(mc, a[0], w_not(self._op2(mc, a[1:], ins.text)))
        elif op == "mov":
            if a[1].startswith("#") or re.fullmatch(r"-?(0x)?[0-9a-fA-F]+", a[1]):
                self.wrx(mc, a[0], mc.const(_imm(a[1])))
            else:
                v = mc.rd(a[1])
                if isinstance(v, PtrVal):
                    mc.wr(a[0], v)
                else:
                    self.wrx(mc, a[0], self.rdx(mc, a[1]))
        elif op in ("eor", "and", "orr", "bic"):
            x = mc.bits(self.rdx(mc, a[1]), ins.text)
            if a[2].startswith("#"):
                y = mc.const(_imm(a[2]))
            else:
                y = self._op2(mc, a[2:], ins.text)
            if op == "bic":
                y = w_not(y)
            f = {"eor": w_xor, "and": w_and, "orr": w_or, "bic": w_and}[op]
            self.wrx(mc, a[0], f(x, y))
        elif op == "ror":
            if not a[2].startswith("#"):
                raise Unsupported("variable rotate %s" % ins.text)
            w = 32 if self._is32(a[0]) else 64
            v = mc.bits(self.rdx(mc, a[1]), ins.text)
            self.wrx(mc, a[0], tuple(w_ror(tuple(v[:w]), _imm(a[2]) % w)) + tuple(v[w:]))
        elif op in ("add", "sub") and len(a) == 3 and a[2].startswith("#"):
            c = _imm(a[2])
            mc.wr(a[0], mc.add(mc.rd(a[1]), c if op == "add" else -c))
        elif op == "cmp":
            x = mc.cint(self.rdx(mc, a[0]), ins.text)
            y = _imm(a[1]) if a[1].startswith("#") else mc.cint(self.rdx(mc, a[1]), ins.text)
            mc.flags = (x, y & ((1 << 64) - 1))
        elif op in ("beq", "bne", "bhi", "bls", "bhs", "blo", "b.eq", "b.ne", "b.hi", "b.ls", "b.hs", "b.lo"):
            if mc.flags is None:
                raise Unsupported("conditional branch without a constant comparison")
            x, y = mc.flags
            c = op.replace(".", "")[1:]
            if {"eq": x == y, "ne": x != y, "hi": x > y, "ls": x <= y, "hs": x >= y, "lo": x < y}[c]:
                return ("jump", a[0])
        elif op == "b":
            return ("jump", a[0])
        elif op == "ret":
            return "ret"
        else:
            raise Unsupported("instruction %s" % ins.text)
        return None

    def return_ok(self, mc, link0):
        return mc.regs.get("x30") == link0


class Arm32:
    """ARM / Thumb-2 / Thumb-1 in unified syntax"""
    ZERO_REGS = ()
    W = 32
    comment = "@"
    ALIAS = {"fp": "r11", "ip": "r12", "sl": "r10", "sb": "r9", "r13": "sp", "r14": "lr", "r15": "pc"}
    STATE, ROUND, SP, LINK = "r0", "r1", "sp", "lr"
    SAVED = ["r4", "r5", "r6", "r7", "r8", "r9", "r10", "r11"]
    SCRATCH = ["r2", "r3", "r12"]

    def __init__(self, name):
        self.name = name
        self.retval = None

    def canon(self, r):
        r = r.lower()
        return self.ALIAS.get(r, r)

    def _mem(self, mc, s):
        s = s.replace(" ", "")
        mm = re.fullmatch(r"\[(\w+)(?:,#?(-?\w+))?\]", s)
        if not mm:
            raise Unsupported("address %s" % s)
        if mm.group(2) and re.fullmatch(r"[a-zA-Z]\w*", mm.group(2)):
            return ("regoff", mm.group(1), mm.group(2))
        return mc.addr(mm.group(1), _imm(mm.group(2)) if mm.group(2) else 0)

    def _reglist(self, s):
        s = s.strip()
        if not (s.startswith("{") and s.endswith("}")):
            raise Unsupported("register list %s" % s)
        out = []
        for part in s[1:-1].split(","):
            part = part.strip()
            if "-" in part:
                lo, hi = [self.canon(x.strip()) for x in part.split("-")]
                out += ["r%d" % k for k in range(int(lo[1:]), int(hi[1:]) + 1)]
            elif part:
                out.append(self.canon(part))
        order = {("r%d" % k): k for k in range(13)}
        order.update({"sp": 13, "lr": 14, "pc": 15})
        return sorted(out, key=lambda r: order[r])

    def _op2(self, mc, args, text):
        if args[0].startswith("#"):
            return mc.const(_imm(args[0]))
        v = mc.bits(mc.rd(args[0]), text)
        if len(args) > 1:
            mm = re.fullmatch(r"(ror|lsl|lsr)\s*#?(\d+)", args[1].strip().lower())
            if not mm:
                raise Unsupported("operand %s" % text)
            v = {"ror": w_ror, "lsl": w_shl, "lsr": w_shr}[mm.group(1)](v, int(mm.group(2)))
        return v

    def is_dispatch_start(self, ins):
        return ins.op == "cmp"

    def step(self, mc, ins):
        op, a = ins.op, ins.args
        if op.endswith(".w") or op.endswith(".n"):
            op = op[:-2]
        if op == "push":
            regs = self._reglist(",".join(a))
            sp = mc.rd("sp")
            base = sp.off - 4 * len(regs)
            for k, r in enumerate(regs):
                mc.store((sp.region, base + 4 * k), mc.rd(r), sp_after=base)
            mc.wr("sp", PtrVal(sp.region, base))
        elif op == "pop":
            regs = self._reglist(",".join(a))
            sp = mc.rd("sp")
            ret = False
            for k, r in enumerate(regs):
                v = mc.load((sp.region, sp.off + 4 * k))
                if r == "pc":
                    self.retval, ret = v, True
                else:
                    mc.wr(r, v)
            mc.wr("sp", PtrVal(sp.region, sp.off + 4 * len(regs)))
            if ret:
                return "ret"
        elif op == "ldr":
            if a[1].startswith("="):
                mc.wr(a[0], mc.const(_imm(a[1])))
                return None
            m = self._mem(mc, a[1])
            if m[0] == "regoff":
                base, idx = mc.rd(m[1]), mc.rd(m[2])
                if not isinstance(base, CodePtr):
                    raise Unsupported("register-offset load %s" % ins.text)
                k = mc.cint(idx, ins.text)
                at = mc.fn.labels[base.label] + k // 4
                if k % 4 or at >= len(mc.fn.insns) or mc.fn.insns[at].op != ".word":
                    raise Unsupported("table load outside the table: %s" % ins.text)
                mm = re.fullmatch(r"([.\w]+)\s*-\s*([.\w]+)", mc.fn.insns[at].args[0])
                if not mm:
                    raise Unsupported("table entry %s" % mc.fn.insns[at].text)
                mc.wr(a[0], LabelDiff(mm.group(1), mm.group(2)))
            else:
                mc.wr(a[0], mc.load(m))
        elif op == "str":
            m = self._mem(mc, a[1])
            if m[0] == "regoff":
                raise Unsupported("register-offset store %s" % ins.text)
            mc.store(m, mc.rd(a[0]))
        elif op == "adr":
            mc.wr(a[0], CodePtr(a[1]))
        elif op in ("eor", "eors", "and", "ands", "orr", "orrs", "bic", "bics"):
            base = op.rstrip("s") if op not in ("bics",) else "bic"
            base = {"eor": "eor", "and": "and", "orr": "orr", "bic": "bic", "eors": "eor", "ands": "and", "orrs": "orr"}.get(op, base)
            if len(a) == 2 or (len(a) == 3 and re.match(r"(ror|lsl|lsr)\b", a[2].strip().lower())):
                rd, rn, rest = a[0], a[0], a[1:]
            else:
                rd, rn, rest = a[0], a[1], a[2:]
            x = mc.bits(mc.rd(rn), ins.text)
            y = self._op2(mc, rest, ins.text)
            if base == "bic":
                y = w_not(y)
            mc.wr(rd, {"eor": w_xor, "and": w_and, "orr": w_or, "bic": w_and}[base](x, y))
            mc.flags = None
        elif op in ("mvn", "mvns"):
            mc.wr(a[0], w_not(self._op2(mc, a[1:], ins.text)))
        elif op in ("mov", "movs"):
            if self.canon(a[0]) == "pc":
                v = mc.rd(a[1])
                if not isinstance(v, CodePtr):
                    raise Unsupported("indirect jump %s" % ins.text)
                return ("jump", v.label)
            if a[1].startswith("#"):
                mc.wr(a[0], mc.const(_imm(a[1])))
            else:
                v = mc.rd(a[1])
                mc.wr(a[0], v if not isinstance(v, tuple) or len(a) == 2 else self._op2(mc, a[1:], ins.text))
        elif op in ("ror", "rors", "lsl", "lsls", "lsr", "lsrs"):
            f = {"ror": w_ror, "lsl": w_shl, "lsr": w_shr}[op.rstrip("s") if op.endswith("s") and op != "lsls" else op.rstrip("s")]
            if len(a) == 2:
                rd, rn, amt = a[0], a[0], a[1]
            else:
                rd, rn, amt = a
            n = _imm(amt) if amt.startswith("#") else mc.cint(mc.rd(amt), ins.text) & 0xff
            if not 0 <= n < 32:
                raise Unsupported("shift amount in %s" % ins.text)
            mc.wr(rd, f(mc.bits(mc.rd(rn), ins.text), n))
        elif op in ("add", "adds", "sub", "subs"):
            if len(a) == 2:
                rd, rn, o = a[0], a[0], a[1]
            else:
                rd, rn, o = a
            x = mc.rd(rn)
            if o.startswith("#"):
                c = _imm(o)
                mc.wr(rd, mc.add(x, c if op.startswith("add") else -c))
            else:
                y = mc.rd(o)
                if isinstance(x, LabelDiff) and isinstance(y, CodePtr) and y.label == x.b and op.startswith("add"):
                    mc.wr(rd, CodePtr(x.a))
                elif isinstance(y, LabelDiff) and isinstance(x, CodePtr) and x.label == y.b and op.startswith("add"):
                    mc.wr(rd, CodePtr(y.a))
                else:
                    raise Unsupported("register arithmetic %s" % ins.text)
        elif op == "cmp":
            x = mc.cint(mc.rd(a[0]), ins.text)
            y = _imm(a[1]) if a[1].startswith("#") else mc.cint(mc.rd(a[1]), ins.text)
            mc.flags = (x, y & 0xffffffff)
        elif op in ("beq", "bne", "bhi", "bls", "bhs", "bcs", "blo", "bcc"):
            if mc.flags is None:
                raise Unsupported("conditional branch without a constant comparison")
            x, y = mc.flags
            if {"eq": x == y, "ne": x != y, "hi": x > y, "ls": x <= y, "hs": x >= y, "cs": x >= y, "lo": x < y, "cc": x < y}[op[1:]]:
                return ("jump", a[0])
        elif op == "b":
            return ("jump", a[0])
        elif op == "bl" and a[0] in mc.fn.labels:
            # long-range branch inside the function: the link register is clobbered
            mc.wr("lr", affine_sym("clobbered_lr", 32))
            return ("jump", a[0])
        elif op == "bx":
            if self.canon(a[0]) != "lr":
                raise Unsupported("indirect branch %s" % ins.text)
            self.retval = mc.rd("lr")
            return "ret"
        elif op == ".word":
            raise Unsupported("execution reaches data (%s)" % ins.text)
        else:
            raise Unsupported("instruction %s" % ins.text)
        return None

    def return_ok(self, mc, link0):
        return self.retval == link0


class Xtensa:
    ZERO_REGS = ()
    W = 32
    name = "Xtensa (call0)"
    comment = None
    STATE, ROUND, SP, LINK = "a2", "a3", "a1", "a0"
    SAVED = ["a12", "a13", "a14", "a15"]
    SCRATCH = ["a4", "a5", "a6", "a7", "a8", "a9", "a10", "a11"]

    def canon(self, r):
        r = r.lower()
        return "a1" if r == "sp" else r

    def is_dispatch_start(self, ins):
        return ins.op in ("beqi", "beq", "beqz", "bnez", "bnei", "bne", "bgeui", "bltui", "bgeu", "bltu")

    def step(self, mc, ins):
        op, a = ins.op, ins.args
        if op.endswith(".n"):
            op = op[:-2]
        if op == "l32i":
            mc.wr(a[0], mc.load(mc.addr(a[1], _imm(a[2]))))
        elif op == "s32i":
            mc.store(mc.addr(a[1], _imm(a[2])), mc.rd(a[0]))
        elif op in ("xor", "and", "or"):
            f = {"xor": w_xor, "and": w_and, "or": w_or}[op]
            mc.wr(a[0], f(mc.bits(mc.rd(a[1]), ins.text), mc.bits(mc.rd(a[2]), ins.text)))
        elif op == "ssai":
            n = _imm(a[0])
            if not 0 <= n < 32:
                raise Unsupported("shift amount in %s" % ins.text)
            mc.sar = n
        elif op == "src":
            if mc.sar is None:
                raise Unsupported("src without a constant shift amount")
            hi, lo = mc.bits(mc.rd(a[1]), ins.text), mc.bits(mc.rd(a[2]), ins.text)
            cat = tuple(lo) + tuple(hi)
            mc.wr(a[0], tuple(cat[k + mc.sar] for k in range(32)))
        elif op == "movi":
            mc.wr(a[0], mc.const(_imm(a[1])))
        elif op == "mov":
            mc.wr(a[0], mc.rd(a[1]))
        elif op == "addi":
            mc.wr(a[0], mc.add(mc.rd(a[1]), _imm(a[2])))
        elif op in ("beqi", "bnei", "bgeui", "bltui"):
            x, y = mc.cint(mc.rd(a[0]), ins.text), _imm(a[1]) & 0xffffffff
            if {"beqi": x == y, "bnei": x != y, "bgeui": x >= y, "bltui": x < y}[op]:
                return ("jump", a[2])
        elif op in ("beq", "bne", "bgeu", "bltu"):
            x, y = mc.cint(mc.rd(a[0]), ins.text), mc.cint(mc.rd(a[1]), ins.text)
            if {"beq": x == y, "bne": x != y, "bgeu": x >= y, "bltu": x < y}[op]:
                return ("jump", a[2])
        elif op in ("beqz", "bnez"):
            x = mc.cint(mc.rd(a[0]), ins.text)
            if (x == 0) == (op == "beqz"):
                return ("jump", a[1])
        elif op == "j":
            return ("jump", a[0])
        elif op == "ret":
            return "ret"
        else:
            raise Unsupported("instruction %s" % ins.text)
        return None

    def return_ok(self, mc, link0):
        return mc.regs.get("a0") == link0


class M68k:
    """Motorola syntax as emitted by gcc: `op.l src, dst`; arguments on the stack"""
    ZERO_REGS = ()
    W = 32
    comment = None
    STATE = ROUND = None           # passed on the stack: 4(%sp), 8(%sp) at entry
    SP, LINK = "sp", None
    SAVED = ["d2", "d3", "d4", "d5", "d6", "d7", "a2", "a3", "a4", "a5", "fp"]
    SCRATCH = ["d0", "d1", "a0", "a1"]
    FINAL_SP = 4

    def __init__(self, name):
        self.name = name
        self.retval = None

    def canon(self, r):
        r = r.lower().lstrip("%")
        return {"a7": "sp", "a6": "fp"}.get(r, r)

    def setup(self, mc, first_round, link0):
        mc.mem[("stack", 0)] = link0
        mc.mem[("stack", 4)] = PtrVal("state", 0)
        mc.mem[("stack", 8)] = mc.const(first_round)

    def is_dispatch_start(self, ins):
        return ins.op.startswith("cmp")

    def _ea(self, mc, s):
        """-> ("reg", name) | ("mem", addr) | ("imm", value)"""
        s = s.replace(" ", "")
        if s.startswith("#"):
            return ("imm", _imm(s))
        mm = re.fullmatch(r"(-?\w*)\(%(\w+)\)", s)
        if mm:
            return ("mem", mc.addr(mm.group(2), _imm(mm.group(1)) if mm.group(1) else 0))
        if re.fullmatch(r"%\w+", s):
            return ("reg", s)
        raise Unsupported("operand %s" % s)

    def _get(self, mc, ea):
        if ea[0] == "imm":
            return mc.const(ea[1])
        if ea[0] == "reg":
            return mc.rd(ea[1])
        return mc.load(ea[1])

    def _put(self, mc, ea, v):
        if ea[0] == "reg":
            mc.wr(ea[1], v)
        elif ea[0] == "mem":
            mc.store(ea[1], v)
        else:
            raise Unsupported("store to an immediate")

    def step(self, mc, ins):
        op, a = ins.op, ins.args
        if op.endswith(".w") and op != "link.w":
            raise Unsupported("16-bit operation %s" % ins.text)
        base = op[:-2] if op.endswith(".l") else op
        if base in ("move", "movea", "moveq"):
            self._put(mc, self._ea(mc, a[1]), self._get(mc, self._ea(mc, a[0])))
            mc.flags = None
        elif base in ("eor", "eori", "and", "andi", "or", "ori"):
            f = {"eo": w_xor, "an": w_and, "or": w_or}[base[:2]]
            dst = self._ea(mc, a[1])
            self._put(mc, dst, f(mc.bits(self._get(mc, dst), ins.text), mc.bits(self._get(mc, self._ea(mc, a[0])), ins.text)))
            mc.flags = None
        elif base == "not":
            dst = self._ea(mc, a[0])
            self._put(mc, dst, w_not(mc.bits(self._get(mc, dst), ins.text)))
            mc.flags = None
        elif base in ("ror", "rol", "lsl", "lsr"):
            cnt = self._ea(mc, a[0])
            n = cnt[1] if cnt[0] == "imm" else mc.cint(self._get(mc, cnt), ins.text) % 64
            if cnt[0] == "imm" and not 1 <= n <= 8:
                raise Unsupported("immediate shift count in %s" % ins.text)
            dst = self._ea(mc, a[1])
            if dst[0] != "reg":
                raise Unsupported("memory shift %s" % ins.text)
            v = mc.bits(self._get(mc, dst), ins.text)
            if base in ("ror", "rol"):
                n %= 32
                v = w_ror(v, n if base == "ror" else (32 - n) % 32)
            else:
                v = (w_shl if base == "lsl" else w_shr)(v, n) if n < 32 else mc.const(0)
            self._put(mc, dst, v)
            mc.flags = None
        elif base in ("cmpi", "cmp"):
            y = self._get(mc, self._ea(mc, a[0]))
            x = self._get(mc, self._ea(mc, a[1]))
            mc.flags = (mc.cint(x, ins.text), mc.cint(y, ins.text))
        elif op in ("jbeq", "jeq", "beq", "jbne", "jne", "bne", "jbhi", "jhi", "bhi", "jbls", "jls", "bls", "jbcc", "jcc", "bcc", "jbcs", "jcs", "bcs"):
            if mc.flags is None:
                raise Unsupported("conditional branch without a constant comparison")
            x, y = mc.flags
            c = op[-2:]
            if {"eq": x == y, "ne": x != y, "hi": x > y, "ls": x <= y, "cc": x >= y, "cs": x < y}[c]:
                return ("jump", a[0])
        elif op in ("jmp", "jra", "bra", "jbra"):
            return ("jump", a[0])
        elif op == "link.w" or op == "link":
            sp = mc.rd("sp")
            mc.store((sp.region, sp.off - 4), mc.rd(a[0]), sp_after=sp.off - 4)
            mc.wr(a[0], PtrVal(sp.region, sp.off - 4))
            mc.wr("sp", PtrVal(sp.region, sp.off - 4 + _signed(_imm(a[1]), 16)))
        elif op == "unlk":
            fp = mc.rd(a[0])
            if not isinstance(fp, PtrVal):
                raise Unsupported("unlk with a non-pointer frame register")
            mc.wr(a[0], mc.load((fp.region, fp.off)))
            mc.wr("sp", PtrVal(fp.region, fp.off + 4))
        elif op == "rts":
            sp = mc.rd("sp")
            self.retval = mc.load((sp.region, sp.off))
            mc.wr("sp", PtrVal(sp.region, sp.off + 4))
            return "ret"
        else:
            raise Unsupported("instruction %s" % ins.text)
        return None

    def return_ok(self, mc, link0):
        return self.retval == link0


class PtrHalf:
    """one byte of a 16-bit pointer held in an AVR register pair"""
    __slots__ = ("ptr", "half")

    def __init__(self, ptr, half):
        self.ptr, self.half = ptr, half

    def __eq__(self, o):
        return isinstance(o, PtrHalf) and (self.ptr, self.half) == (o.ptr, o.half)

    def __hash__(self):
        return hash((self.ptr, self.half))


class Avr:
    """AVR (avr-gcc conventions: r1 = 0, arguments in r25:r24, r22; Z = r31:r30)"""
    ZERO_REGS = ()
    W = 8
    name = "AVR5"
    comment = ";"
    SP = "sp"
    SAVED = ["r%d" % k for k in range(2, 18)] + ["r28", "r29"]
    SCRATCH = ["r0", "r18", "r19", "r20", "r21", "r23", "r24", "r25", "r26", "r27"]
    PAIRS = {"x": ("r26", "r27"), "y": ("r28", "r29"), "z": ("r30", "r31")}

    def canon(self, r):
        return r.lower()

    def _pair_ptr(self, mc, name):
        lo, hi = self.PAIRS[name]
        a, b = mc.rd(lo), mc.rd(hi)
        if not (isinstance(a, PtrHalf) and isinstance(b, PtrHalf) and a.ptr == b.ptr and (a.half, b.half) == (0, 1)):
            raise Unsupported("%s does not hold a pointer" % name.upper())
        return a.ptr

    def _mem(self, mc, s):
        mm = re.fullmatch(r"([xyzXYZ])(?:\+(\d+))?", s.replace(" ", ""))
        if not mm:
            raise Unsupported("address %s" % s)
        p = self._pair_ptr(mc, mm.group(1).lower())
        return (p.region, p.off + int(mm.group(2) or 0))

    def _c(self, mc):
        if mc.flags is None:
            raise Unsupported("carry flag read before it is defined")
        return mc.flags

    def step(self, mc, ins):
        op, a = ins.op, ins.args
        if op in ("ldd", "ld"):
            mc.wr(a[0], mc.load(self._mem(mc, a[1])))
        elif op in ("std", "st"):
            mc.store(self._mem(mc, a[0]), mc.rd(a[1]))
        elif op == "push":
            sp = mc.rd("sp")
            mc.store((sp.region, sp.off - 1), mc.rd(a[0]), sp_after=sp.off - 1)
            mc.wr("sp", PtrVal(sp.region, sp.off - 1))
        elif op == "pop":
            sp = mc.rd("sp")
            mc.wr(a[0], mc.load((sp.region, sp.off)))
            mc.wr("sp", PtrVal(sp.region, sp.off + 1))
        elif op == "mov":
            mc.wr(a[0], mc.rd(a[1]))
        elif op == "movw":
            d, r = int(a[0][1:]), int(a[1][1:])
            lo, hi = mc.rd("r%d" % r), mc.rd("r%d" % (r + 1))
            mc.wr("r%d" % d, lo)
            mc.wr("r%d" % (d + 1), hi)
        elif op in ("eor", "and", "or"):
            f = {"eor": w_xor, "and": w_and, "or": w_or}[op]
            mc.wr(a[0], f(mc.bits(mc.rd(a[0]), ins.text), mc.bits(mc.rd(a[1]), ins.text)))
        elif op == "com":
            mc.wr(a[0], w_not(mc.bits(mc.rd(a[0]), ins.text)))
            mc.flags = affine.ONEBIT
        elif op == "ldi":
            mc.wr(a[0], mc.const(_imm(a[1])))
        elif op in ("sub", "subi"):
            x = mc.cint(mc.rd(a[0]), ins.text)
            y = _imm(a[1]) if op == "subi" else mc.cint(mc.rd(a[1]), ins.text)
            mc.wr(a[0], mc.const(x - y))
            mc.flags = affine.ONEBIT if (y & 0xff) > x else affine.ZERO
        elif op == "swap":
            v = mc.bits(mc.rd(a[0]), ins.text)
            mc.wr(a[0], tuple(v[4:]) + tuple(v[:4]))
        elif op in ("lsr", "ror", "lsl", "rol"):
            v = mc.bits(mc.rd(a[0]), ins.text)
            cin = affine.ZERO if op in ("lsr", "lsl") else self._c(mc)
            if op in ("lsr", "ror"):
                mc.flags = v[0]
                mc.wr(a[0], tuple(v[1:]) + (cin,))
            else:
                mc.flags = v[7]
                mc.wr(a[0], (cin,) + tuple(v[:7]))
        elif op == "adc":
            v, o = mc.bits(mc.rd(a[0]), ins.text), mc.rd(a[1])
            if mc.cint(o, ins.text) != 0:
                raise Unsupported("addition %s" % ins.text)
            c = self._c(mc)
            if v[0] == affine.ZERO:
                mc.wr(a[0], (c,) + tuple(v[1:]))
                mc.flags = affine.ZERO
            elif c != affine.ZERO:
                raise Unsupported("carry propagation in %s" % ins.text)
        elif op == "bst":
            mc.tflag = mc.bits(mc.rd(a[0]), ins.text)[_imm(a[1])]
        elif op == "bld":
            v, k = list(mc.bits(mc.rd(a[0]), ins.text)), _imm(a[1])
            v[k] = mc.tflag
            mc.wr(a[0], tuple(v))
        elif op == "cpse":
            if mc.cint(mc.rd(a[0]), ins.text) == mc.cint(mc.rd(a[1]), ins.text):
                return ("jumpidx", mc.pc + 2)
        elif op == "rjmp":
            mm = re.fullmatch(r"(\d+)([bf])", a[0])
            if not mm:
                return ("jump", a[0])
            idxs = mc.fn.numlabels.get(mm.group(1), [])
            c = [i for i in idxs if i <= mc.pc] if mm.group(2) == "b" else [i for i in idxs if i > mc.pc]
            if not c:
                raise Unsupported("label %s not found" % a[0])
            return ("jumpidx", max(c) if mm.group(2) == "b" else min(c))
        elif op == "ret":
            return "ret"
        else:
            raise Unsupported("instruction %s" % ins.text)
        return None


def affine_sym(name, w):
    return tuple(affine.atom_bit((name, k)) for k in range(w))


# ---------------------------------------------------------------------------
BACKENDS = {
    # name: (file, preprocessor defines, ISA, layout, C configuration whose ascon_extract_bytes defines the layout)
    "riscv64i": ("src/core/ascon-asm-riscv64i.S", ["-D__riscv", "-D__riscv_xlen=64"], lambda: RiscV(64), "c64"),
    "riscv32i": ("src/core/ascon-asm-riscv32i.S", ["-D__riscv", "-D__riscv_xlen=32"], lambda: RiscV(32), "c32"),
    "riscv32e": ("src/core/ascon-asm-riscv32e.S", ["-D__riscv", "-D__riscv_xlen=32", "-D__riscv_32e"], lambda: RiscV(32, True), "c32"),
    "armv8a-64": ("src/core/ascon-asm-armv8a-64.S", ["-D__ARM_ARCH_8A", "-D__ARM_ARCH_ISA_A64"], AArch64, "c64"),
    "armv7m": ("src/core/ascon-asm-armv7m.S", ["-D__ARM_ARCH_ISA_THUMB", "-D__ARM_ARCH=7"], lambda: Arm32("ARMv7-M (Thumb-2)"), "c32"),
    "armv6": ("src/core/ascon-asm-armv6.S", ["-D__ARM_ARCH=6"], lambda: Arm32("ARMv6 (ARM)"), "c32"),
    "armv6m": ("src/core/ascon-asm-armv6m.S", ["-D__ARM_ARCH_ISA_THUMB", "-D__ARM_ARCH=6", "-D__ARM_ARCH_6M__"],
               lambda: Arm32("ARMv6-M (Thumb-1)"), "c32"),
    "xtensa": ("src/core/ascon-asm-xtensa.S", ["-D__XTENSA__"], Xtensa, "c64"),
    "m68k": ("src/core/ascon-asm-m68k.S", ["-D__m68k__"], lambda: M68k("m68k"), "c32"),
    "coldfire": ("src/core/ascon-asm-m68k.S", ["-D__m68k__", "-D__mcoldfire__"], lambda: M68k("m68k (ColdFire)"), "c32"),
}


def load_backend(name):
    from . import repo
    rel, defs, isa, layout = BACKENDS[name]
    path = os.path.join(repo.REPO, rel)
    p = repo.run(["clang", "-E", "-undef", "-x", "assembler-with-cpp"] + defs +
                 ["-I", os.path.join(repo.REPO, "src", "core"), "-I", os.path.join(repo.REPO, "src"), path])
    isa = isa()
    funcs = parse(p.stdout.decode(errors="replace"), comment=isa.comment)
    return path, rel, isa, funcs, layout


_DECODERS = {}


def layout_decoder(cfgname):
    """decode(cells: {byte offset: polys of one W-bit little-endian cell}) -> 320
    canonical bits, through ascon_extract_bytes of the C configuration"""
    from . import modes, repo
    if cfgname not in _DECODERS:
        b = repo.configure(repo.Config(cfgname))
        lr = repo.lower(b, group="lib", level="O0", langs=("c",))
        _DECODERS[cfgname] = modes.load_module(lr.json)
    m = _DECODERS[cfgname]

    def decode(cells):
        mc = affine.Machine(m)
        st = mc.new_obj("S", 40, symbolic=False)
        for off, v in cells.items():
            mc.store(affine.Ptr("S", off), tuple(v))
        out = mc.new_obj("out", 40, symbolic=False)
        mc.call("ascon_extract_bytes", [st, out, const_bits(0, 32), const_bits(40, 32)])
        return list(mc.load(out, 40))
    return decode


def rule_rounds(rep, rid, name):
    from .rules_c08 import spec_round, bytes_to_words, words_to_bytes
    path, rel, isa, funcs, layout = load_backend(name)
    fn = funcs.get("ascon_permute")
    if fn is None:
        rep.broken.append("%s: ascon_permute not found in the preprocessed %s" % (rid, rel))
        return
    W, step = isa.W, isa.W // 8
    decode = layout_decoder(layout)

    def where(idx):
        return "%s:%d" % (path, fn.insns[idx].line)

    def cell(off):
        return tuple(affine.atom_bit(("S", off + k // 8, k % 8)) for k in range(W))
    M = {off: cell(off) for off in range(0, 40, step)}
    atoms = set(("S", k, j) for k in range(40) for j in range(8))
    saved0 = {r: affine_sym("saved_" + r, W) for r in isa.SAVED}
    link0 = affine_sym("return_address", W)

    def dep(v):
        return isinstance(v, tuple) and any(a in atoms for bit in v for mono in bit for a in mono)

    allm = []

    def entry(cells, first_round):
        mc = Machine(fn, isa)
        allm.append(mc)
        mc.regs = dict(saved0)
        mc.regs[isa.canon(isa.SP)] = PtrVal("stack", 0)
        if hasattr(isa, "setup"):
            isa.setup(mc, first_round, link0)        # arguments and return address on the stack
        else:
            mc.regs[isa.canon(isa.LINK)] = link0
            mc.regs[isa.canon(isa.STATE)] = PtrVal("state", 0)
            mc.regs[isa.canon(isa.ROUND)] = mc.const(first_round)
        for off, v in cells.items():
            mc.mem[("state", off)] = tuple(v)
        return mc

    def finished_ok(mc, r):
        return r == "ret" and mc.regs.get(isa.canon(isa.SP)) == PtrVal("stack", getattr(isa, "FINAL_SP", 0)) and \
            isa.return_ok(mc, link0) and \
            all(mc.regs.get(s) == saved0[s] for s in saved0)
    disp = next((i.idx for i in fn.insns if isa.is_dispatch_start(i)), None)
    if disp is None:
        rep.unproved_item(rid, "%s: no first_round dispatch found in ascon_permute" % name)
        return
    labels = set(fn.labels)
    try:
        p0 = entry(M, 0)
        argcells = set(k for k in p0.mem if k[0] == "stack")
        p0.run(0, stop_idx=disp)
        sregs = sorted(r for r, v in p0.regs.items() if dep(v))
        sslots = sorted(k for k, v in p0.mem.items() if k[0] == "stack" and dep(v))
        stale = set()     # state cells that only the epilogue brings up to date (their word lives in a register / stack slot)
        # constants the prologue leaves in registers (an all-ones mask, say): a block may rely on one only if every
        # block preserves it - checked after the rounds for those that are read before being written
        roundreg = isa.canon(isa.ROUND) if isa.ROUND else None
        cregs = {r: v for r, v in p0.regs.items() if r != roundreg and isinstance(v, tuple) and to_int(v) is not None}

        def carried(src, junk=True):
            """the machine state a round block may rely on: the carried state, pointers, and registers still holding
            their value from the function entry; with junk=True everything else (scratch registers, dead copies,
            stale state cells) holds an unrelated symbol"""
            mc = Machine(fn, isa)
            allm.append(mc)
            if junk:
                for r in isa.SCRATCH + ([isa.ROUND] if isa.ROUND else []):
                    mc.regs[isa.canon(r)] = affine_sym("junk_" + r, W)
            for r, v in src.regs.items():
                if r in sregs or isinstance(v, PtrVal) or not junk or v == saved0.get(r) or v == link0 or r in cregs:
                    mc.regs[r] = v
                else:
                    mc.regs[r] = affine_sym("junk_" + r, W)
            mc.mem = {k: v for k, v in src.mem.items() if k[0] in ("stack", "state")}
            if junk:
                for off in stale:
                    mc.mem[("state", off)] = affine_sym("stale_%d" % off, W)
            mc.sar = None
            return mc
        # (b) dispatch
        blocks = []
        for r in range(12):
            d = entry(M, r)
            d.run(0, stop_idx=disp)
            lab = d.run(disp, stop_labels=labels)
            if lab == "ret" or lab not in fn.labels:
                rep.violation(rid, "%s:dispatch%d" % (name, r), where(disp), "%s ascon_permute: first_round = %d returns without "
                              "running a round" % (isa.name, r))
                return
            # (the argument cells of a stack-passing ABI hold first_round itself and are not part of the carried state)
            same = all(d.regs.get(x) == p0.regs[x] for x in sregs) and \
                all(d.mem.get(k) == p0.mem[k] for k in p0.mem if k[0] in ("stack", "state") and k not in argcells)
            if not same:
                rep.violation(rid, "%s:dispatch%d" % (name, r), where(disp), "%s ascon_permute: the dispatch for first_round = %d "
                              "modifies the carried state before the round block" % (isa.name, r))
                return
            blocks.append(lab)
        pos = [fn.labels[l] for l in blocks]
        if len(set(blocks)) != 12 or pos != sorted(pos):
            rep.violation(rid, "%s:dispatch-order" % name, where(disp), "%s ascon_permute: first_round 0..11 reach the labels %s, "
                          "which are not twelve distinct blocks in ascending order" % (isa.name, blocks))
            return
        rep.instance(rid, 1, {"backend": name, "dispatch": blocks})
        # last block -> end label
        t = carried(p0, junk=False)
        end = t.run(fn.labels[blocks[11]], stop_labels=labels - {blocks[11]})
        if end == "ret" or end not in fn.labels:
            raise Unsupported("block 11 does not fall into an epilogue label")
        # (a) epilogue . prologue = id
        ep = carried(p0, junk=False)
        okc = finished_ok(ep, ep.run(fn.labels[end])) and all(ep.mem.get(("state", off)) == M[off] for off in M)
        if not okc:
            rep.violation(rid, "%s:epilogue" % name, where(fn.labels[end]), "%s ascon_permute: the epilogue does not store back what "
                          "the prologue loaded, or does not restore %s / the stack pointer / the return address" % (
                              isa.name, ", ".join(isa.SAVED)))
        else:
            rep.instance(rid, 1, {"backend": name, "epilogue": "inverse of the prologue; %s, sp and the return address restored" % ", ".join(isa.SAVED)})
        # ABIs that leave the upper bits of a narrow argument unspecified: the dispatch must not look at them
        nb = getattr(isa, "ARG_DEFINED_BITS", None)
        if nb and isa.ROUND:
            for r in (0, 5, 11):
                for dirt in (0xABCD00, 0x100, (1 << W) - (1 << nb)):
                    d = entry(M, r)
                    d.regs[isa.canon(isa.ROUND)] = d.const(r | dirt)
                    d.run(0, stop_idx=disp)
                    lab = d.run(disp, stop_labels=labels)
                    if lab != blocks[r]:
                        rep.violation(rid, "%s:dispatch-upper-bits" % name, where(disp),
                                      "%s ascon_permute: with first_round = %d in the low %d bits of the argument register and other "
                                      "bits set (%#x) - which the calling convention leaves unspecified for a uint8_t argument - the "
                                      "dispatch reaches %s instead of the block of round %d" % (isa.name, r, nb, r | dirt, lab, r))
                        break
                else:
                    continue
                break
            else:
                rep.instance(rid, 1, {"backend": name, "argument_narrowing": "upper %d bits of first_round ignored" % (W - nb)})
        # first_round >= 12: identity
        for r in (12, 13, 255):
            d = entry(M, r)
            okd = finished_ok(d, d.run(0)) and all(d.mem.get(("state", off)) == M[off] for off in M)
            if not okd:
                rep.violation(rid, "%s:first-round-%d" % (name, r), where(disp), "%s ascon_permute: first_round = %d does not leave the "
                              "state unchanged and return cleanly" % (isa.name, r))
            else:
                rep.instance(rid, 1, {"backend": name, "first_round": r, "effect": "none"})
        # (c) prologue(epilogue(R)) = R
        R = carried(p0, junk=False)
        for r in sregs:
            R.regs[r] = affine_sym("R_" + r, W)
        for k in sslots:
            R.mem[k] = affine_sym("R_%d" % k[1], W)
        for off in M:
            R.mem[("state", off)] = affine_sym("Rm_%d" % off, W)
        want_regs = {r: R.regs[r] for r in sregs}
        want_mem = {k: R.mem[k] for k in sslots}
        want_state = {off: R.mem[("state", off)] for off in M}
        if R.run(fn.labels[end]) != "ret":
            raise Unsupported("epilogue did not return")
        def mentions(v, name):
            return isinstance(v, tuple) and any(a[0] == name for bit in v for mono in bit for a in mono)
        # a cell whose value after the epilogue does not depend on its value before is only written there: its word
        # lives in a register / stack slot while the rounds run
        stale = set(off for off in M if not mentions(R.mem[("state", off)], "Rm_%d" % off))
        # registers / slots whose value never reaches the stored state are dead copies, not part of the carried state
        final = [R.mem[("state", off)] for off in M]
        sregs = [r for r in sregs if any(mentions(v, "R_" + r) for v in final)]
        sslots = [k for k in sslots if any(mentions(v, "R_%d" % k[1]) for v in final)]
        if (len(sregs) + len(sslots) + len(M) - len(stale)) * W != 320:
            rep.unproved_item(rid, "%s: the state is carried in %d registers, %d stack slots and %d memory cells" % (
                name, len(sregs), len(sslots), len(M) - len(stale)))
            return
        rep.instance(rid, 1, {"backend": name, "carried_registers": sregs, "carried_stack_slots": [k[1] for k in sslots],
                              "carried_in_place": sorted(set(M) - stale)})
        back = entry({off: R.mem[("state", off)] for off in M}, 0)
        back.run(0, stop_idx=disp)
        if any(back.regs.get(r) != want_regs[r] for r in sregs) or any(back.mem.get(k) != want_mem[k] for k in sslots) or \
                any(back.mem.get(("state", off)) != want_state[off] for off in M if off not in stale):
            rep.violation(rid, "%s:carried-state" % name, where(0), "%s ascon_permute: prologue(epilogue(R)) differs from R: the round "
                          "blocks do not compose" % isa.name)
        else:
            rep.instance(rid, 1, {"backend": name, "carried_state": "prologue and epilogue are mutually inverse"})
        before = bytes_to_words(decode(M))
    except Unsupported as e:
        rep.unproved_item(rid, "%s: prologue / dispatch / epilogue not interpretable: %s" % (name, e))
        return
    needed, left = {}, {}
    for r in range(12):
        try:
            mc = carried(p0)
            nxt = blocks[r + 1] if r < 11 else end
            got = mc.run(fn.labels[blocks[r]], stop_labels=labels - {blocks[r]})
            for c in cregs:
                if c in mc.rbw:
                    needed.setdefault(c, r)
            left[r] = {c: mc.regs.get(c) for c in cregs}
            if got != nxt:
                rep.violation(rid, "%s:round%d:flow" % (name, r), where(fn.labels[blocks[r]]),
                              "%s ascon_permute: round block %d does not fall through to %s (reaches %s)" % (isa.name, r, nxt, got))
                continue
            if not finished_ok(mc, mc.run(fn.labels[end])):
                rep.violation(rid, "%s:round%d:abi" % (name, r), where(fn.labels[blocks[r]]),
                              "%s ascon_permute: after round block %d the epilogue no longer restores %s / the stack pointer / the "
                              "return address (the block overwrites a saved value)" % (isa.name, r, ", ".join(isa.SAVED)))
                continue
            after = decode({off: mc.mem[("state", off)] for off in M})
            want = words_to_bytes(spec_round(before, r))
            diff = [k for k in range(320) if after[k] != want[k]]
            if diff:
                rep.violation(rid, "%s:round%d" % (name, r), where(fn.labels[blocks[r]]),
                              "round block %d (label %s) of the %s ascon_permute is not the specification's round %d under the %s "
                              "layout: %d of 320 decoded state bits differ as polynomials (first in word %d)" % (
                                  r, blocks[r], isa.name, r, "64-bit sliced" if layout == "c64" else "bit-interleaved 32-bit",
                                  len(diff), diff[0] // 64))
            else:
                rep.instance(rid, 1, {"backend": name, "round": r, "label": blocks[r]})
        except Unsupported as e:
            rep.unproved_item(rid, "%s: round %d: %s" % (name, r, e))
    for c, q in sorted(needed.items()):
        for r in sorted(left):
            if left[r][c] != cregs[c]:
                rep.violation(rid, "%s:round%d:constant-%s" % (name, r, c), where(fn.labels[blocks[r]]),
                              "%s ascon_permute: round block %d relies on the constant the prologue leaves in %s, but round block %d "
                              "does not preserve it" % (isa.name, q, c, r))
                break
    # the other function of the file: ascon_backend_free clears scratch registers; it must keep the ABI as well
    bf = funcs.get("ascon_backend_free")
    if bf is not None:
        try:
            mc = Machine(bf, isa)
            allm.append(mc)
            mc.regs = dict(saved0)
            mc.regs[isa.canon(isa.SP)] = PtrVal("stack", 0)
            if hasattr(isa, "setup"):
                isa.setup(mc, 0, link0)
            else:
                mc.regs[isa.canon(isa.LINK)] = link0
                mc.regs[isa.canon(isa.STATE)] = PtrVal("state", 0)
            for off, v in M.items():
                mc.mem[("state", off)] = v
            if finished_ok(mc, mc.run(0)):
                rep.instance(rid, 1, {"backend": name, "function": "ascon_backend_free", "abi": "saved registers, sp, return address kept"})
            else:
                rep.violation(rid, "%s:backend_free" % name, "%s:%d" % (path, bf.insns[0].line),
                              "%s ascon_backend_free does not return with %s / the stack pointer / the return address intact" % (
                                  isa.name, ", ".join(isa.SAVED)))
        except Unsupported as e:
            rep.unproved_item(rid, "%s: ascon_backend_free: %s" % (name, e))
    oob = sorted(set(x for mc in allm for x in mc.oob))
    if oob:
        rep.violation(rid, "%s:footprint" % name, path, "%s ascon_permute touches memory outside the 40-byte state and its own stack "
                      "frame: %s" % (isa.name, "; ".join(oob[:4])))
    else:
        rep.instance(rid, 1, {"backend": name, "footprint": "state bytes 0..39 and the own frame at or above the stack pointer only"})


def rule_avr_rounds(rep, rid):
    """The AVR5 ascon_permute is a counted loop: the prologue turns first_round
    into the round constant ((15 - r) << 4 | r) kept in a register, one
    iteration applies a round and subtracts 15 from it, and the loop is left
    when it reaches 0x3c (round 12).  The state bytes are big-endian in place
    (direct-XOR layout), partly held in registers.  Decided, for r = 0..11:
    running the prologue with first_round = r and then ONE iteration leaves
    (i) the loop-control constants equal to those the prologue computes for
    r + 1 (or leaves the loop, r = 11), and (ii) a state with
    decode(epilogue(.)) = round_r(decode(M)) as polynomials in the 320 state
    bits, when every register outside the carried state holds an unrelated
    symbol at the loop head; (iii) prologue(epilogue(R)) = R for a symbolic
    carried state, so iterations compose; (iv) epilogue(prologue(M)) = M with
    r2-r17, r28, r29, r1 = 0 and the stack pointer restored; accesses stay
    inside the 40 state bytes and the own frame."""
    from . import repo
    from .rules_c08 import spec_round, bytes_to_words, words_to_bytes
    rel = "src/core/ascon-asm-avr5.S"
    path = os.path.join(repo.REPO, rel)
    txt = open(path).read().replace("#include <avr/io.h>", "")
    tmp = os.path.join(repo.scratch(), "avr5-noio.S")
    open(tmp, "w").write(txt)
    p = repo.run(["clang", "-E", "-undef", "-x", "assembler-with-cpp", "-D__AVR__", "-D__AVR_ARCH__=5",
                  "-I", os.path.join(repo.REPO, "src", "core"), tmp])
    isa = Avr()
    funcs = parse(p.stdout.decode(errors="replace"), comment=isa.comment)
    fn = funcs.get("ascon_permute")
    name = "avr5"
    if fn is None:
        rep.broken.append("%s: ascon_permute not found in the preprocessed %s" % (rid, rel))
        return
    decode = layout_decoder("direct")
    back = [i for i in fn.insns if i.op == "rjmp" and re.fullmatch(r"\d+b", i.args[0])]
    if len(back) != 1:
        rep.unproved_item(rid, "avr5: %d backward jumps in ascon_permute (one round loop expected)" % len(back))
        return
    head = max(k for k in fn.numlabels[back[0].args[0][:-1]] if k <= back[0].idx)
    exit_idx = back[0].idx + 1

    def where(idx):
        return "%s:%d" % (path, fn.insns[idx].line)
    M = {off: tuple(affine.atom_bit(("S", off, k)) for k in range(8)) for off in range(40)}
    atoms = set(("S", k, j) for k in range(40) for j in range(8))
    saved0 = {r: affine_sym("saved_" + r, 8) for r in isa.SAVED}
    allm = []

    def dep(v):
        return isinstance(v, tuple) and any(a in atoms for bit in v for mono in bit for a in mono)

    def entry(cells, first_round):
        mc = Machine(fn, isa)
        allm.append(mc)
        mc.regs = dict(saved0)
        mc.regs["sp"] = PtrVal("stack", 0)
        mc.regs["r1"] = mc.const(0)
        mc.regs["r24"], mc.regs["r25"] = PtrHalf(PtrVal("state", 0), 0), PtrHalf(PtrVal("state", 0), 1)
        mc.regs["r22"] = mc.const(first_round)
        for off, v in cells.items():
            mc.mem[("state", off)] = tuple(v)
        return mc

    def finished_ok(mc, r):
        return r == "ret" and mc.regs.get("sp") == PtrVal("stack", 0) and all(mc.regs.get(x) == saved0[x] for x in saved0) and \
            isinstance(mc.regs.get("r1"), tuple) and to_int(mc.regs["r1"]) == 0
    try:
        P = []
        for r in range(12):
            mc = entry(M, r)
            mc.run(0, stop_idx=head)
            P.append(mc)
        p0 = P[0]
        cand = sorted(r for r, v in p0.regs.items() if dep(v))
        for r in range(1, 12):
            if any(P[r].regs.get(x) != p0.regs[x] for x in cand) or any(P[r].mem.get(k) != v for k, v in p0.mem.items()):
                rep.violation(rid, "avr5:prologue%d" % r, where(0), "AVR5 ascon_permute: the prologue loads a different state for "
                              "first_round = %d than for first_round = 0" % r)
                return
        consts = [{x: v for x, v in P[r].regs.items() if isinstance(v, tuple) and to_int(v) is not None} for r in range(12)]
        # (iii) + carried set
        def mentions(v, nm):
            return isinstance(v, tuple) and any(a[0] == nm for bit in v for mono in bit for a in mono)
        R = Machine(fn, isa)
        allm.append(R)
        R.regs = dict(p0.regs)
        R.mem = dict(p0.mem)
        for x in cand:
            R.regs[x] = affine_sym("R_" + x, 8)
        for off in M:
            R.mem[("state", off)] = affine_sym("Rm_%d" % off, 8)
        want_regs = {x: R.regs[x] for x in cand}
        want_state = {off: R.mem[("state", off)] for off in M}
        if not finished_ok(R, R.run(exit_idx)):
            rep.violation(rid, "avr5:epilogue", where(exit_idx), "AVR5 ascon_permute: the epilogue does not restore r2-r17, r28, r29, r1 "
                          "= 0 or the stack pointer")
            return
        final = [R.mem[("state", off)] for off in M]
        sregs = [x for x in cand if any(mentions(v, "R_" + x) for v in final)]
        stale = set(off for off in M if not mentions(R.mem[("state", off)], "Rm_%d" % off))
        if len(sregs) + len(M) - len(stale) != 40:
            rep.unproved_item(rid, "avr5: the state is carried in %d registers and %d memory bytes" % (len(sregs), len(M) - len(stale)))
            return
        rep.instance(rid, 1, {"backend": name, "carried_registers": sregs, "carried_in_place": len(M) - len(stale)})
        b2 = entry({off: R.mem[("state", off)] for off in M}, 0)
        b2.run(0, stop_idx=head)
        if any(b2.regs.get(x) != want_regs[x] for x in sregs) or any(b2.mem.get(("state", off)) != want_state[off] for off in M if off not in stale):
            rep.violation(rid, "avr5:carried-state", where(0), "AVR5 ascon_permute: prologue(epilogue(R)) differs from R: the loop "
                          "iterations do not compose")
        else:
            rep.instance(rid, 1, {"backend": name, "carried_state": "prologue and epilogue are mutually inverse"})
        # (iv)
        ep = Machine(fn, isa)
        allm.append(ep)
        ep.regs, ep.mem = dict(p0.regs), dict(p0.mem)
        if not (finished_ok(ep, ep.run(exit_idx)) and all(ep.mem.get(("state", off)) == M[off] for off in M)):
            rep.violation(rid, "avr5:epilogue", where(exit_idx), "AVR5 ascon_permute: the epilogue does not store back what the prologue loaded")
        else:
            rep.instance(rid, 1, {"backend": name, "epilogue": "inverse of the prologue; r2-r17, r28, r29, r1 and sp restored"})
        before = bytes_to_words(decode(M))
    except Unsupported as e:
        rep.unproved_item(rid, "avr5: prologue / epilogue not interpretable: %s" % e)
        return
    for r in range(12):
        try:
            mc = Machine(fn, isa)
            allm.append(mc)
            for x, v in P[r].regs.items():
                keep = x in sregs or not isinstance(v, tuple) or v == saved0.get(x) or x in consts[r]
                mc.regs[x] = v if keep else affine_sym("junk_" + x, 8)
            for x in isa.SCRATCH:
                if x not in mc.regs:
                    mc.regs[x] = affine_sym("junk_" + x, 8)
            mc.mem = dict(P[r].mem)
            for off in stale:
                mc.mem[("state", off)] = affine_sym("stale_%d" % off, 8)
            got = mc.run(head, stop_idx={head, exit_idx})
            at = mc.pc if got == "idx" else None
            # where did it stop?  run() returns "idx" for either; the program counter tells which
            stopped_at_head = got == "idx" and fn.insns[mc.pc].op == "rjmp"
            if got != "idx":
                raise Unsupported("the iteration for round %d returned" % r)
            if r < 11:
                if not stopped_at_head:
                    rep.violation(rid, "avr5:round%d:loop" % r, where(back[0].idx), "AVR5 ascon_permute: the loop is left after round %d" % r)
                    continue
                badc = [x for x in sorted(mc.rbw) if x in consts[r + 1] and mc.regs.get(x) != consts[r + 1][x]]
                if badc:
                    rep.violation(rid, "avr5:round%d:control" % r, where(back[0].idx), "AVR5 ascon_permute: after the iteration for "
                                  "round %d register(s) %s do not hold the loop-control constants of round %d" % (r, ", ".join(badc), r + 1))
                    continue
            elif stopped_at_head:
                rep.violation(rid, "avr5:round11:loop", where(back[0].idx), "AVR5 ascon_permute: the loop is not left after round 11")
                continue
            if not finished_ok(mc, mc.run(exit_idx)):
                rep.violation(rid, "avr5:round%d:abi" % r, where(head), "AVR5 ascon_permute: after the iteration for round %d the epilogue "
                              "no longer restores the saved registers / stack pointer" % r)
                continue
            after = decode({off: mc.mem[("state", off)] for off in M})
            want = words_to_bytes(spec_round(before, r))
            diff = [k for k in range(320) if after[k] != want[k]]
            if diff:
                rep.violation(rid, "avr5:round%d" % r, where(head), "the loop iteration of the AVR5 ascon_permute with the constants of "
                              "round %d is not the specification's round %d: %d of 320 state bits differ as polynomials (first in word %d)" % (
                                  r, r, len(diff), diff[0] // 64))
            else:
                rep.instance(rid, 1, {"backend": name, "round": r})
        except Unsupported as e:
            rep.unproved_item(rid, "avr5: round %d: %s" % (r, e))
    oob = sorted(set(x for mc in allm for x in mc.oob))
    if oob:
        rep.violation(rid, "avr5:footprint", path, "AVR5 ascon_permute touches memory outside the 40-byte state and its own stack frame: %s" % "; ".join(oob[:4]))
    else:
        rep.instance(rid, 1, {"backend": name, "footprint": "state bytes 0..39 and the own frame only"})
