"""Abstract interpretation of the generated x86-64 (AT&T syntax) assembly.

Domains (one product state per program point, joined at labels):
  * stack height relative to the entry %rsp and contents of the own frame,
    including which entry register value each slot holds (ABI rule)
  * pointer provenance of registers: entry value of register r, argument k +
    constant, own stack, address of a local label (jump table), constant,
    plain data                                     (memory-footprint rule)
  * secret taint of registers, stack slots and flags    (constant-time rule)
The instruction vocabulary is the small set the generators emit; anything
else raises AnalysisBroken (exit 2) - never a silent pass.
"""
import os
import re

from . import facts, repo

ARG_REGS = ["rdi", "rsi", "rdx", "rcx", "r8", "r9"]
CALLEE_SAVED = ["rbx", "rbp", "r12", "r13", "r14", "r15"]
CALLER_SAVED = ["rax", "rcx", "rdx", "rsi", "rdi", "r8", "r9", "r10", "r11"]
ALL64 = ["rax", "rbx", "rcx", "rdx", "rsi", "rdi", "rbp", "rsp"] + ["r%d" % i for i in range(8, 16)]

_SUB = {}
for r in ("a", "b", "c", "d"):
    _SUB["e%sx" % r] = ("r%sx" % r, 4)
    _SUB["%sx" % r] = ("r%sx" % r, 2)
    _SUB["%sl" % r] = ("r%sx" % r, 1)
    _SUB["%sh" % r] = ("r%sx" % r, 1)
for r in ("si", "di", "bp", "sp"):
    _SUB["e" + r] = ("r" + r, 4)
    _SUB[r] = ("r" + r, 2)
    _SUB[r + "l"] = ("r" + r, 1)
for i in range(8, 16):
    _SUB["r%dd" % i] = ("r%d" % i, 4)
    _SUB["r%dw" % i] = ("r%d" % i, 2)
    _SUB["r%db" % i] = ("r%d" % i, 1)
for r in ALL64:
    _SUB[r] = (r, 8)


class Val:
    """abstract register / slot value"""
    __slots__ = ("kind", "a", "b", "secret")

    def __init__(self, kind, a=None, b=None, secret=False):
        self.kind, self.a, self.b, self.secret = kind, a, b, secret

    def key(self):
        return (self.kind, self.a, self.b, self.secret)

    def __eq__(self, o):
        return isinstance(o, Val) and self.key() == o.key()

    def __hash__(self):
        return hash(self.key())

    def __repr__(self):
        return "%s(%s%s)%s" % (self.kind, self.a if self.a is not None else "",
                               ("," + str(self.b)) if self.b is not None else "",
                               "!" if self.secret else "")


def data(secret=False):
    return Val("data", secret=secret)


UNDEF = Val("undef")


def join(x, y):
    if x == y:
        return x
    if x.kind == y.kind == "arg" and x.a == y.a:
        # pointer advanced in a loop: keep the argument, lose the offset
        return Val("arg", x.a, None, x.secret or y.secret)
    if x.kind == "undef" and y.kind == "undef":
        return UNDEF
    return Val("data", secret=x.secret or y.secret)


class Operand:
    __slots__ = ("kind", "reg", "width", "imm", "disp", "base", "index", "scale", "sym", "text")

    def __init__(self, text):
        self.text = text
        self.kind = None
        self.reg = self.base = self.index = self.sym = None
        self.width = 8
        self.imm = self.disp = 0
        self.scale = 1
        t = text.strip()
        if t.startswith("*"):
            t = t[1:]
            self._parse(t)
            self.kind = "ind-" + self.kind
            return
        self._parse(t)

    def _parse(self, t):
        if t.startswith("$"):
            self.kind = "imm"
            self.imm = _num(t[1:])
            return
        if t.startswith("%"):
            r = t[1:]
            if r not in _SUB:
                raise repo.AnalysisBroken("x86: unknown register %s" % t)
            self.kind = "reg"
            self.reg, self.width = _SUB[r]
            return
        m = re.match(r"^([^()]*)\(([^)]*)\)$", t)
        if m:
            self.kind = "mem"
            d = m.group(1).strip()
            parts = [p.strip() for p in m.group(2).split(",")]
            if parts[0]:
                b = parts[0].lstrip("%")
                if b == "rip":
                    self.base = "rip"
                    self.sym = d
                    return
                self.base = _SUB[b][0]
            if len(parts) > 1 and parts[1]:
                self.index = _SUB[parts[1].lstrip("%")][0]
            if len(parts) > 2 and parts[2]:
                self.scale = int(parts[2])
            self.disp = _num(d) if d else 0
            return
        self.kind = "sym"
        self.sym = t.split("@")[0]


def _num(s):
    s = s.strip()
    try:
        return int(s, 0)
    except ValueError:
        raise repo.AnalysisBroken("x86: cannot evaluate immediate/displacement %r" % s)


class Insn:
    __slots__ = ("op", "ops", "line", "text", "idx")

    def __init__(self, op, ops, line, text):
        self.op, self.ops, self.line, self.text = op, ops, line, text


class AsmFunc:
    def __init__(self, name):
        self.name = name
        self.insns = []
        self.labels = {}     # label -> insn index
        self.start_line = 0


class AsmFile:
    """functions and local data tables of one preprocessed .S file"""

    def __init__(self, text, path):
        self.path = path
        self.funcs = {}
        self.tables = {}     # label -> list of target labels (.long a-b)
        self.globl = set()
        self.other_directives = set()
        cur = None
        section = ".text"
        table = None
        pending_labels = []
        ln = 0
        for raw in text.splitlines():
            ln += 1
            if raw.startswith("#"):
                m = re.match(r'^#\s*(?:line\s+)?(\d+)\s+"([^"]*)"', raw)
                if m:
                    ln = int(m.group(1)) - 1
                continue
            line = raw.split("#")[0].strip()
            if not line:
                continue
            while True:
                m = re.match(r"^([A-Za-z_.$][\w.$]*):\s*(.*)$", line)
                if not m:
                    break
                lab, line = m.group(1), m.group(2).strip()
                if section != ".text":
                    table = lab
                    self.tables[table] = []
                elif not lab.startswith(".L"):
                    cur = AsmFunc(lab)
                    cur.start_line = ln
                    self.funcs[lab] = cur
                elif cur is not None:
                    cur.labels[lab] = len(cur.insns)
                if not line:
                    break
            if not line:
                continue
            if line.startswith("."):
                parts = line.split(None, 1)
                d = parts[0]
                arg = parts[1] if len(parts) > 1 else ""
                if d in (".text",):
                    section = ".text"
                    table = None
                elif d == ".section":
                    section = arg.split(",")[0].strip()
                    table = None
                elif d == ".long" and table is not None:
                    m = re.match(r"^(\S+?)-(\S+)$", arg.strip())
                    if not m or m.group(2) != table:
                        raise repo.AnalysisBroken("x86: unexpected jump table entry %r in %s" % (arg, path))
                    self.tables[table].append(m.group(1))
                elif d == ".globl":
                    self.globl.add(arg.strip())
                elif d == ".size":
                    cur = None if section == ".text" else cur
                else:
                    self.other_directives.add(d)
                continue
            if section != ".text":
                raise repo.AnalysisBroken("x86: instruction outside .text in %s:%d" % (path, ln))
            if cur is None:
                raise repo.AnalysisBroken("x86: instruction outside a function in %s:%d: %s" % (path, ln, line))
            parts = line.split(None, 1)
            op = parts[0]
            ops = _split_ops(parts[1]) if len(parts) > 1 else []
            ins = Insn(op, [Operand(o) for o in ops], ln, line)
            ins.idx = len(cur.insns)
            cur.insns.append(ins)


def _split_ops(s):
    out, depth, cur = [], 0, ""
    for ch in s:
        if ch == "(":
            depth += 1
        elif ch == ")":
            depth -= 1
        if ch == "," and depth == 0:
            out.append(cur.strip())
            cur = ""
        else:
            cur += ch
    if cur.strip():
        out.append(cur.strip())
    return out


class State:
    __slots__ = ("regs", "stack", "height", "flags")

    def __init__(self):
        self.regs = {}
        self.stack = {}
        self.height = 0
        self.flags = False

    def copy(self):
        s = State()
        s.regs = dict(self.regs)
        s.stack = dict(self.stack)
        s.height = self.height
        s.flags = self.flags
        return s

    def same(self, o):
        return (self.regs == o.regs and self.stack == o.stack and
                self.height == o.height and self.flags == o.flags)


class Finding:
    def __init__(self, rule, func, line, what):
        self.rule, self.func, self.line, self.what = rule, func, line, what


class Analysis:
    """Analyse one function.

    proto: list of parameter descriptions
       {"name":..., "pointer": bool, "size": pointee size or None, "secret": bool}
    """

    MOVS = {"movq": 8, "movl": 4, "movb": 1, "movw": 2}

    def __init__(self, afile, func, proto, call_clobbers_secret=True):
        self.file, self.f, self.proto = afile, func, proto
        self.findings = []
        self.stats = {"mem_operands": 0, "branches": 0, "calls": 0, "insns": len(func.insns),
                      "rets": 0, "max_frame": 0, "misaligned_calls": 0}
        self.round_constants = {}   # label -> immediate xored first after the label
        self.written_args = set()   # argument indices stored through

    def finding(self, rule, ins, what):
        self.findings.append(Finding(rule, self.f.name, ins.line, what))

    def initial(self):
        s = State()
        for r in ALL64:
            s.regs[r] = Val("entry", r)
        for k, r in enumerate(ARG_REGS):
            if k < len(self.proto):
                p = self.proto[k]
                if p["pointer"]:
                    s.regs[r] = Val("arg", k, 0)
                else:
                    s.regs[r] = Val("scalar", k, secret=p.get("secret", False))
            else:
                s.regs[r] = Val("entry", r)
        s.regs["rsp"] = Val("stack", 0)
        return s

    def run(self):
        f = self.f
        n = len(f.insns)
        if n == 0:
            return
        states = {0: self.initial()}
        work = [0]
        guard = 0
        while work:
            guard += 1
            if guard > 200000:
                raise repo.AnalysisBroken("x86: fixpoint did not converge in %s" % f.name)
            i = work.pop()
            st = states[i].copy()
            ins = f.insns[i]
            succs = self.step(ins, st)
            for j, s2 in succs:
                if j >= n:
                    self.finding("abi", ins, "control falls off the end of the function")
                    continue
                old = states.get(j)
                if old is None:
                    states[j] = s2
                    work.append(j)
                else:
                    if old.height != s2.height:
                        self.finding("abi", f.insns[j], "stack height differs between paths joining here "
                                     "(%d vs %d bytes)" % (-old.height, -s2.height))
                        continue
                    new = self._join(old, s2)
                    if not new.same(old):
                        states[j] = new
                        work.append(j)
        self.reached = set(states)

    def _join(self, a, b):
        s = State()
        s.height = a.height
        s.flags = a.flags or b.flags
        for r in a.regs:
            s.regs[r] = join(a.regs[r], b.regs[r])
        for k in set(a.stack) | set(b.stack):
            x, y = a.stack.get(k, UNDEF), b.stack.get(k, UNDEF)
            s.stack[k] = join(x, y)
        return s

    # ------------------------------------------------------------------
    def mem_access(self, ins, st, o, width, write):
        """check a memory operand; returns the abstract value read (for loads)"""
        self.stats["mem_operands"] += 1
        if o.base == "rip":
            if write:
                self.finding("footprint", ins, "store to %s (read-only data)" % o.text)
            if o.sym not in self.file.tables:
                self.finding("footprint", ins, "rip-relative access to unknown object %s" % o.sym)
            return Val("tableentry", o.sym)
        b = st.regs.get(o.base) if o.base else None
        ix = st.regs.get(o.index) if o.index else None
        if ix is not None and ix.secret:
            self.finding("ct", ins, "memory operand %s indexed by a secret-dependent register %%%s" % (o.text, o.index))
        if b is not None and b.secret:
            self.finding("ct", ins, "memory operand %s has a secret-dependent base register %%%s" % (o.text, o.base))
        if b is None:
            self.finding("footprint", ins, "memory operand %s without base register" % o.text)
            return data(True)
        if b.kind == "label" and ix is not None:
            # jump-table load: (%table,%index,4)
            if write:
                self.finding("footprint", ins, "store into jump table %s" % b.a)
            return Val("tableentry", b.a, secret=ix.secret)
        if b.kind == "stack":
            off = b.a + o.disp
            if ix is not None:
                self.finding("footprint", ins, "indexed stack access %s" % o.text)
                return data(True)
            lo = st.height
            if off < lo or off + width > 0:
                self.finding("footprint", ins, "stack access %s at entry-rsp%+d (width %d) is outside the own "
                             "frame [%d,0)" % (o.text, off, width, lo))
                return data(True)
            if write:
                return None
            v = st.stack.get(off)
            if v is None:
                # partial / unaligned re-read of a spill area: treat as secret data
                return data(True)
            return v
        if b.kind == "arg":
            p = self.proto[b.a]
            if write:
                self.written_args.add(b.a)
            if b.b is None:
                # offset lost at a loop join: only allowed for byte buffers
                if p["size"] is not None:
                    self.finding("footprint", ins, "access %s through argument %d (%s) at an offset that is not "
                                 "constant on all paths" % (o.text, b.a, p["name"]))
                return data(p["secret"])
            off = b.b + o.disp
            if ix is not None:
                if p["size"] is not None:
                    self.finding("footprint", ins, "indexed access %s into fixed-size argument %d (%s, %d bytes)" % (
                        o.text, b.a, p["name"], p["size"]))
                elif ix.kind not in ("scalar", "data", "const") or ix.secret:
                    self.finding("footprint", ins, "index of %s is not a public scalar" % o.text)
                if off < 0:
                    self.finding("footprint", ins, "negative offset %d from argument %d" % (off, b.a))
                return data(p["secret"])
            if off < 0 or (p["size"] is not None and off + width > p["size"]):
                self.finding("footprint", ins, "access %s touches bytes [%d,%d) of argument %d (%s), which is %s" % (
                    o.text, off, off + width, b.a, p["name"],
                    ("%d bytes long" % p["size"]) if p["size"] is not None else "a buffer"))
            if write:
                self.written_args.add(b.a)
            if write and p.get("const"):
                self.finding("footprint", ins, "store %s through const argument %d (%s)" % (o.text, b.a, p["name"]))
            return data(p["secret"])
        self.finding("footprint", ins, "memory operand %s: base %%%s holds %r, which is neither an argument "
                     "pointer nor the stack" % (o.text, o.base, b))
        return data(True)

    def read(self, ins, st, o, width=None):
        if o.kind == "imm":
            return Val("const", o.imm)
        if o.kind == "reg":
            return st.regs[o.reg]
        if o.kind == "mem":
            return self.mem_access(ins, st, o, width or 8, False)
        raise repo.AnalysisBroken("x86: cannot read operand %s in %s" % (o.text, ins.text))

    def write(self, ins, st, o, v, width):
        if o.kind == "reg":
            if o.reg == "rsp":
                raise repo.AnalysisBroken("x86: unmodelled write to %%rsp: %s" % ins.text)
            if width < 4 and v.kind != "const":
                # partial register write merges with old content
                old = st.regs[o.reg]
                v = Val("data", secret=v.secret or old.secret)
            st.regs[o.reg] = v
            return
        if o.kind == "mem":
            self.mem_access(ins, st, o, width, True)
            b = st.regs.get(o.base) if o.base else None
            if b is not None and b.kind == "stack" and o.index is None:
                off = b.a + o.disp
                # invalidate overlapping slots
                for k in list(st.stack):
                    if k < off + width and off < k + 8:
                        del st.stack[k]
                st.stack[off] = v if width == 8 else Val("data", secret=v.secret)
            return
        raise repo.AnalysisBroken("x86: cannot write operand %s in %s" % (o.text, ins.text))

    # ------------------------------------------------------------------
    def step(self, ins, st):
        op, ops = ins.op, ins.ops
        nxt = ins.idx + 1
        f = self.f
        if op in self.MOVS:
            w = self.MOVS[op]
            v = self.read(ins, st, ops[0], w)
            if w == 4 and ops[1].kind == "reg":
                # 32-bit move zero-extends: pointer-ness is lost
                if v.kind not in ("const",):
                    v = Val("data", secret=v.secret) if v.kind != "scalar" else v
            if w < 4 and v.kind not in ("const",):
                v = Val("data", secret=v.secret)
            self.write(ins, st, ops[1], v, w)
            return [(nxt, st)]
        if op in ("movzbl", "movzbq", "movzwl", "movzwq", "movslq", "movsbl", "movsbq", "movswl", "movswq"):
            w = {"b": 1, "w": 2, "l": 4}[op[4]]
            v = self.read(ins, st, ops[0], w)
            if v.kind == "tableentry":
                nv = v
            else:
                nv = Val("data", secret=v.secret) if v.kind not in ("scalar", "const") else v
            self.write(ins, st, ops[1], nv, 8)
            return [(nxt, st)]
        if op in ("xorq", "xorl", "andq", "andl", "orq", "orl", "addq", "addl", "subq", "subl"):
            w = 8 if op.endswith("q") else 4
            base = op[:-1]
            src, dst = ops
            if dst.kind == "reg" and dst.reg == "rsp":
                if src.kind != "imm" or base not in ("add", "sub"):
                    raise repo.AnalysisBroken("x86: unmodelled %%rsp arithmetic: %s" % ins.text)
                delta = src.imm if base == "add" else -src.imm
                self._move_sp(ins, st, delta)
                return [(nxt, st)]
            a = self.read(ins, st, src, w)
            d = self.read(ins, st, dst, w)
            if base == "xor" and src.kind == "reg" and dst.kind == "reg" and src.reg == dst.reg:
                r = Val("const", 0)
            elif base in ("add", "sub") and d.kind == "arg" and a.kind == "const" and w == 8:
                r = Val("arg", d.a, None if d.b is None else d.b + (a.a if base == "add" else -a.a))
            elif base == "add" and d.kind == "tableentry" and a.kind == "label" and a.a == d.a:
                r = Val("tabletarget", d.a, secret=d.secret)
            elif base in ("add", "sub") and d.kind == "scalar" and a.kind == "const":
                r = Val("scalar", d.a, secret=d.secret)
            elif base == "and" and (a.kind == "const" and a.a == 0):
                r = Val("const", 0)
            else:
                r = Val("data", secret=a.secret or d.secret)
                if base == "xor" and dst.kind == "reg" and src.kind == "imm":
                    self._note_rc(ins, dst.reg, src.imm)
            st.flags = r.secret
            self.write(ins, st, dst, r, w)
            return [(nxt, st)]
        if op in ("notq", "notl", "bswapq", "bswapl", "negq", "incq", "decq"):
            w = 8 if op.endswith("q") else 4
            d = self.read(ins, st, ops[0], w)
            r = Val("data", secret=d.secret) if d.kind != "scalar" else Val("scalar", d.a, secret=d.secret)
            if op in ("incq", "decq", "negq"):
                st.flags = r.secret
            self.write(ins, st, ops[0], r, w)
            return [(nxt, st)]
        if op in ("rorq", "rolq", "shlq", "shrq", "sarq", "rorl", "roll", "shll", "shrl", "sarl"):
            w = 8 if op.endswith("q") else 4
            if len(ops) == 1:
                cnt, dst = Operand("$1"), ops[0]
            else:
                cnt, dst = ops
            c = self.read(ins, st, cnt, 1)
            d = self.read(ins, st, dst, w)
            r = Val("data", secret=d.secret or c.secret)
            if op[:3] in ("shl", "shr", "sar"):
                st.flags = r.secret
            self.write(ins, st, dst, r, w)
            return [(nxt, st)]
        if op == "leaq":
            src, dst = ops
            if src.kind != "mem":
                raise repo.AnalysisBroken("x86: lea without memory operand: %s" % ins.text)
            if src.base == "rip":
                st.regs[dst.reg] = Val("label", src.sym)
                return [(nxt, st)]
            b = st.regs[src.base]
            if src.index is None and b.kind == "arg":
                st.regs[dst.reg] = Val("arg", b.a, None if b.b is None else b.b + src.disp)
            elif src.index is None and b.kind == "stack":
                st.regs[dst.reg] = Val("stack", b.a + src.disp)
            else:
                ix = st.regs[src.index] if src.index else Val("const", 0)
                if b.kind == "arg":
                    st.regs[dst.reg] = Val("arg", b.a, None, secret=ix.secret)
                else:
                    st.regs[dst.reg] = Val("data", secret=b.secret or ix.secret)
            return [(nxt, st)]
        if op == "pushq":
            v = self.read(ins, st, ops[0], 8)
            self._move_sp(ins, st, -8)
            st.stack[st.height] = v
            return [(nxt, st)]
        if op == "popq":
            v = st.stack.get(st.height)
            if v is None:
                self.finding("abi", ins, "pop from a stack slot that was never written (entry-rsp%+d)" % st.height)
                v = data(True)
            if st.height >= 0:
                self.finding("abi", ins, "pop above the function's own frame (would consume the return address)")
            st.stack.pop(st.height, None)
            self._move_sp(ins, st, 8)
            if ops[0].kind != "reg":
                raise repo.AnalysisBroken("x86: pop to memory: %s" % ins.text)
            st.regs[ops[0].reg] = v
            return [(nxt, st)]
        if op in ("cmpq", "cmpl", "cmpb", "testq", "testl", "testb"):
            w = {"q": 8, "l": 4, "b": 1}[op[-1]]
            a = self.read(ins, st, ops[0], w)
            b = self.read(ins, st, ops[1], w)
            st.flags = a.secret or b.secret
            return [(nxt, st)]
        if op.startswith("j") and op != "jmp":
            self.stats["branches"] += 1
            if st.flags:
                self.finding("ct", ins, "conditional jump %s on flags computed from secret data" % ins.text)
            tgt = ops[0].sym
            if tgt not in f.labels:
                raise repo.AnalysisBroken("x86: jump to unknown label %s in %s" % (tgt, f.name))
            return [(f.labels[tgt], st.copy()), (nxt, st)]
        if op == "jmp":
            o = ops[0]
            if o.kind == "sym":
                if o.sym not in f.labels:
                    raise repo.AnalysisBroken("x86: jump to unknown label %s in %s" % (o.sym, f.name))
                return [(f.labels[o.sym], st)]
            if o.kind == "ind-reg":
                v = st.regs[o.reg]
                self.stats["branches"] += 1
                if v.secret:
                    self.finding("ct", ins, "indirect jump through a secret-dependent register")
                if v.kind != "tabletarget":
                    self.finding("footprint", ins, "indirect jump through %%%s holding %r (not a jump-table target)" % (o.reg, v))
                    return []
                out = []
                for lab in self.file.tables.get(v.a, []):
                    if lab not in f.labels:
                        raise repo.AnalysisBroken("x86: jump table %s names unknown label %s" % (v.a, lab))
                    out.append((f.labels[lab], st.copy()))
                return out
            raise repo.AnalysisBroken("x86: unmodelled jump %s" % ins.text)
        if op == "call":
            self.stats["calls"] += 1
            callee = ops[0].sym
            if (st.height - 8) % 16 != 0:
                self.stats["misaligned_calls"] += 1
            if callee != "ascon_trng_generate_64":
                self.finding("footprint", ins, "call to %s (only ascon_trng_generate_64 is expected)" % callee)
            a0 = st.regs["rdi"]
            if callee == "ascon_trng_generate_64":
                ok = a0.kind == "arg" and self.proto[a0.a].get("trng") and a0.b == 0
                if not ok:
                    self.finding("footprint", ins, "ascon_trng_generate_64 is called with %%rdi = %r, not the "
                                 "random-generator argument" % a0)
            for r in CALLER_SAVED:
                st.regs[r] = UNDEF
            st.regs["rax"] = data(True)
            st.flags = False
            return [(nxt, st)]
        if op == "ret":
            self.stats["rets"] += 1
            if st.height != 0:
                self.finding("abi", ins, "return with %%rsp %+d bytes from its entry value" % st.height)
            for r in CALLEE_SAVED:
                v = st.regs[r]
                if not (v.kind == "entry" and v.a == r):
                    self.finding("abi", ins, "callee-saved register %%%s is not restored at return (holds %r)" % (r, v))
            return []
        raise repo.AnalysisBroken("x86: unknown instruction %r in %s (%s:%d)" % (
            ins.text, f.name, self.file.path, ins.line))

    def _move_sp(self, ins, st, delta):
        st.height += delta
        st.regs["rsp"] = Val("stack", st.height)
        if st.height > 0:
            self.finding("abi", ins, "%rsp moves above its entry value")
        if delta > 0:
            for k in list(st.stack):
                if k < st.height:
                    del st.stack[k]
        self.stats["max_frame"] = max(self.stats["max_frame"], -st.height)

    def _note_rc(self, ins, reg, imm):
        # first immediate XOR after each label: the round constant of that block
        lab = None
        for l, idx in self.f.labels.items():
            if idx <= ins.idx and (lab is None or idx > self.f.labels[lab]):
                lab = l
        if lab is not None and lab not in self.round_constants:
            # only the first xor-immediate in the block counts
            first = True
            for j in range(self.f.labels[lab], ins.idx):
                pj = self.f.insns[j]
                if pj.op in ("xorq", "xorl") and pj.ops[0].kind == "imm":
                    first = False
            if first:
                self.round_constants[lab] = (reg, imm & ((1 << 64) - 1))


# ---------------------------------------------------------------------------
# prototypes from the C declarations

SECRET_POINTEES = ("ascon_state_t", "ascon_masked_word_t", "ascon_masked_state_t",
                   "ascon_masked_key_word_t")


def prototypes(build):
    """name -> list of parameter descriptions, from the C declarations seen by
    the library units that call the assembly functions."""
    hdrs = [os.path.join(repo.REPO, "src/ascon/permutation.h"),
            os.path.join(repo.REPO, "src/core/ascon-select-backend.h"),
            os.path.join(repo.REPO, "src/core/ascon-util-snp.h"),
            os.path.join(repo.REPO, "src/masking/ascon-masked-backend.h"),
            os.path.join(repo.REPO, "src/masking/ascon-masked-word.h"),
            os.path.join(repo.REPO, "src/masking/ascon-masked-state.h")]
    d = facts.header_facts(build, "c", headers=hdrs)
    sizes = {}
    for r in d["records"]:
        for n in (r.get("typedef"), r.get("name")):
            if n and "size" in r:
                sizes[n] = r["size"]
    out = {}
    for decl in d["decls"]:
        ps = []
        for p in decl["params"]:
            ty = p["ty"]
            if "*" in ty:
                base = ty.replace("const", "").replace("*", "").strip()
                ps.append({"name": p["name"], "pointer": True, "size": sizes.get(base),
                           "secret": base != "ascon_trng_state_t",
                           "const": bool(p.get("pointee_const")),
                           "trng": base == "ascon_trng_state_t", "type": base})
            else:
                ps.append({"name": p["name"], "pointer": False, "size": None, "secret": False,
                           "type": ty})
        out.setdefault(decl["name"], ps)
    return out, sizes


def asm_units(build):
    return [u for u in build.units if u.group == "lib" and u.lang == "asm"]


def analyse_build(build):
    """-> list of (unit rel, AsmFile, {func: Analysis})"""
    protos, sizes = prototypes(build)
    out = []
    for u in asm_units(build):
        text = repo.preprocess(u)
        if not text.strip():
            continue
        af = AsmFile(text, u.rel)
        res = {}
        for name, fn in af.funcs.items():
            if name not in protos:
                raise repo.AnalysisBroken("x86: no C declaration found for assembly function %s (%s)" % (name, u.rel))
            a = Analysis(af, fn, protos[name])
            a.run()
            res[name] = a
        out.append((u.rel, af, res))
    return out


def share_configs(tier):
    if tier == "quick":
        return [repo.Config("asm", 4, 2, 4), repo.Config("asm", 3, 2, 3), repo.Config("asm", 2, 2, 2)]
    return [repo.Config("asm", k, d, m) for (k, d, m) in repo.share_triples()]


_CACHE = {}


def analyse_all(tier):
    key = tier
    if key not in _CACHE:
        cfgs = share_configs(tier)
        builds = repo.configure_many(cfgs)
        _CACHE[key] = [(b, analyse_build(b)) for b in builds]
    return _CACHE[key]


def _report(rep, rid, tier, rule, desc, floor):
    rep.rule(rid, desc)
    total = 0
    for b, res in analyse_all(tier):
        if b.cfg.name not in rep.configs:
            rep.configs.append(b.cfg.name)
        for rel, af, fa in res:
            rep.units.add(rel)
            for name, a in fa.items():
                bad = [x for x in a.findings if x.rule == rule]
                seen = set()
                for x in bad:
                    k = (x.func, x.what.split(" at ")[0][:60])
                    if k in seen:
                        continue
                    seen.add(k)
                    rep.violation(rid, "%s:%s" % (x.func, rule), "%s:%d" % (os.path.join(repo.REPO, rel), x.line),
                                  x.what, config=b.cfg.name)
                if not bad:
                    total += 1
                    rep.instance(rid, 1, {"config": b.cfg.name, "function": name, "unit": rel,
                                          "instructions": a.stats["insns"],
                                          "memory_operands": a.stats["mem_operands"],
                                          "branches": a.stats["branches"], "calls": a.stats["calls"]})
    rep.floor(rid, floor)


def rule_constant_time(rep, tier, rid):
    _report(rep, rid, tier, "ct",
            "x86-64 assembly: no conditional/indirect jump or memory address depends on secret registers",
            15 * (3 if tier == "quick" else 27))
