"""Concrete evaluation of a single IR instruction on known operand values
(used by value-set interpretations over small finite domains)."""
from . import ir


def width(ty):
    if ty.startswith("i") and ty[1:].isdigit():
        return int(ty[1:])
    return 64


def sgn(x, bits):
    x &= (1 << bits) - 1
    return x - (1 << bits) if x >> (bits - 1) else x


def operand_width(fn, o):
    if ir.is_local(o):
        d = fn.defs.get(o)
        if d is not None:
            return width(d.ty)
        if o in fn.params:
            return width(fn.param_ty[fn.params.index(o)])
    if isinstance(o, dict) and "w" in o:
        return o["w"]
    return 64


def value(env, o):
    c = ir.const_int(o)
    if c is not None:
        return c
    if o == "null":
        return 0
    if ir.is_local(o):
        return env.get(o)
    return None


def step(i, env):
    """value of instruction i if all operands are known in env, else None"""
    fn = i.block.fn
    vals = [value(env, o) for o in i.ops]
    if any(x is None for x in vals):
        return None
    w = width(i.ty)
    mask = (1 << w) - 1
    op = i.op
    if op == "sext":
        return sgn(vals[0], width(i.d["fromty"])) & mask
    if op == "zext":
        return vals[0] & ((1 << width(i.d["fromty"])) - 1)
    if op == "trunc":
        return vals[0] & mask
    if op == "add":
        return (vals[0] + vals[1]) & mask
    if op == "sub":
        return (vals[0] - vals[1]) & mask
    if op == "mul":
        return (vals[0] * vals[1]) & mask
    if op == "and":
        return vals[0] & vals[1] & mask
    if op == "or":
        return (vals[0] | vals[1]) & mask
    if op == "xor":
        return (vals[0] ^ vals[1]) & mask
    if op == "shl":
        return (vals[0] << (vals[1] & 63)) & mask
    if op == "lshr":
        return ((vals[0] & mask) >> (vals[1] & 63)) & mask
    if op == "ashr":
        return (sgn(vals[0], w) >> (vals[1] & 63)) & mask
    if op == "select":
        return vals[1] if vals[0] & 1 else vals[2]
    if op == "icmp":
        ow = operand_width(fn, i.ops[0])
        if ow == 64 and isinstance(i.ops[1], dict) and "w" in i.ops[1]:
            ow = i.ops[1]["w"]
        a, b = vals[0] & ((1 << ow) - 1), vals[1] & ((1 << ow) - 1)
        sa, sb = sgn(a, ow), sgn(b, ow)
        p = i.d["pred"]
        return int({"eq": a == b, "ne": a != b, "ult": a < b, "ule": a <= b, "ugt": a > b, "uge": a >= b,
                    "slt": sa < sb, "sle": sa <= sb, "sgt": sa > sb, "sge": sa >= sb}[p])
    return None
