"""Effect analyses over the dumped IR: record layouts, written fields,
must-wipe summaries (C13), writer search (C06/C16)."""
import re

from . import ir, ptr


# ---------------------------------------------------------------------------
# IR struct layouts

class Layouts:
    def __init__(self, module):
        self.m = module
        self._leaves = {}

    @staticmethod
    def struct_of(ty):
        """'%struct.x' / '%"class.a::b"' (no pointer) -> struct name or None"""
        t = ty.strip()
        if t.endswith("*"):
            return None
        if t.startswith("%"):
            return t[1:].strip('"')
        return None

    @staticmethod
    def pointee_struct(ty):
        t = ty.strip()
        if not t.endswith("*") or t.endswith("**"):
            return None
        return Layouts.struct_of(t[:-1])

    def size_of_type(self, ty):
        s = self.struct_of(ty)
        if s and s in self.m.structs:
            return self.m.structs[s]["size"]
        m = re.match(r"^\[(\d+) x (.*)\]$", ty.strip())
        if m:
            e = self.size_of_type(m.group(2))
            return None if e is None else int(m.group(1)) * e
        m = re.match(r"^i(\d+)$", ty.strip())
        if m:
            return (int(m.group(1)) + 7) // 8
        if ty.strip().endswith("*"):
            return 8
        if ty.strip() in ("double",):
            return 8
        if ty.strip() in ("float",):
            return 4
        return None

    def leaves(self, sname):
        """flattened leaf fields: list of (offset, size, (struct, field index), type)"""
        if sname in self._leaves:
            return self._leaves[sname]
        out = []
        st = self.m.structs.get(sname)
        if st is None:
            self._leaves[sname] = out
            return out
        for idx, (off, size, ty) in enumerate(st["fields"]):
            self._expand(out, off, size, ty, (sname, idx))
        self._leaves[sname] = out
        return out

    def _expand(self, out, off, size, ty, key):
        s = self.struct_of(ty)
        if s and s in self.m.structs:
            for (o2, s2, k2, t2) in self.leaves(s):
                out.append((off + o2, s2, k2, t2))
            return
        m = re.match(r"^\[(\d+) x (.*)\]$", ty.strip())
        if m:
            n, et = int(m.group(1)), m.group(2)
            es = self.struct_of(et)
            if es and es in self.m.structs and n > 0:
                esz = self.m.structs[es]["size"]
                for k in range(n):
                    for (o2, s2, k2, t2) in self.leaves(es):
                        out.append((off + k * esz + o2, s2, k2, t2))
                return
        out.append((off, size, key, ty))

    def member_name(self, sname, offset):
        """source-level name of the member of struct `sname` that contains
        byte `offset` (dotted path), from debug info."""
        return _di_member(self.m, sname, offset)


def _di_lookup(module, sname):
    n = sname
    for p in ("struct.", "union.", "class."):
        if n.startswith(p):
            n = n[len(p):]
    if "::" in n:
        n = n.split("::")[-1]
    parts = n.split(".")
    if len(parts) > 1 and parts[-1].isdigit():
        n = ".".join(parts[:-1])
    return module.ditype_by_typedef(n)


def _di_member(module, sname, offset, depth=0):
    t = _di_lookup(module, sname)
    if t is None or depth > 6:
        return "+%d" % offset
    for m in t["members"]:
        if m[1] <= offset < m[1] + max(m[2], 1):
            sub = module.ditype_by_typedef(m[3]) if m[3] else None
            if sub is not None and sub["members"] and sub is not t:
                inner = _di_member(module, m[3], offset - m[1], depth + 1)
                return m[0] + "." + inner if not inner.startswith("+") else m[0]
            return m[0]
    return "+%d" % offset


# ---------------------------------------------------------------------------
# which leaf fields are ever the target of something other than a load or a
# constant store (so they can hold run-time data)

def touched_fields(module):
    touched = set()
    for f in module.defined():
        uses = f.uses()
        for i in f.insts():
            if i.op != "getelementptr":
                continue
            key = None
            for step in i.d["path"]:
                if step[0] == "field":
                    key = (step[1], step[2])
            if key is None:
                # pointer arithmetic on a whole record pointer: the leaf at the
                # constant offset of the pointee record
                continue
            if _has_effect_use(f, i.id, uses, set()):
                touched.add(key)
    return touched


def _has_effect_use(f, vid, uses, seen):
    if vid in seen:
        return False
    seen.add(vid)
    for u in uses.get(vid, ()):
        if u.op == "load":
            continue
        if u.op == "store":
            if u.ops[1] == vid and ir.const_int(u.ops[0]) is not None:
                continue
            if u.ops[1] == vid and isinstance(u.ops[0], dict) and u.ops[0].get("zero"):
                continue
            return True
        if u.op in ("bitcast", "getelementptr", "phi", "select"):
            if _has_effect_use(f, u.id, uses, seen):
                return True
            continue
        if u.op == "call" and (u.callee or "").startswith(("llvm.lifetime", "llvm.dbg")):
            continue
        if u.op == "icmp":
            continue
        return True
    return False


# ---------------------------------------------------------------------------
# must-wipe analysis

WIPE_SINKS = {"ascon_clean": (0, 1), "explicit_bzero": (0, 1), "memset_s": (0, 3),
              "SecureZeroMemory": (0, 1)}


class WipeSummary:
    __slots__ = ("must", "maywrite")

    def __init__(self):
        self.must = {}       # param index -> frozenset of byte offsets wiped on every path
        self.maywrite = {}   # param index -> True if the pointee may be (non-wipe) written


def _null_test(f, cond, uses=None):
    """cond is `icmp eq/ne %param, null` -> (param, pred) else None"""
    i = f.defs.get(cond) if ir.is_local(cond) else None
    if i is None or i.op != "icmp" or i.d["pred"] not in ("eq", "ne"):
        return None
    a, b = i.ops
    if b == "null" and ir.is_local(a):
        return (a, i.d["pred"])
    if a == "null" and ir.is_local(b):
        return (b, i.d["pred"])
    return None


def wipe_summaries(module, count_plain_stores=lambda f: True, sinks=None, limit=4096, mode="wipe", allocas=None,
                   external=None):
    """Bottom-up must-wipe summaries for every defined function.

    A byte of a pointer parameter's pointee is "wiped" on a path if it was
    passed to a wiping sink (ascon_clean & co.), zero-filled by a constant
    store / memset, or wiped by a callee (summary), and not overwritten with
    non-constant data afterwards.  Paths on which the parameter is known to be
    null are exempt."""
    """mode="init": every write (any store, block copy, block fill, callee
    must-write) defines bytes and nothing kills them - used to show that a
    constructor defines a whole member on every path."""
    sinks = dict(WIPE_SINKS if sinks is None else sinks)
    summ = {}
    # summaries of functions that are not defined in the IR (assembly units), computed elsewhere:
    # {name: (must {param index: offsets}, maywrite {param index: bool})}
    for name, (must, mayw) in (external or {}).items():
        fd = module.funcs.get(name)
        if fd is not None and fd.decl:
            ws = WipeSummary()
            ws.must = dict(must)
            # the interpreter saw every store of the function (single path to ret): an argument
            # object without a recorded store is not written
            ws.maywrite = {k: bool(mayw.get(k)) for k in range(len(fd.param_ty))}
            summ[name] = ws
    for f in module.bottom_up():
        summ[f.name] = _wipe_function(module, f, summ, sinks, count_plain_stores(f), limit, mode, allocas)
    return summ


def _wipe_function(module, f, summ, sinks, plain_ok, limit, mode="wipe", allocas=None):
    """allocas: optional predicate(function, alloca instruction) selecting stack
    objects that are tracked like parameters; their must-wiped bytes at return
    are reported under the key "a:<value id>"."""
    init = mode == "init"
    R = ptr.resolver(f)
    pidx = {p: k for k, p in enumerate(f.params) if f.param_ty[k].endswith("*")}
    if allocas is not None:
        for i in f.insts():
            if i.op == "alloca" and allocas(f, i):
                pidx[i.id] = "a:" + i.id
    S = WipeSummary()
    if not pidx:
        return S
    TOP = None
    IN = {f.blocks[0].name: {}}
    if allocas is not None:
        # a stack object holds nothing of interest until something is written to it
        for i in f.insts():
            if i.op == "alloca" and i.id in pidx:
                IN[f.blocks[0].name][pidx[i.id]] = set(range(min(i.d.get("sz") or 0, limit)))
    OUT = {}
    order = f.rpo()
    nullgood = {}   # (block, succ) edges to skip: param known null

    # loops with a constant trip count that store to consecutive cells (for (i = 0; i < N; ++i) p[i] = v): summarised as
    # one block write that takes effect where the loop is left (needs the scalar-evolution facts of irdump --scev)
    loop_writes = {}
    for lp in f.d.get("loops", []):
        if lp.get("btc_const") is None or len(lp.get("exiting", [])) != 1 or lp.get("depth") != 1:
            continue
        blocks = set(lp["blocks"])
        ex = lp["exiting"][0]
        targets = [sx.name for sx in f.bmap[ex].succs if sx.name not in blocks]
        if len(targets) != 1 or any(p.name not in blocks for p in f.bmap[targets[0]].preds):
            continue
        latches = [p.name for p in f.bmap[lp["header"]].preds if p.name in blocks]
        dom = f.dominators()
        for rec in lp.get("scev", []):
            if rec[1] != "store":
                continue
            mm = re.fullmatch(r"\{(?:\((\d+) \+ )?(%[\w.]+)\)?,\+,(\d+)\}(?:<[^>]*>)*", rec[2].strip())
            if not mm or mm.group(2) not in pidx:
                continue
            ident = rec[0].split("@", 1)[1] if "@" in rec[0] else None
            acc = [i for i in f.insts() if i.op == "store" and i.block.name in blocks and i.ops[1] == ident]
            if len(acc) != 1:
                continue
            acc = acc[0]
            stride, c0, sz = int(mm.group(3)), int(mm.group(1) or 0), acc.d.get("sz") or 0
            if sz != stride or not all(acc.block.name in dom[l] for l in latches):
                continue
            execs = lp["btc_const"] + 1 if acc.block.name in dom[ex] else lp["btc_const"]
            if execs <= 0 or stride * execs > limit:
                continue
            cval = ir.const_int(acc.ops[0])
            isz = isinstance(acc.ops[0], dict) and acc.ops[0].get("zero")
            if init or ((cval is not None or isz) and plain_ok):
                loop_writes.setdefault(targets[0], []).append((pidx[mm.group(2)], range(c0, c0 + stride * execs)))

    def transfer(b, state):
        st = {k: set(v) for k, v in state.items()}
        for k, rng in loop_writes.get(b.name, ()):
            st.setdefault(k, set()).update(rng)
        for i in b.insts:
            if i.op == "store":
                pv = R.resolve(i.ops[1])
                root = pv.single()
                c = ir.const_int(i.ops[0])
                isz = isinstance(i.ops[0], dict) and i.ops[0].get("zero")
                if root and root[0] in ("param", "alloca") and root[1] in pidx:
                    k = pidx[root[1]]
                    if pv.offset is not None and not pv.variable:
                        rng = range(pv.offset, pv.offset + i.d["sz"])
                        if init or ((c is not None or isz or i.ops[0] == "null") and plain_ok):
                            st.setdefault(k, set()).update(rng)
                        elif c is None and not isz:
                            st.setdefault(k, set()).difference_update(rng)
                            S.maywrite[k] = True
                    else:
                        if c is None and not isz and not init:
                            st[k] = set()
                            S.maywrite[k] = True
                elif not root and not init:
                    for r in pv.roots:
                        if r[0] in ("param", "alloca") and r[1] in pidx and c is None:
                            st[pidx[r[1]]] = set()
                            S.maywrite[pidx[r[1]]] = True
                continue
            if i.op not in ("call", "invoke"):
                continue
            cal = i.callee or ""
            if cal.startswith(("llvm.dbg", "llvm.lifetime")):
                continue
            if ptr.is_memset(i):
                pv = R.resolve(i.ops[0])
                root = pv.single()
                n = ir.const_int(i.ops[2])
                v = ir.const_int(i.ops[1])
                if root and root[0] in ("param", "alloca") and root[1] in pidx:
                    k = pidx[root[1]]
                    if pv.offset is not None and not pv.variable and n is not None and (v is not None or init) and n <= limit:
                        if plain_ok or init:
                            st.setdefault(k, set()).update(range(pv.offset, pv.offset + n))
                    elif v is None and not init:
                        st[k] = set()
                        S.maywrite[k] = True
                continue
            if ptr.is_memcpy(i):
                pv = R.resolve(i.ops[0])
                n = ir.const_int(i.ops[2])
                for r in pv.roots:
                    if r[0] in ("param", "alloca") and r[1] in pidx:
                        k = pidx[r[1]]
                        S.maywrite[k] = True
                        if init:
                            if pv.offset is not None and not pv.variable and n is not None and len(pv.roots) == 1 and n <= limit:
                                st.setdefault(k, set()).update(range(pv.offset, pv.offset + n))
                        elif pv.offset is not None and not pv.variable and n is not None and len(pv.roots) == 1:
                            st.setdefault(k, set()).difference_update(range(pv.offset, pv.offset + n))
                        else:
                            st[k] = set()
                continue
            if cal in sinks:
                pa, na = sinks[cal]
                if pa < len(i.ops) and na < len(i.ops):
                    pv = R.resolve(i.ops[pa])
                    root = pv.single()
                    n = ir.const_int(i.ops[na])
                    if root and root[0] in ("param", "alloca") and root[1] in pidx and pv.offset is not None \
                            and not pv.variable and n is not None and n <= limit:
                        st.setdefault(pidx[root[1]], set()).update(range(pv.offset, pv.offset + n))
                continue
            cs = summ.get(cal)
            for an, a in enumerate(i.ops):
                argty = i.d.get("argty", [])
                if an >= len(argty) or not argty[an].endswith("*"):
                    continue
                pv = R.resolve(a)
                for r in pv.roots:
                    if r[0] not in ("param", "alloca") or r[1] not in pidx:
                        continue
                    k = pidx[r[1]]
                    if cs is not None:
                        must = cs.must.get(an, frozenset())
                        mayw = cs.maywrite.get(an, False)
                    else:
                        cf = module.funcs.get(cal)
                        ro = cf is not None and an < len(cf.param_attrs) and (
                            "readonly" in cf.param_attrs[an] or "readnone" in cf.param_attrs[an])
                        must, mayw = frozenset(), not ro and cal not in READONLY_EXTERNALS
                    if len(pv.roots) == 1 and pv.offset is not None and not pv.variable:
                        if mayw and not init:
                            S.maywrite[k] = True
                            # bytes the callee does not provably wipe may now hold data
                            csz = _pointee_size(module, argty[an])
                            cur = st.setdefault(k, set())
                            if csz is None:
                                keep = set(x for x in cur if x < pv.offset)
                                cur.intersection_update(keep)
                            else:
                                cur.difference_update(range(pv.offset, pv.offset + csz))
                        st.setdefault(k, set()).update(pv.offset + x for x in must)
                    else:
                        if mayw and not init:
                            S.maywrite[k] = True
                            st[k] = set()
        return st

    changed = True
    rounds = 0
    while changed:
        changed = False
        rounds += 1
        if rounds > 100:
            raise RuntimeError("must-wipe fixpoint did not converge in " + f.name)
        for b in order:
            if b is not f.blocks[0]:
                ins = []
                for p in b.preds:
                    if (p.name, b.name) in nullgood:
                        continue
                    o = OUT.get(p.name, TOP)
                    if o is not TOP:
                        ins.append(o)
                if not ins:
                    if any(OUT.get(p.name, TOP) is TOP and (p.name, b.name) not in nullgood for p in b.preds):
                        continue
                    # only reachable through null-parameter edges: exempt
                    IN[b.name] = None
                    OUT[b.name] = "exempt"
                    continue
                ins = [x for x in ins if x != "exempt"]
                if not ins:
                    OUT[b.name] = "exempt"
                    continue
                keys = set()
                for x in ins:
                    keys |= set(x)
                new = {}
                for k in keys:
                    new[k] = set.intersection(*[set(x.get(k, ())) for x in ins])
                IN[b.name] = new
            st = transfer(b, IN[b.name])
            # null tests on parameters: skip the edge on which the parameter is null
            t = b.term
            if t.op == "br" and t.ops and len(t.succs) == 2:
                nt = _null_test(f, t.ops[0])
                if nt and nt[0] in pidx:
                    null_succ = t.succs[0] if nt[1] == "eq" else t.succs[1]
                    nullgood[(b.name, null_succ)] = True
            if OUT.get(b.name, TOP) != st:
                OUT[b.name] = st
                changed = True
    rets = [b for b in f.blocks if b.term.op == "ret"]
    res = None
    for b in rets:
        o = OUT.get(b.name, TOP)
        if o is TOP or o == "exempt":
            continue
        if res is None:
            res = {k: set(v) for k, v in o.items()}
        else:
            for k in list(res):
                res[k] &= set(o.get(k, ()))
    if res:
        for k, v in res.items():
            S.must[k] = frozenset(v)
    return S


READONLY_EXTERNALS = {"strlen", "memcmp", "fprintf", "abort", "close", "free",
                      "_ZdlPv", "_ZdaPv", "_ZdlPvm", "_ZdaPvm"}


def _pointee_size(module, ty):
    t = ty.strip()
    if not t.endswith("*"):
        return None
    return Layouts(module).size_of_type(t[:-1])
