"""Front end to build/asconfacts (LibTooling AST fact extractor)."""
import concurrent.futures as cf
import glob
import hashlib
import json
import os
import subprocess

from . import repo

ASCONFACTS = os.path.join(repo.VERIF, "build", "asconfacts")


def _run(src, flags, out, cwd):
    cmd = [ASCONFACTS, "--out=" + out, "--root=" + repo.REPO + "/", src, "--"] + flags + ["-Wno-everything"]
    p = subprocess.run(cmd, cwd=cwd, stdout=subprocess.PIPE, stderr=subprocess.PIPE)
    if p.returncode not in (0, 3) or not os.path.exists(out):
        raise repo.AnalysisBroken("asconfacts failed on %s:\n%s" % (
            src, p.stderr.decode(errors="replace")[-1500:]))
    d = json.load(open(out))
    d["_stderr"] = p.stderr.decode(errors="replace")
    d["_rc"] = p.returncode
    return d


_UNIT_CACHE = {}


def unit_facts(build, unit, extra=()):
    key = (build.cfg.name, unit.file, tuple(extra))
    if key in _UNIT_CACHE:
        return _UNIT_CACHE[key]
    outdir = os.path.join(build.dir, "facts")
    os.makedirs(outdir, exist_ok=True)
    out = os.path.join(outdir, hashlib.sha1(repr(key).encode()).hexdigest()[:12] + ".json")
    d = _run(unit.file, unit.flags() + list(extra), out, unit.directory)
    d["unit"] = unit.rel
    _UNIT_CACHE[key] = d
    return d


def group_facts(build, group="lib", langs=("c", "c++"), extra=()):
    units = build.group(group, langs)
    with cf.ThreadPoolExecutor(max_workers=repo.JOBS) as ex:
        return list(ex.map(lambda u: unit_facts(build, u, extra), units))


def header_facts(build, lang="c", extra=(), headers=None):
    """Facts of a generated TU that includes every public header
    (src/ascon/*.h), in C or C++ mode."""
    hdrs = headers or sorted(glob.glob(os.path.join(repo.REPO, "src", "ascon", "*.h")))
    key = (build.cfg.name, "hdr", lang, tuple(extra), tuple(hdrs))
    if key in _UNIT_CACHE:
        return _UNIT_CACHE[key]
    outdir = os.path.join(build.dir, "facts")
    os.makedirs(outdir, exist_ok=True)
    src = os.path.join(outdir, "allheaders." + ("cpp" if lang == "c++" else "c"))
    with open(src, "w") as f:
        for h in hdrs:
            f.write('#include "%s"\n' % h)
    # flags of a representative unit of that language
    us = build.group("lib", (lang,))
    if not us:
        raise repo.AnalysisBroken("no %s unit in the library" % lang)
    out = os.path.join(outdir, "allheaders-%s-%s.json" % (
        lang.replace("+", "p"), hashlib.sha1(repr(key).encode()).hexdigest()[:8]))
    d = _run(src, us[0].flags() + list(extra), out, us[0].directory)
    _UNIT_CACHE[key] = d
    return d


def public_c_api(build):
    """name -> decl fact for every function declared in src/ascon/*.h
    (C linkage view)."""
    d = header_facts(build, "c")
    pub = os.path.join(repo.REPO, "src", "ascon") + os.sep
    out = {}
    for decl in d["decls"]:
        if decl["loc"][0].startswith(pub) and not decl.get("record"):
            out.setdefault(decl["name"], decl)
    if len(out) < 180:
        raise repo.AnalysisBroken("only %d public C functions found in "
                                  "src/ascon/*.h" % len(out))
    return out
