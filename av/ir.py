"""In-memory model of an LLVM module as described by build/irdump (JSON).

Operands are kept in their JSON form:
   "%name"            local value (argument, instruction result, block label)
   "@name"            global variable or function
   {"c": int, "w": n} integer constant
   {"ce": opcode, "ops": [...], "off": n?}   constant expression
   {"k": text}        other constant (aggregate, vector, fp)
   "null" / "undef" / "poison" / "metadata"
"""
import json


def is_local(o):
    return isinstance(o, str) and o.startswith("%")


def is_global(o):
    return isinstance(o, str) and o.startswith("@")


def const_int(o):
    """int value of a constant operand, or None."""
    if isinstance(o, dict) and "c" in o:
        return o["c"]
    return None


def const_uint(o):
    if isinstance(o, dict) and "u" in o and "ce" not in o:
        return int(o["u"])
    return None


class Inst:
    __slots__ = ("id", "op", "ty", "ops", "d", "block", "idx")

    def __init__(self, d, block, idx):
        self.d = d
        self.id = d.get("id")
        self.op = d["op"]
        self.ty = d["ty"]
        self.ops = d.get("ops", [])
        self.block = block
        self.idx = idx

    @property
    def callee(self):
        return self.d.get("callee")

    @property
    def succs(self):
        return self.d.get("succs", [])

    @property
    def fn(self):
        return self.block.fn

    def loc(self):
        l = self.d.get("loc")
        if not l:
            return None
        return l[0]

    def where(self):
        """file:line of the instruction (outermost non-inlined frame last)."""
        m = self.block.fn.module
        l = self.d.get("loc")
        if not l:
            return "%s:%s" % (m.file_of(self.block.fn.d.get("file", -1)),
                              self.block.fn.d.get("line", 0))
        f = l[0]
        return "%s:%d" % (m.file_of(f[0]), f[1])

    def line(self):
        l = self.d.get("loc")
        return l[0][1] if l else 0

    def __repr__(self):
        return "<%s %s %s>" % (self.id or "", self.op, self.where())


class Block:
    __slots__ = ("name", "insts", "fn", "succs", "preds", "index")

    def __init__(self, d, fn, index):
        self.name = d["name"]
        self.fn = fn
        self.index = index
        self.insts = [Inst(i, self, k) for k, i in enumerate(d["insts"])]
        self.succs = []
        self.preds = []

    @property
    def term(self):
        return self.insts[-1]

    def __repr__(self):
        return "<block %s>" % self.name


class Func:
    def __init__(self, d, module):
        self.d = d
        self.module = module
        self.name = d["name"]
        self.decl = d["decl"]
        self.internal = d["internal"]
        self.params = [p["id"] for p in d["params"]]
        self.param_ty = [p["ty"] for p in d["params"]]
        self.param_attrs = [p["attrs"] for p in d["params"]]
        self.blocks = []
        self.bmap = {}
        self.defs = {}
        self._uses = None
        self._dom = None
        self._pdom = None
        if not self.decl:
            for k, b in enumerate(d["blocks"]):
                blk = Block(b, self, k)
                self.blocks.append(blk)
                self.bmap[blk.name] = blk
            for b in self.blocks:
                for i in b.insts:
                    if i.id:
                        self.defs[i.id] = i
                for s in b.term.succs:
                    sb = self.bmap[s]
                    if sb not in b.succs:
                        b.succs.append(sb)
                    if b not in sb.preds:
                        sb.preds.append(b)
        # source names of parameters (from debug info), by argument number
        self.param_names = list(self.params)
        self.var_names = {}
        for v, name, kind, argno in d.get("dbgvars", []):
            self.var_names.setdefault(v, name)
            if argno and 1 <= argno <= len(self.params) and v == self.params[argno - 1]:
                self.param_names[argno - 1] = name
        # with -fno-discard-value-names the ids already carry the names
        for k, p in enumerate(self.params):
            if self.param_names[k] == p:
                self.param_names[k] = p[1:]

    @property
    def src(self):
        return "%s:%s" % (self.module.file_of(self.d.get("file", -1)),
                          self.d.get("line", 0))

    @property
    def srcfile(self):
        return self.module.file_of(self.d.get("file", -1))

    def insts(self):
        for b in self.blocks:
            for i in b.insts:
                yield i

    def uses(self):
        if self._uses is None:
            u = {}
            for i in self.insts():
                ops = list(i.ops)
                if i.op == "phi":
                    ops = [v for v, _ in i.d["inc"]]
                for o in ops:
                    for l in locals_in(o):
                        u.setdefault(l, []).append(i)
            self._uses = u
        return self._uses

    def calls(self, callee=None):
        for i in self.insts():
            if i.op in ("call", "invoke") and not i.d.get("intrinsic"):
                if callee is None or i.callee == callee:
                    yield i

    def param_index(self, name):
        for k, n in enumerate(self.param_names):
            if n == name:
                return k
        return None

    # ---- CFG analyses ------------------------------------------------
    def rpo(self):
        seen, order = set(), []
        stack = [(self.blocks[0], iter(self.blocks[0].succs))]
        seen.add(self.blocks[0].name)
        while stack:
            b, it = stack[-1]
            adv = False
            for s in it:
                if s.name not in seen:
                    seen.add(s.name)
                    stack.append((s, iter(s.succs)))
                    adv = True
                    break
            if not adv:
                order.append(b)
                stack.pop()
        order.reverse()
        return order

    def dominators(self):
        """block name -> set of block names that dominate it."""
        if self._dom is None:
            self._dom = _dom(self.blocks[0], self.rpo(), lambda b: b.preds)
        return self._dom

    def exits(self):
        return [b for b in self.blocks if not b.succs]

    def postdominators(self):
        """block name -> set of block names that post-dominate it (with
        respect to all exits: ret and unreachable)."""
        if self._pdom is None:
            # reverse CFG with a virtual exit
            exits = self.exits()
            order, seen = [], set()

            def dfs(b):
                stack = [(b, iter(b.preds))]
                seen.add(b.name)
                while stack:
                    x, it = stack[-1]
                    adv = False
                    for s in it:
                        if s.name not in seen:
                            seen.add(s.name)
                            stack.append((s, iter(s.preds)))
                            adv = True
                            break
                    if not adv:
                        order.append(x)
                        stack.pop()
            for e in exits:
                if e.name not in seen:
                    dfs(e)
            order.reverse()
            allb = set(b.name for b in order)
            pd = {b.name: set(allb) for b in order}
            for e in exits:
                pd[e.name] = {e.name}
            changed = True
            ex = set(e.name for e in exits)
            while changed:
                changed = False
                for b in order:
                    if b.name in ex:
                        continue
                    ss = [s for s in b.succs if s.name in pd]
                    if not ss:
                        continue
                    new = set.intersection(*[pd[s.name] for s in ss]) | {b.name}
                    if new != pd[b.name]:
                        pd[b.name] = new
                        changed = True
            self._pdom = pd
        return self._pdom

    def dominates(self, a, b):
        """instruction a dominates instruction b"""
        if a.block is b.block:
            return a.idx <= b.idx
        return a.block.name in self.dominators().get(b.block.name, ())

    def reachable_from(self, block, avoid=()):
        """names of blocks reachable from `block` (inclusive) not passing
        through blocks in avoid."""
        seen = set()
        stack = [block]
        while stack:
            b = stack.pop()
            if b.name in seen or b.name in avoid:
                continue
            seen.add(b.name)
            stack.extend(b.succs)
        return seen

    def back_edges(self):
        dom = self.dominators()
        out = []
        for b in self.blocks:
            for s in b.succs:
                if s.name in dom.get(b.name, ()):
                    out.append((b, s))
        return out

    def __repr__(self):
        return "<func %s>" % self.name


def _dom(entry, order, preds):
    allb = set(b.name for b in order)
    dom = {b.name: set(allb) for b in order}
    dom[entry.name] = {entry.name}
    changed = True
    while changed:
        changed = False
        for b in order:
            if b is entry:
                continue
            ps = [p for p in preds(b) if p.name in dom]
            if not ps:
                continue
            new = set.intersection(*[dom[p.name] for p in ps]) | {b.name}
            if new != dom[b.name]:
                dom[b.name] = new
                changed = True
    return dom


def locals_in(o):
    """local value names mentioned by an operand (through constant exprs)."""
    if isinstance(o, str):
        if o.startswith("%"):
            yield o
    elif isinstance(o, dict) and "ce" in o:
        for x in o["ops"]:
            yield from locals_in(x)


def globals_in(o):
    if isinstance(o, str):
        if o.startswith("@"):
            yield o[1:]
    elif isinstance(o, dict) and "ce" in o:
        for x in o["ops"]:
            yield from globals_in(x)


class Module:
    def __init__(self, d):
        self.d = d
        self.files = d["files"]
        self.funcs = {}
        for f in d["functions"]:
            self.funcs[f["name"]] = Func(f, self)
        self.globals = {g["name"]: g for g in d["globals"]}
        self.structs = {s["name"]: s for s in d["structs"]}
        self.ditypes = d["ditypes"]
        self.typedefs = d["typedefs"]
        self._cg = None

    @classmethod
    def load(cls, path):
        with open(path) as f:
            return cls(json.load(f))

    def file_of(self, idx):
        if idx is None or idx < 0 or idx >= len(self.files):
            return "?"
        return self.files[idx]

    def defined(self):
        return [f for f in self.funcs.values() if not f.decl]

    def callgraph(self):
        """name -> set of directly called function names (defined or not)."""
        if self._cg is None:
            cg = {}
            for f in self.defined():
                s = set()
                for i in f.calls():
                    if i.callee:
                        s.add(i.callee)
                cg[f.name] = s
            self._cg = cg
        return self._cg

    def reachable(self, roots):
        cg = self.callgraph()
        seen = set()
        stack = list(roots)
        while stack:
            n = stack.pop()
            if n in seen:
                continue
            seen.add(n)
            stack.extend(cg.get(n, ()))
        return seen

    def bottom_up(self):
        """Defined functions in callee-before-caller order; raises if the
        call graph has a cycle (the library has none)."""
        cg = self.callgraph()
        order, state = [], {}

        def visit(n, path):
            st = state.get(n)
            if st == 2:
                return
            if st == 1:
                raise RecursionError("call-graph cycle through " + n)
            state[n] = 1
            for c in sorted(cg.get(n, ())):
                if c in cg:
                    visit(c, path + [n])
            state[n] = 2
            order.append(n)
        import sys
        sys.setrecursionlimit(10000)
        for n in sorted(cg):
            visit(n, [])
        return [self.funcs[n] for n in order]

    def struct_members(self, size=None):
        """debug-info composite types: name -> members"""
        out = {}
        for t in self.ditypes:
            out.setdefault(t["name"], t)
        return out

    def ditype_by_typedef(self, name):
        """members [(name, off, size, typename)] of the struct behind a typedef
        (or of a struct with that tag name)."""
        for td in self.typedefs:
            if td[0] == name:
                for t in self.ditypes:
                    if t["name"] == td[1] and t["file"] == td[2] and t["line"] == td[3]:
                        return t
        for t in self.ditypes:
            if t["name"] == name:
                return t
        if name.startswith("anon@"):
            for t in self.ditypes:
                if not t["name"] and "anon@%d:%d" % (t["file"], t["line"]) == name:
                    return t
        return None
