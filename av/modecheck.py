"""Shape-by-shape comparisons of library mode functions with the specification
oracle (used by rules_c02/c03/c04/c05/c06/c07).  Every `case_*` function runs
one shape and returns None if the expressions are identical, else a
(tag, message) pair."""
from . import affine, modes, repo, report, sponge
from .affine import Ptr, Unsupported, to_int
from .sponge import cbytes, sym_bytes

SB = sym_bytes


def split(n, parts):
    """deterministic chunkings of n bytes"""
    out = [[n]]
    if n >= 2:
        out.append([1, n - 1])
        out.append([n // 2, 0, n - n // 2])
    if n >= 11:
        out.append([3, 8, n - 11])
    return out[:parts]


def _absorb_chunks(R, fn, st, buf, n, chunks):
    pos = 0
    for c in chunks:
        R.call(fn, st, Ptr(buf.obj, pos), c)
        pos += c


def _squeeze_chunks(R, fn, st, out, chunks):
    pos = 0
    for c in chunks:
        R.call(fn, st, Ptr(out.obj, pos), c)
        pos += c


# ---------------------------------------------------------------------------
# C03
def case_hash(m, layout, variant_a, mlen):
    a = "a" if variant_a else ""
    R = modes.Run(m, layout)
    M = R.buf("M", mlen)
    out = R.out(32)
    R.call("ascon_hash" + a, out, M, mlen)
    d = modes.first_diff(R.read(out, 32), R.spec.hash(variant_a, SB("M", mlen)))
    if d:
        return ("oneshot", "digest differs at %s" % d)
    for chunks in split(mlen, 4):
        R = modes.Run(m, layout)
        M = R.buf("M", mlen)
        st = R.obj(R.struct_size("ascon_hash%s_state_t" % a))
        out = R.out(32)
        R.call("ascon_hash%s_init" % a, st)
        _absorb_chunks(R, "ascon_hash%s_update" % a, st, M, mlen, chunks)
        R.call("ascon_hash%s_finalize" % a, st, out)
        d = modes.first_diff(R.read(out, 32), R.spec.hash(variant_a, SB("M", mlen)))
        if d:
            return ("incremental", "with the message split as %s the digest differs at %s" % (chunks, d))
    return None


def case_xof(m, layout, variant_a, mlen, outlen):
    a = "a" if variant_a else ""
    R = modes.Run(m, layout)
    M = R.buf("M", mlen)
    out = R.out(32)
    R.call("ascon_xof" + a, out, M, mlen)
    d = modes.first_diff(R.read(out, 32), R.spec.xof(variant_a, SB("M", mlen), 32))
    if d:
        return ("oneshot", "output differs at %s" % d)
    for ch_in in split(mlen, 3):
        for ch_out in split(outlen, 3):
            R = modes.Run(m, layout)
            M = R.buf("M", mlen)
            st = R.obj(R.struct_size("ascon_xof%s_state_t" % a))
            out = R.out(outlen)
            R.call("ascon_xof%s_init" % a, st)
            _absorb_chunks(R, "ascon_xof%s_absorb" % a, st, M, mlen, ch_in)
            _squeeze_chunks(R, "ascon_xof%s_squeeze" % a, st, out, ch_out)
            d = modes.first_diff(R.read(out, outlen), R.spec.xof(variant_a, SB("M", mlen), outlen))
            if d:
                return ("incremental", "absorbing as %s and squeezing as %s: output differs at %s" % (ch_in, ch_out, d))
    return None


def case_xof_fixed(m, layout, variant_a, fixed, mlen, outlen):
    a = "a" if variant_a else ""
    R = modes.Run(m, layout)
    M = R.buf("M", mlen)
    st = R.obj(R.struct_size("ascon_xof%s_state_t" % a))
    out = R.out(outlen)
    R.call("ascon_xof%s_init_fixed" % a, st, fixed)
    R.call("ascon_xof%s_absorb" % a, st, M, mlen)
    R.call("ascon_xof%s_squeeze" % a, st, out, outlen)
    eff = 0 if fixed >= (1 << 29) else fixed
    d = modes.first_diff(R.read(out, outlen), R.spec.xof(variant_a, SB("M", mlen), outlen, fixed_len=eff))
    if d:
        return ("fixed", "declared output length %d: output differs at %s" % (fixed, d))
    return None


def case_cxof(m, layout, variant_a, name, clen, mlen, outlen, fixed):
    a = "a" if variant_a else ""
    R = modes.Run(m, layout)
    M = R.buf("M", mlen)
    C = R.buf("C", clen)
    nm = R.buf("name", len(name) + 1, symbolic=False, data=name + b"\0") if name is not None else None
    st = R.obj(R.struct_size("ascon_xof%s_state_t" % a))
    out = R.out(outlen)
    R.call("ascon_xof%s_init_custom" % a, st, nm, C if clen else None, clen, fixed)
    R.call("ascon_xof%s_absorb" % a, st, M, mlen)
    R.call("ascon_xof%s_squeeze" % a, st, out, outlen)
    want = R.spec.cxof(variant_a, name or b"", SB("C", clen), SB("M", mlen), outlen, fixed)
    d = modes.first_diff(R.read(out, outlen), want)
    if d:
        return ("custom", "function name %r (%d bytes), customisation of %d byte(s), declared length %d: output differs at %s" % (
            (name or b"")[:8], len(name or b""), clen, fixed, d))
    return None



def case_xof_copy(m, layout, variant_a, mlen, s1, s2, m2len):
    """a copy taken at any point continues exactly like its original: init,
    absorb M, squeeze s1 byte(s) (s1 = 0: still absorbing), copy; then absorb
    m2len more byte(s) (only while absorbing) and squeeze s2 from the copy and
    from the original"""
    a = "a" if variant_a else ""
    R = modes.Run(m, layout)
    M = R.buf("M", mlen)
    M2 = R.buf("N", m2len)
    size = R.struct_size("ascon_xof%s_state_t" % a)
    st, dst = R.obj(size), R.obj(size)
    o1, o2, o3 = R.out(s1), R.out(s2), R.out(s2)
    R.call("ascon_xof%s_init" % a, st)
    R.call("ascon_xof%s_absorb" % a, st, M, mlen)
    if s1:
        R.call("ascon_xof%s_squeeze" % a, st, o1, s1)
    R.call("ascon_xof%s_copy" % a, dst, st)
    if m2len and not s1:
        R.call("ascon_xof%s_absorb" % a, dst, M2, m2len)
        R.call("ascon_xof%s_absorb" % a, st, M2, m2len)
    R.call("ascon_xof%s_squeeze" % a, dst, o2, s2)
    R.call("ascon_xof%s_squeeze" % a, st, o3, s2)
    msg = SB("M", mlen) + (SB("N", m2len) if m2len and not s1 else ())
    want = R.spec.xof(variant_a, msg, s1 + s2)
    d = modes.first_diff(R.read(o3, s2), want[8 * s1:])
    if d:
        return ("original", "the original continues wrongly after being copied (at %s)" % d)
    d = modes.first_diff(R.read(o2, s2), want[8 * s1:])
    if d:
        return ("copy", "a copy taken after absorbing %d and squeezing %d byte(s) does not continue like its original: its next "
                "%d byte(s) differ at %s" % (mlen, s1, s2, d))
    return None


def case_xof_reinit(m, layout, variant_a, first, pre, sq, mlen, outlen):
    """re-initialising a used state is indistinguishable from a fresh one: the
    state is first set up as `first` (plain / fixed / custom), fed `pre` byte(s),
    optionally squeezed, then *_reinit, absorb M, squeeze"""
    a = "a" if variant_a else ""
    R = modes.Run(m, layout)
    M = R.buf("M", mlen)
    X = R.buf("X", pre)
    st = R.obj(R.struct_size("ascon_xof%s_state_t" % a))
    out, junk = R.out(outlen), R.out(max(sq, 1))
    if first == "fixed":
        R.call("ascon_xof%s_init_fixed" % a, st, 64)
    elif first == "custom":
        nm = R.buf("name", 4, symbolic=False, data=b"KDF\0")
        R.call("ascon_xof%s_init_custom" % a, st, nm, None, 0, 0)
    else:
        R.call("ascon_xof%s_init" % a, st)
    if pre:
        R.call("ascon_xof%s_absorb" % a, st, X, pre)
    if sq:
        R.call("ascon_xof%s_squeeze" % a, st, junk, sq)
    R.call("ascon_xof%s_reinit" % a, st)
    R.call("ascon_xof%s_absorb" % a, st, M, mlen)
    R.call("ascon_xof%s_squeeze" % a, st, out, outlen)
    d = modes.first_diff(R.read(out, outlen), R.spec.xof(variant_a, SB("M", mlen), outlen))
    if d:
        return ("reinit", "a state set up as %s, fed %d byte(s)%s and then re-initialised does not behave like a fresh one: "
                "output differs at %s" % (first, pre, " and squeezed" if sq else "", d))
    return None

# ---------------------------------------------------------------------------
# C04
def case_prf(m, layout, mlen, outlen):
    R = modes.Run(m, layout)
    K, M = R.buf("K", 16), R.buf("M", mlen)
    out = R.out(outlen)
    R.call("ascon_prf", out, outlen, M, mlen, K)
    d = modes.first_diff(R.read(out, outlen), R.spec.prf(SB("K", 16), SB("M", mlen), outlen))
    if d:
        return ("prf", "output differs at %s" % d)
    R = modes.Run(m, layout)
    K, M = R.buf("K", 16), R.buf("M", mlen)
    out = R.out(outlen)
    R.call("ascon_prf_fixed", out, outlen, M, mlen, K)
    d = modes.first_diff(R.read(out, outlen), R.spec.prf(SB("K", 16), SB("M", mlen), outlen, fixed_len=outlen))
    if d:
        return ("prf_fixed", "output differs at %s" % d)
    for ch_in in split(mlen, 3):
        for ch_out in split(outlen, 2):
            R = modes.Run(m, layout)
            K, M = R.buf("K", 16), R.buf("M", mlen)
            st = R.obj(R.struct_size("ascon_prf_state_t"))
            out = R.out(outlen)
            R.call("ascon_prf_init", st, K)
            _absorb_chunks(R, "ascon_prf_absorb", st, M, mlen, ch_in)
            _squeeze_chunks(R, "ascon_prf_squeeze", st, out, ch_out)
            d = modes.first_diff(R.read(out, outlen), R.spec.prf(SB("K", 16), SB("M", mlen), outlen))
            if d:
                return ("prf-incremental", "absorbing as %s, squeezing as %s: output differs at %s" % (ch_in, ch_out, d))
    return None


def case_prf_short(m, layout, mlen, outlen):
    R = modes.Run(m, layout)
    K, M = R.buf("K", 16), R.buf("M", mlen)
    out = R.buf("OUT", max(outlen, 1))          # symbolic: must stay untouched on error
    r = R.call("ascon_prf_short", out, outlen, M, mlen, K)
    rv = to_int(r)
    if mlen > 16 or outlen > 16:
        if rv is None or affine.to_int(r) != 0xffffffff:
            return ("range", "input of %d / output of %d bytes is not refused with -1 (returned %s)" % (mlen, outlen, rv))
        if R.read(out, outlen) != SB("OUT", outlen):
            return ("range", "output buffer written although the request was refused")
        return None
    if rv != 0:
        return ("status", "returned %s for a valid request" % rv)
    d = modes.first_diff(R.read(out, outlen), R.spec.prf_short(SB("K", 16), SB("M", mlen), outlen))
    if d:
        return ("prf_short", "output differs at %s" % d)
    return None


def case_mac(m, layout, mlen):
    R = modes.Run(m, layout)
    K, M = R.buf("K", 16), R.buf("M", mlen)
    tag = R.out(16)
    R.call("ascon_mac", tag, M, mlen, K)
    want = R.spec.mac(SB("K", 16), SB("M", mlen))
    d = modes.first_diff(R.read(tag, 16), want)
    if d:
        return ("mac", "tag differs at %s" % d)
    # verification: the correct tag is accepted, an independent tag is not
    R = modes.Run(m, layout)
    K, M = R.buf("K", 16), R.buf("M", mlen)
    good = R.out(16)
    R.mc.store(good, R.spec.mac(SB("K", 16), SB("M", mlen)))
    r = to_int(R.call("ascon_mac_verify", good, M, mlen, K))
    if r != 0:
        return ("verify", "the correct tag is rejected (returned %s)" % r)
    R = modes.Run(m, layout)
    K, M = R.buf("K", 16), R.buf("M", mlen)
    other = R.buf("T", 16)
    r = to_int(R.call("ascon_mac_verify", other, M, mlen, K))
    if r is None:
        # the verdict is not computed by the proven comparator (C02.D4) and is no constant for an independent
        # tag: look for a concrete forgery among structured differences; without one the case stays unproved
        w = _forgery(m, layout, mlen)
        if w:
            return ("verify", w)
        raise Unsupported("the verdict of ascon_mac_verify for an independent tag is not decided by ascon_aead_check_tag; "
                          "no forgery among single-bit and two-bit tag differences")
    if r != 0xffffffff:
        return ("verify", "an unrelated tag is not rejected with -1 (returned %s)" % r)
    return None


def _forgery(m, layout, mlen):
    """tags that differ from the genuine one in one bit, or in the same bit of
    two different bytes, must be rejected"""
    deltas = []
    for k in range(128):
        deltas.append({k})
    for b in (0, 7):
        for i in range(16):
            for j in range(i + 1, 16):
                deltas.append({8 * i + b, 8 * j + b})
    for dl in deltas:
        R = modes.Run(m, layout)
        K, M = R.buf("K", 16), R.buf("M", mlen)
        t = R.out(16)
        mask = bytearray(16)
        for k in dl:
            mask[k // 8] |= 1 << (k % 8)
        R.mc.store(t, tuple(sponge.xor(R.spec.mac(SB("K", 16), SB("M", mlen)), cbytes(bytes(mask)))))
        r = to_int(R.call("ascon_mac_verify", t, M, mlen, K))
        if r == 0:
            return ("a tag that differs from the genuine one in %s is accepted (verdict 0) for every key and message of "
                    "%d byte(s)" % (" and ".join("bit %d of byte %d" % (k % 8, k // 8) for k in sorted(dl)), mlen))
    return None


def case_hmac(m, layout, variant_a, klen, mlen):
    a = "a" if variant_a else ""
    R = modes.Run(m, layout)
    K, M = R.buf("K", klen), R.buf("M", mlen)
    out = R.out(32)
    R.call("ascon_hmac" + a, out, K, klen, M, mlen)
    want = R.spec.hmac(variant_a, SB("K", klen), SB("M", mlen))
    d = modes.first_diff(R.read(out, 32), want)
    if d:
        return ("hmac", "key of %d byte(s): output differs at %s" % (klen, d))
    for chunks in split(mlen, 3):
        R = modes.Run(m, layout)
        K, M = R.buf("K", klen), R.buf("M", mlen)
        st = R.obj(R.struct_size("ascon_hmac%s_state_t" % a))
        out = R.out(32)
        R.call("ascon_hmac%s_init" % a, st, K, klen)
        _absorb_chunks(R, "ascon_hmac%s_update" % a, st, M, mlen, chunks)
        R.call("ascon_hmac%s_finalize" % a, st, K, klen, out)
        d = modes.first_diff(R.read(out, 32), R.spec.hmac(variant_a, SB("K", klen), SB("M", mlen)))
        if d:
            return ("hmac-incremental", "message split as %s: output differs at %s" % (chunks, d))
    return None


def case_kmac(m, layout, variant_a, klen, mlen, clen, outlen):
    a = "a" if variant_a else ""
    R = modes.Run(m, layout)
    K, M, C = R.buf("K", klen), R.buf("M", mlen), R.buf("C", clen)
    out = R.out(outlen)
    R.call("ascon_kmac" + a, K, klen, M, mlen, C if clen else None, clen, out, outlen)
    want = R.spec.kmac(variant_a, SB("K", klen), SB("M", mlen), SB("C", clen), outlen)
    d = modes.first_diff(R.read(out, outlen), want)
    if d:
        return ("kmac", "key %d, customisation %d, output %d byte(s): output differs at %s" % (klen, clen, outlen, d))
    return None


# ---------------------------------------------------------------------------
# C05
def case_hkdf(m, layout, variant_a, klen, slen, ilen, outlen):
    a = "a" if variant_a else ""
    R = modes.Run(m, layout)
    K, S, I = R.buf("K", klen), R.buf("S", slen), R.buf("I", ilen)
    out = R.out(outlen)
    r = to_int(R.call("ascon_hkdf" + a, out, outlen, K, klen, S if slen else None, slen, I if ilen else None, ilen))
    if r != 0:
        return ("status", "returned %s" % r)
    want = R.spec.hkdf(variant_a, SB("K", klen), SB("S", slen), SB("I", ilen), outlen)
    d = modes.first_diff(R.read(out, outlen), want)
    if d:
        return ("hkdf", "output differs at %s" % d)
    for chunks in split(outlen, 3):
        R = modes.Run(m, layout)
        K, S, I = R.buf("K", klen), R.buf("S", slen), R.buf("I", ilen)
        st = R.obj(R.struct_size("ascon_hkdf%s_state_t" % a))
        out = R.out(outlen)
        R.call("ascon_hkdf%s_extract" % a, st, K, klen, S if slen else None, slen)
        pos = 0
        for c in chunks:
            r = to_int(R.call("ascon_hkdf%s_expand" % a, st, I if ilen else None, ilen, Ptr(out.obj, pos), c))
            pos += c
        d = modes.first_diff(R.read(out, outlen), R.spec.hkdf(variant_a, SB("K", klen), SB("S", slen), SB("I", ilen), outlen))
        if d:
            return ("hkdf-incremental", "expanding as %s: output differs at %s" % (chunks, d))
    return None


def case_hkdf_limit(m, layout, variant_a, counter, posn, ilen, chunks):
    """expansion from an arbitrary mid-stream state (pseudorandom key P, last
    block O, block counter and position given): blocks up to number 255 follow
    RFC 5869, the first request that cannot be served completely returns -1 and
    leaves zeroes where no output exists, and later requests keep failing"""
    a = "a" if variant_a else ""
    tn = "ascon_hkdf%s_state_t" % a
    t = m.ditype_by_typedef(tn)
    if not t:
        raise Unsupported("no debug type for " + tn)
    off = {mem[0]: (mem[1], mem[2]) for mem in t["members"]}
    if set(off) != {"prk", "out", "counter", "posn"} or off["counter"][1] != 1:
        raise Unsupported("unexpected members of %s: %s" % (tn, sorted(off)))
    R = modes.Run(m, layout)
    st = R.obj(t["size"])
    I = R.buf("I", ilen)
    P, O = SB("P", 32), SB("O", 32)
    R.mc.store(Ptr(st.obj, off["prk"][0]), P)
    R.mc.store(Ptr(st.obj, off["out"][0]), O)
    R.mc.store(Ptr(st.obj, off["counter"][0]), cbytes(bytes([counter])))
    R.mc.store(Ptr(st.obj, off["posn"][0]), cbytes(bytes([posn])))
    # specification stream from this state: rest of O, then T(counter), T(counter+1), .. T(255)
    stream = list(O[posn * 8:])
    T, n = O, counter
    while n != 0 and n <= 255 and len(stream) < 8 * (sum(chunks) + 32):
        # RFC 5869: T(0) is the empty string, so the first block does not use the stored block
        T = R.spec.hmac(variant_a, P, (tuple(T) if n != 1 else ()) + SB("I", ilen) + cbytes(bytes([n])))
        stream += list(T)
        n += 1
        if n == 256:
            break
    avail = len(stream) // 8 if (n == 256 or counter == 0) else None      # None: never exhausted in this case
    served = 0
    for k, c in enumerate(chunks):
        out = R.buf("X%d" % k, c)          # symbolic: zero-fill must be an explicit write
        r = to_int(R.call("ascon_hkdf%s_expand" % a, st, I if ilen else None, ilen, out, c))
        want = stream[served * 8:(served + c) * 8]
        short = avail is not None and served + c > avail
        if short:
            want = want + list(cbytes(bytes(c - len(want) // 8)))
        got = R.read(out, c)
        d = modes.first_diff(got, tuple(want))
        what = "request %d of %s from a state with block counter %d, position %d" % (k + 1, chunks, counter, posn)
        if d:
            return ("limit", "%s: output differs at %s (%s)" % (what, d, "bytes beyond block 255 must be zero" if short else "RFC 5869 stream"))
        if short and r != 0xffffffff:
            return ("limit", "%s asks for more than the 255 blocks can supply but returns %s instead of -1" % (what, r))
        if not short and r != 0:
            return ("limit", "%s can be served but returns %s" % (what, r))
        served = min(served + c, avail) if avail is not None else served + c
    return None


def case_hkdf_oneshot_limit(m, layout, variant_a, outlen):
    """one-shot HKDF at the RFC 5869 limit: 255 blocks (8160 bytes) are served
    and equal the specification; one byte more is refused with -1 and the
    output buffer is not written"""
    a = "a" if variant_a else ""
    R = modes.Run(m, layout)
    K, S, I = R.buf("K", 16), R.buf("S", 8), R.buf("I", 3)
    out = R.buf("X", outlen)
    r = to_int(R.call("ascon_hkdf" + a, out, outlen, K, 16, S, 8, I, 3))
    if outlen > 255 * 32:
        if r != 0xffffffff:
            return ("limit", "a request for %d bytes (more than 255 blocks of 32) returns %s instead of -1" % (outlen, r))
        if R.read(out, outlen) != SB("X", outlen):
            return ("limit", "a refused request for %d bytes still writes to the output buffer" % outlen)
        return None
    if r != 0:
        return ("limit", "a request for %d bytes (at most 255 blocks of 32) returns %s instead of 0" % (outlen, r))
    d = modes.first_diff(R.read(out, outlen), R.spec.hkdf(variant_a, SB("K", 16), SB("S", 8), SB("I", 3), outlen))
    if d:
        return ("limit", "output of %d bytes differs from RFC 5869 at %s" % (outlen, d))
    return None


def case_kdf(m, layout, variant_a, klen, clen, outlen):
    a = "a" if variant_a else ""
    R = modes.Run(m, layout)
    K, C = R.buf("K", klen), R.buf("C", clen)
    out = R.out(outlen)
    R.call("ascon_kdf" + a, out, outlen, K, klen, C if clen else None, clen)
    d = modes.first_diff(R.read(out, outlen), R.spec.kdf(variant_a, SB("K", klen), SB("C", clen), outlen))
    if d:
        return ("kdf", "output differs at %s" % d)
    return None


def case_kdf_inc(m, layout, variant_a, klen, clen, declared, chunks):
    """incremental KDF: init with a declared output length (0 = arbitrary), squeeze in chunks"""
    a = "a" if variant_a else ""
    R = modes.Run(m, layout)
    K, C = R.buf("K", klen), R.buf("C", clen)
    n = sum(chunks)
    out = R.out(n)
    st = R.obj(R.struct_size("ascon_kdf%s_state_t" % a))
    R.call("ascon_kdf%s_init" % a, st, K, klen, C if clen else None, clen, declared)
    _squeeze_chunks(R, "ascon_kdf%s_squeeze" % a, st, out, chunks)
    d = modes.first_diff(R.read(out, n), R.spec.cxof(variant_a, b"KDF", SB("C", clen), SB("K", klen), n, declared))
    if d:
        return ("kdf-incremental", "declared output length %d, squeezed as %s: output differs at %s" % (declared, list(chunks), d))
    return None


def case_pbkdf2(m, layout, hmac, plen, slen, count, outlen):
    R = modes.Run(m, layout)
    P, S = R.buf("P", plen), R.buf("S", slen)
    out = R.out(outlen)
    R.call("ascon_pbkdf2_hmac" if hmac else "ascon_pbkdf2", out, outlen, P, plen, S, slen, count)
    want = (R.spec.pbkdf2_hmac if hmac else R.spec.pbkdf2)(SB("P", plen), SB("S", slen), count, outlen)
    d = modes.first_diff(R.read(out, outlen), want)
    if d:
        return ("pbkdf2", "count %d, %d output byte(s): output differs at %s" % (count, outlen, d))
    return None


# ---------------------------------------------------------------------------
# C06 / C02
def case_siv(m, layout, alg, adlen, mlen):
    prefix, klen = {"128": ("ascon128", 16), "128a": ("ascon128a", 16), "80pq": ("ascon80pq", 20)}[alg]
    R = modes.Run(m, layout)
    K, N, A, M = R.buf("K", klen), R.buf("N", 16), R.buf("A", adlen), R.buf("M", mlen)
    c, clen = R.out(mlen + 16), R.out(8)
    R.call(prefix + "_siv_encrypt", c, clen, M, mlen, A, adlen, N, K)
    wc, wt = R.spec.siv_encrypt(alg, SB("K", klen), SB("N", 16), SB("A", adlen), SB("M", mlen))
    d = modes.first_diff(R.read(c, mlen + 16), tuple(wc) + tuple(wt))
    if d:
        return ("encrypt", "ciphertext||tag differs at %s" % d)
    if R.read_int(clen, 8) != mlen + 16:
        return ("clen", "reported length %s" % R.read_int(clen, 8))
    # decrypt inverts
    R = modes.Run(m, layout)
    K, N, A = R.buf("K", klen), R.buf("N", 16), R.buf("A", adlen)
    wc, wt = R.spec.siv_encrypt(alg, SB("K", klen), SB("N", 16), SB("A", adlen), SB("M", mlen))
    cin = R.out(mlen + 16)
    R.mc.store(cin, tuple(wc) + tuple(wt))
    mo, ml = R.out(mlen), R.out(8)
    r = to_int(R.call(prefix + "_siv_decrypt", mo, ml, cin, mlen + 16, A, adlen, N, K))
    if r != 0:
        return ("decrypt", "decryption of a genuine ciphertext is rejected (returned %s)" % r)
    d = modes.first_diff(R.read(mo, mlen), SB("M", mlen))
    if d:
        return ("decrypt", "decrypt(encrypt(m)) differs from m at %s" % d)
    return None


def case_isap(m, layout, alg, adlen, mlen):
    prefix, klen = {"128": ("ascon128_isap", 16), "128a": ("ascon128a_isap", 16), "80pq": ("ascon80pq_isap", 20)}[alg]
    R = modes.Run(m, layout)
    K, N, A, M = R.buf("K", klen), R.buf("N", 16), R.buf("A", adlen), R.buf("M", mlen)
    pk = R.obj(80)
    R.call(prefix + "_aead_init", pk, K)
    before = R.read(pk, 80)
    c, clen = R.out(mlen + 16), R.out(8)
    R.call(prefix + "_aead_encrypt", c, clen, M, mlen, A, adlen, N, pk)
    wc, wt = R.spec.isap_encrypt(alg, SB("K", klen), SB("N", 16), SB("A", adlen), SB("M", mlen))
    d = modes.first_diff(R.read(c, mlen + 16), tuple(wc) + tuple(wt))
    if d:
        return ("encrypt", "ciphertext||tag differs at %s" % d)
    if R.read(pk, 80) != before:
        return ("key-modified", "the pre-computed key object is modified by encryption")
    # save / load round trip and decrypt with the reloaded key
    saved = R.out(80)
    R.call(prefix + "_aead_save_key", pk, saved)
    if R.read(pk, 80) != before:
        return ("key-modified", "the pre-computed key object is modified by saving it: it no longer behaves like the original")
    # the saved form is the canonical (big-endian) bytes of the two pre-computed states, whatever the back end's layout
    from .sponge import ISAP, isap_ivs, ZERO
    iv_a, iv_ka, iv_ke = isap_ivs(alg)
    want = []
    for iv in (iv_ke, iv_ka):
        S = list(SB("K", klen)) + list(cbytes(iv))
        S = S + [ZERO] * (320 - len(S))
        want += list(R.spec.P(S, ISAP[alg]["sk"]))
    d = modes.first_diff(R.read(saved, 80), tuple(want))
    if d:
        return ("saved-form", "the saved key is not the canonical byte form of the pre-computed states (it would not load under "
                "another back end): differs at %s" % d)
    pk2 = R.obj(80)
    R.call(prefix + "_aead_load_key", pk2, saved)
    if R.read(pk2, 80) != before:
        return ("save-load", "a saved and re-loaded key differs from the original")
    mo, ml = R.out(mlen), R.out(8)
    r = to_int(R.call(prefix + "_aead_decrypt", mo, ml, c, mlen + 16, A, adlen, N, pk2))
    if r != 0:
        return ("decrypt", "decryption with the re-loaded key rejects a genuine ciphertext (returned %s)" % r)
    d = modes.first_diff(R.read(mo, mlen), SB("M", mlen))
    if d:
        return ("decrypt", "decrypt(encrypt(m)) differs from m at %s" % d)
    if R.read(pk2, 80) != before:
        return ("key-modified", "the pre-computed key object is modified by decryption")
    return None


def case_aead_decrypt(m, layout, alg, fam, adlen, mlen):
    prefix, klen = {"128": ("ascon128", 16), "128a": ("ascon128a", 16), "80pq": ("ascon80pq", 20)}[alg]
    R = modes.Run(m, layout)
    K, N, A = R.buf("K", klen), R.buf("N", 16), R.buf("A", adlen)
    wc, wt = R.spec.aead_encrypt(alg, SB("K", klen), SB("N", 16), SB("A", adlen), SB("M", mlen))
    cin = R.out(mlen + 16)
    R.mc.store(cin, tuple(wc) + tuple(wt))
    mo, ml = R.out(mlen), R.out(8)
    if fam == "oneshot":
        r = to_int(R.call(prefix + "_aead_decrypt", mo, ml, cin, mlen + 16, A, adlen, N, K))
    elif fam == "masked":
        mk = R.obj(R.struct_size("ascon_masked_key_%s_t" % ("160" if alg == "80pq" else "128")))
        R.call("ascon_masked_key_%s_init" % ("160" if alg == "80pq" else "128"), mk, K)
        r = to_int(R.call(prefix + "_masked_aead_decrypt", mo, ml, cin, mlen + 16, A, adlen, N, mk))
    else:
        st = R.obj(R.struct_size(prefix + "_state_t"))
        R.call(prefix + "_aead_init", st, N, K)
        R.call(prefix + "_aead_start", st, A, adlen)
        pos = 0
        for c in split(mlen, 3)[-1]:
            R.call(prefix + "_aead_decrypt_block", st, Ptr(cin.obj, pos), Ptr(mo.obj, pos), c)
            pos += c
        r = to_int(R.call(prefix + "_aead_decrypt_finalize", st, Ptr(cin.obj, mlen)))
    if r != 0:
        return ("reject", "a genuine ciphertext is rejected (returned %s)" % r)
    d = modes.first_diff(R.read(mo, mlen), SB("M", mlen))
    if d:
        return ("plaintext", "decrypt(encrypt(m)) differs from m at %s" % d)
    if fam != "incremental" and R.read_int(ml, 8) != mlen:
        return ("mlen", "reported plaintext length %s" % R.read_int(ml, 8))
    # forged tag: an unrelated tag must be rejected and the plaintext wiped
    if fam == "oneshot":
        R = modes.Run(m, layout)
        K, N, A = R.buf("K", klen), R.buf("N", 16), R.buf("A", adlen)
        wc, wt = R.spec.aead_encrypt(alg, SB("K", klen), SB("N", 16), SB("A", adlen), SB("M", mlen))
        cin = R.out(mlen + 16)
        R.mc.store(cin, tuple(wc) + SB("F", 16))
        mo, ml = R.out(mlen), R.out(8)
        r = to_int(R.call(prefix + "_aead_decrypt", mo, ml, cin, mlen + 16, A, adlen, N, K))
        if r != 0xffffffff:
            return ("forgery", "an unrelated tag is not rejected with -1 (returned %s)" % r)
        if mlen and not affine.is_const(R.read(mo, mlen)):
            return ("forgery", "the plaintext buffer is not wiped after a failed tag check")
    return None


def case_aead_decrypt_session(m, layout, alg, adlen, mlen):
    """a receiver that keeps one incremental state for a session: init once,
    then start / decrypt_block.. / decrypt_finalize per packet.  Packet i is the
    specification's encryption under nonce + i; each must be accepted and give
    its plaintext, whatever the lengths of the packets before it."""
    prefix, klen = {"128": ("ascon128", 16), "128a": ("ascon128a", 16), "80pq": ("ascon80pq", 20)}[alg]
    for nonce in (bytes(range(16)), bytes(14) + b"\xff\xff"):
        R = modes.Run(m, layout)
        K = R.buf("K", klen)
        N = R.buf("Nc", 16, symbolic=False, data=nonce)
        st = R.obj(R.struct_size(prefix + "_state_t"))
        R.call(prefix + "_aead_init", st, N, K)
        nv = int.from_bytes(nonce, "big")
        packets = [(adlen, mlen), (3, 5), (2, 6), (0, 0), (9, 21)]
        forged = 2          # this packet carries an independent tag: it must be rejected and must not disturb the session
        for k, (al, ml) in enumerate(packets):
            A = R.buf("A%d" % k, al)
            nk = ((nv + k) % (1 << 128)).to_bytes(16, "big")
            wc, wt = R.spec.aead_encrypt(alg, SB("K", klen), cbytes(nk), SB("A%d" % k, al), SB("M%d" % k, ml))
            cin = R.out(ml + 16)
            R.mc.store(cin, tuple(wc) + (SB("F", 16) if k == forged else tuple(wt)))
            mo = R.out(ml)
            R.call(prefix + "_aead_start", st, A, al)
            pos = 0
            for c in ([ml] if ml < 2 else [1, ml - 1]):
                R.call(prefix + "_aead_decrypt_block", st, Ptr(cin.obj, pos), Ptr(mo.obj, pos), c)
                pos += c
            r = to_int(R.call(prefix + "_aead_decrypt_finalize", st, Ptr(cin.obj, ml)))
            what = "packet %d of a session (packet lengths %s, packet %d forged, initial nonce %s)" % (
                k + 1, [p[1] for p in packets], forged + 1, nonce.hex())
            if k == forged:
                if r != 0xffffffff:
                    return ("session", "%s: the forged packet is not rejected with -1 (returned %s)" % (what, r))
                continue
            if r != 0:
                return ("session", "%s: the genuine ciphertext under nonce+%d is rejected (returned %s)" % (what, k, r))
            d = modes.first_diff(R.read(mo, ml), SB("M%d" % k, ml))
            if d:
                return ("session", "%s: plaintext differs at %s" % (what, d))
    return None


def case_forgery_wipe(m, layout, fam, alg, adlen, mlen, inplace, genuine=False):
    """a packet whose tag is independent of the computed one is rejected with
    -1 and the plaintext buffer holds zeros afterwards - for every one-shot
    decrypt family, with separate buffers and with the plaintext decrypted
    over the ciphertext (m == c)"""
    names = {"aead": ("ascon%s_aead", None), "masked": ("ascon%s_masked_aead", None), "siv": ("ascon%s_siv", None),
             "isap": ("ascon%s_isap_aead", None)}
    prefix = names[fam][0] % alg
    klen = 20 if alg == "80pq" else 16
    R = modes.Run(m, layout)
    K, N, A = R.buf("K", klen), R.buf("N", 16), R.buf("A", adlen)
    if fam == "siv":
        wc, wt = R.spec.siv_encrypt(alg, SB("K", klen), SB("N", 16), SB("A", adlen), SB("M", mlen))
    elif fam == "isap":
        wc, wt = R.spec.isap_encrypt(alg, SB("K", klen), SB("N", 16), SB("A", adlen), SB("M", mlen))
    else:
        wc, wt = R.spec.aead_encrypt(alg, SB("K", klen), SB("N", 16), SB("A", adlen), SB("M", mlen))
    cin = R.out(mlen + 16)
    R.mc.store(cin, tuple(wc) + (tuple(wt) if genuine else SB("F", 16)))
    mo = cin if inplace else R.buf("PT", mlen)
    ml = R.out(8)
    key = K
    if fam == "masked":
        key = R.obj(R.struct_size("ascon_masked_key_%s_t" % ("160" if alg == "80pq" else "128")))
        R.call("ascon_masked_key_%s_init" % ("160" if alg == "80pq" else "128"), key, K)
    elif fam == "isap":
        key = R.obj(80)
        R.call(prefix + "_init", key, K)
    r = to_int(R.call(prefix + "_decrypt", mo, ml, cin, mlen + 16, A, adlen, N, key))
    how = "decrypting over the ciphertext (m == c)" if inplace else "separate buffers"
    if genuine:
        # the untampered packet: accepted, and the plaintext comes out - also when it is written over the ciphertext
        # (two-pass modes must authenticate / generate the keystream in an order that survives m == c)
        if r != 0:
            return ("inverse", "%s: the genuine ciphertext is rejected (returned %s)" % (how, r))
        d = modes.first_diff(R.read(mo, mlen), SB("M", mlen))
        if d:
            return ("inverse", "%s: decrypt(encrypt(m)) differs from m at %s" % (how, d))
        return None
    if r != 0xffffffff:
        return ("forgery", "%s: an independent tag is not rejected with -1 (returned %s)" % (how, r))
    got = R.read(mo, mlen)
    if mlen and (not affine.is_const(got) or to_int(got) != 0):
        return ("forgery", "%s: after the tag check failed the %d-byte plaintext buffer does not hold zeros" % (how, mlen))
    return None


def case_aead_session_encrypt(m, layout, alg, adlen, mlen):
    """sender session on one incremental state (see rules_c01.check_shape, family multipacket)"""
    from . import rules_c01
    bad = rules_c01.check_shape(m, layout, 4, alg, "multipacket", adlen, mlen)
    return ("session", bad[1]) if bad else None


def case_aead_inplace(m, layout, alg, adlen, mlen):
    """incremental encrypt / decrypt with identical input and output buffers,
    split into chunks, equals the one-shot specification result"""
    prefix, klen = {"128": ("ascon128", 16), "128a": ("ascon128a", 16), "80pq": ("ascon80pq", 20)}[alg]
    for chunks in split(mlen, 4):
        R = modes.Run(m, layout)
        K, N, A, M = R.buf("K", klen), R.buf("N", 16), R.buf("A", adlen), R.buf("M", mlen)
        st = R.obj(R.struct_size(prefix + "_state_t"))
        tag = R.out(16)
        R.call(prefix + "_aead_init", st, N, K)
        R.call(prefix + "_aead_start", st, A, adlen)
        pos = 0
        for c in chunks:
            R.call(prefix + "_aead_encrypt_block", st, Ptr(M.obj, pos), Ptr(M.obj, pos), c)     # in place
            pos += c
        R.call(prefix + "_aead_encrypt_finalize", st, tag)
        wc, wt = R.spec.aead_encrypt(alg, SB("K", klen), SB("N", 16), SB("A", adlen), SB("M", mlen))
        d = modes.first_diff(R.read(M, mlen) + R.read(tag, 16), tuple(wc) + tuple(wt))
        if d:
            return ("encrypt-in-place", "in-place encryption split as %s: ciphertext||tag differs at %s" % (chunks, d))
        # in-place decryption of the genuine ciphertext
        R = modes.Run(m, layout)
        K, N, A = R.buf("K", klen), R.buf("N", 16), R.buf("A", adlen)
        wc, wt = R.spec.aead_encrypt(alg, SB("K", klen), SB("N", 16), SB("A", adlen), SB("M", mlen))
        buf = R.out(mlen + 16)
        R.mc.store(buf, tuple(wc) + tuple(wt))
        st = R.obj(R.struct_size(prefix + "_state_t"))
        R.call(prefix + "_aead_init", st, N, K)
        R.call(prefix + "_aead_start", st, A, adlen)
        pos = 0
        for c in chunks:
            R.call(prefix + "_aead_decrypt_block", st, Ptr(buf.obj, pos), Ptr(buf.obj, pos), c)
            pos += c
        r = to_int(R.call(prefix + "_aead_decrypt_finalize", st, Ptr(buf.obj, mlen)))
        if r != 0:
            return ("decrypt-in-place", "in-place decryption split as %s rejects a genuine ciphertext" % (chunks,))
        d = modes.first_diff(R.read(buf, mlen), SB("M", mlen))
        if d:
            return ("decrypt-in-place", "in-place decryption split as %s: plaintext differs at %s" % (chunks, d))
    # one-shot decryption in place
    R = modes.Run(m, layout)
    K, N, A = R.buf("K", klen), R.buf("N", 16), R.buf("A", adlen)
    wc, wt = R.spec.aead_encrypt(alg, SB("K", klen), SB("N", 16), SB("A", adlen), SB("M", mlen))
    buf = R.out(mlen + 16)
    R.mc.store(buf, tuple(wc) + tuple(wt))
    ml = R.out(8)
    r = to_int(R.call(prefix + "_aead_decrypt", buf, ml, buf, mlen + 16, A, adlen, N, K))
    if r != 0:
        return ("oneshot-in-place", "one-shot in-place decryption rejects a genuine ciphertext")
    d = modes.first_diff(R.read(buf, mlen), SB("M", mlen))
    if d:
        return ("oneshot-in-place", "one-shot in-place decryption: plaintext differs at %s" % d)
    return None


# ---------------------------------------------------------------------------
# C07.D6: incremental call histories against the library's own one-shot function
def partitions(n, rate):
    """a spread of partitions of n bytes: single call, empty calls, pieces shorter
    than / equal to / longer than the rate, calls that start in the middle of a
    rate block and cross one or several block boundaries"""
    out = [[n], [0, n, 0]]
    if n >= 2:
        out.append([1, n - 1])
        out.append([n - 1, 1])
        out.append([n // 2, 0, n - n // 2])
    if n >= 3:
        out.append([1] * n if n <= 12 else [1, 1, 1, n - 3])
    for first in (3, rate - 1, rate, rate + 1, rate + 4):
        if 0 < first < n:
            rest = n - first
            out.append([first, rest])
            if rest > rate + 2:
                out.append([first, rate + 2, rest - rate - 2])
            if rest > 2 * rate + 1:
                out.append([first, 0, 2 * rate + 1, rest - 2 * rate - 1])
    for step in (5, 7, rate + 3):
        if step < n:
            out.append([step] * (n // step) + ([n % step] if n % step else []))
    seen, res = set(), []
    for c in out:
        if tuple(c) not in seen and sum(c) == n:
            seen.add(tuple(c))
            res.append(c)
    return res


CHUNK_FAMILIES = {
    # name: (rate in, rate out, has input, variable output)
    "hash": (8, 8, True, False), "hasha": (8, 8, True, False),
    "xof": (8, 8, True, True), "xofa": (8, 8, True, True),
    "prf": (32, 16, True, True),
    "kmac": (8, 8, True, True), "kmaca": (8, 8, True, True),
    "kdf": (8, 8, False, True), "kdfa": (8, 8, False, True),
    "hmac": (8, 8, True, False), "hmaca": (8, 8, True, False),
    "hkdf": (32, 32, False, True), "hkdfa": (32, 32, False, True),
}


def _chunk_run(R, fam, inlen, outlen, ch_in, ch_out):
    """ch_in / ch_out None = the one-shot function; returns the output bits"""
    oneshot = ch_in is None
    K, M, C = R.buf("K", 16), R.buf("M", inlen), R.buf("C", 5)
    out = R.out(outlen)
    if fam in ("hash", "hasha"):
        if oneshot:
            R.call("ascon_" + fam, out, M, inlen)
        else:
            st = R.obj(R.struct_size("ascon_%s_state_t" % fam))
            R.call("ascon_%s_init" % fam, st)
            _absorb_chunks(R, "ascon_%s_update" % fam, st, M, inlen, ch_in)
            R.call("ascon_%s_finalize" % fam, st, out)
    elif fam in ("xof", "xofa"):
        st = R.obj(R.struct_size("ascon_%s_state_t" % fam))
        R.call("ascon_%s_init" % fam, st)
        if oneshot:
            R.call("ascon_%s_absorb" % fam, st, M, inlen)
            R.call("ascon_%s_squeeze" % fam, st, out, outlen)
        else:
            _absorb_chunks(R, "ascon_%s_absorb" % fam, st, M, inlen, ch_in)
            _squeeze_chunks(R, "ascon_%s_squeeze" % fam, st, out, ch_out)
    elif fam == "prf":
        if oneshot:
            R.call("ascon_prf", out, outlen, M, inlen, K)
        else:
            st = R.obj(R.struct_size("ascon_prf_state_t"))
            R.call("ascon_prf_init", st, K)
            _absorb_chunks(R, "ascon_prf_absorb", st, M, inlen, ch_in)
            _squeeze_chunks(R, "ascon_prf_squeeze", st, out, ch_out)
    elif fam in ("kmac", "kmaca"):
        if oneshot:
            R.call("ascon_" + fam, K, 16, M, inlen, C, 5, out, outlen)
        else:
            st = R.obj(R.struct_size("ascon_%s_state_t" % fam))
            R.call("ascon_%s_init" % fam, st, K, 16, C, 5, outlen)
            _absorb_chunks(R, "ascon_%s_absorb" % fam, st, M, inlen, ch_in)
            _squeeze_chunks(R, "ascon_%s_squeeze" % fam, st, out, ch_out)
    elif fam in ("kdf", "kdfa"):
        if oneshot:
            R.call("ascon_" + fam, out, outlen, K, 16, C, 5)
        else:
            st = R.obj(R.struct_size("ascon_%s_state_t" % fam))
            R.call("ascon_%s_init" % fam, st, K, 16, C, 5, outlen)
            _squeeze_chunks(R, "ascon_%s_squeeze" % fam, st, out, ch_out)
    elif fam in ("hmac", "hmaca"):
        if oneshot:
            R.call("ascon_" + fam, out, K, 16, M, inlen)
        else:
            st = R.obj(R.struct_size("ascon_%s_state_t" % fam))
            R.call("ascon_%s_init" % fam, st, K, 16)
            _absorb_chunks(R, "ascon_%s_update" % fam, st, M, inlen, ch_in)
            R.call("ascon_%s_finalize" % fam, st, K, 16, out)
    elif fam in ("hkdf", "hkdfa"):
        if oneshot:
            R.call("ascon_" + fam, out, outlen, K, 16, M, inlen, C, 5)
        else:
            st = R.obj(R.struct_size("ascon_%s_state_t" % fam))
            R.call("ascon_%s_extract" % fam, st, K, 16, M, inlen)
            pos = 0
            for c in ch_out:
                R.call("ascon_%s_expand" % fam, st, C, 5, Ptr(out.obj, pos), c)
                pos += c
    else:
        raise ValueError(fam)
    return R.read(out, outlen)


def case_chunk(m, layout, fam, inlen, outlen):
    """every partition of input and output gives the bytes of the one-shot call"""
    rin, rout, has_in, var_out = CHUNK_FAMILIES[fam]
    if not var_out:
        outlen = 32
    want = _chunk_run(modes.Run(m, layout), fam, inlen, outlen, None, None)
    pin = partitions(inlen, rin) if has_in and fam not in ("hkdf", "hkdfa") else [[inlen]]
    pout = partitions(outlen, rout) if var_out else [[outlen]]
    # all input partitions with the plain output, all output partitions with two input partitions
    pairs = [(a, pout[0]) for a in pin] + [(a, b) for b in pout[1:] for a in (pin[0], pin[-1])]
    for ch_in, ch_out in pairs:
        got = _chunk_run(modes.Run(m, layout), fam, inlen, outlen, ch_in, ch_out)
        d = modes.first_diff(got, want)
        if d:
            return ("chunking", "input passed as %s and output requested as %s: result differs from the one-shot call at %s" % (
                ch_in, ch_out, d))
    return None


# ---------------------------------------------------------------------------
def run_cases(prop, rid, tier, cases, worker):
    """cases: list of picklable tuples starting with (json, cname, layout, ...)"""
    per = max(1, min(6, -(-len(cases) // (2 * repo.JOBS))))
    chunks = [cases[k:k + per] for k in range(0, len(cases), per)]
    res = modes.parallel([(prop, rid, tier, ch, worker) for ch in chunks], _dispatch)
    return res


def _dispatch(item):
    prop, rid, tier, cases, worker = item
    r = report.Report(prop, tier)
    r._known = []
    for case in cases:
        js, cname, layout = case[0], case[1], case[2]
        m = modes.load_module(js)
        fn, args, desc, src_fn = case[3], case[4], case[5], case[6]
        try:
            bad = globals()[fn](m, layout, *args)
        except Unsupported as e:
            r.unproved_item(rid, "%s %s: %s" % (cname, desc, e))
            continue
        except Exception:
            import traceback
            r.broken.append("%s %s %s: %s" % (rid, cname, desc, traceback.format_exc()[-700:]))
            continue
        if bad:
            f = m.funcs.get(src_fn)
            r.violation(rid, "%s:%s" % (src_fn, bad[0]), f.src if f is not None else src_fn,
                        ("%s: %s [%s]" % (src_fn, bad[1], desc)) if bad[0] == "chunking" else
                        "%s differs from its specification for the shape [%s]: %s" % (src_fn, desc, bad[1]),
                        config=cname, detail={"shape": desc})
        else:
            r.instance(rid, 1, {"config": cname, "function": src_fn, "shape": desc})
    return r.export()
