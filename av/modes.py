"""Harness: run library mode functions in the symbolic machine and compare
their outputs with av/sponge.Spec (see av/sponge.py for the method)."""
import concurrent.futures as cf

from . import affine, ir, repo, sponge
from .affine import Machine, Ptr, Unsupported, const_bits, to_int
from .sponge import cbytes, sym_bytes

_MODS = {}


def load_module(js):
    m = _MODS.get(js)
    if m is None:
        m = ir.Module.load(js)
        _MODS[js] = m
    return m


class Run:
    """one symbolic run: a machine, a shared permutation memo and helpers to
    build arguments"""

    def __init__(self, m, layout, maxs=4):
        self.m = m
        self.ctx = sponge.Ctx()
        self.mc = sponge.machine(m, self.ctx, layout, maxs)
        self.spec = sponge.SpecIsap(self.ctx)
        self.n = 0

    def buf(self, name, size, symbolic=True, data=None):
        p = self.mc.new_obj(name, max(size, 1), symbolic=symbolic)
        if data is not None:
            self.mc.store(p, cbytes(data))
        return p

    def out(self, size):
        self.n += 1
        return self.mc.new_obj("out%d" % self.n, max(size, 1), symbolic=False)

    def obj(self, typename_size):
        self.n += 1
        return self.mc.new_obj("obj%d" % self.n, typename_size, symbolic=False)

    def call(self, fname, *args):
        f = self.m.funcs.get(fname)
        if f is None or f.decl:
            raise Unsupported("%s has no IR body" % fname)
        a = []
        for k, x in enumerate(args):
            if isinstance(x, int):
                w = self.mc.width(f.param_ty[k])
                a.append(const_bits(x & ((1 << w) - 1), w))
            elif x is None:
                a.append(Ptr("null", 0))
            else:
                a.append(x)
        return self.mc.call(fname, a)

    def read(self, p, n):
        return tuple(self.mc.load(p, n)) if n else ()

    def read_int(self, p, nbytes):
        return to_int(self.mc.load(p, nbytes))

    def struct_size(self, name):
        for pre in ("struct.", "union."):
            s = self.m.structs.get(pre + name)
            if s:
                return s["size"]
        # merged identical types: fall back to debug info
        t = self.m.ditype_by_typedef(name)
        if t:
            return t["size"]
        raise Unsupported("unknown record " + name)


def first_diff(got, want):
    if len(got) != len(want):
        return "length %d vs %d bits" % (len(got), len(want))
    for k, (x, y) in enumerate(zip(got, want)):
        if x != y:
            return "byte %d bit %d" % (k // 8, k % 8)
    return None


def parallel(items, worker, jobs=None):
    with cf.ProcessPoolExecutor(max_workers=jobs or repo.JOBS) as ex:
        return list(ex.map(worker, items))


def mode_configs(tier):
    if tier == "quick":
        return [repo.Config("c64"), repo.Config("c32")]
    return [repo.Config("c64"), repo.Config("c32"), repo.Config("direct"), repo.Config("generic")]


def prepare(tier, cfgs=None, langs=("c",)):
    """-> list of (json path, config name, layout, max shares)"""
    builds = repo.configure_many(cfgs or mode_configs(tier))
    out = []
    for b in builds:
        lr = repo.lower(b, group="lib", level="O0", langs=langs)
        m = load_module(lr.json)
        layout = sponge.layout_of(b)
        sponge.self_check(m, layout)
        out.append((lr.json, b.cfg.name, layout, b.cfg.maxs, lr.units))
    return out
