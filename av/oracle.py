"""Reference constants computed from the specifications (never from /repo).

ASCON v1.2 (Dobraunig, Eichlseder, Mendel, Schlaeffer), section 2.6: the
permutation; section 2.5: initial values.  Used only to *produce reference
tables* (initial states after P12, round constants, their bit-interleaved
forms); it is applied to constants, never to repository code.
"""

MASK = (1 << 64) - 1


def ror(x, n):
    return ((x >> n) | (x << (64 - n))) & MASK


def round_constant(r):
    """constant of round r (0..11) of the 12-round permutation"""
    return ((0xf - r) << 4) | r


ROTATIONS = [(19, 28), (61, 39), (1, 6), (10, 17), (7, 41)]


def permute(x, first_round=0):
    x0, x1, x2, x3, x4 = x
    for r in range(first_round, 12):
        x2 ^= round_constant(r)
        # substitution layer
        x0 ^= x4
        x4 ^= x3
        x2 ^= x1
        t0 = (~x0) & x1 & MASK
        t1 = (~x1) & x2 & MASK
        t2 = (~x2) & x3 & MASK
        t3 = (~x3) & x4 & MASK
        t4 = (~x4) & x0 & MASK
        x0 ^= t1
        x1 ^= t2
        x2 ^= t3
        x3 ^= t4
        x4 ^= t0
        x1 ^= x0
        x0 ^= x4
        x3 ^= x2
        x2 = (~x2) & MASK
        # linear layer
        x0 ^= ror(x0, 19) ^ ror(x0, 28)
        x1 ^= ror(x1, 61) ^ ror(x1, 39)
        x2 ^= ror(x2, 1) ^ ror(x2, 6)
        x3 ^= ror(x3, 10) ^ ror(x3, 17)
        x4 ^= ror(x4, 7) ^ ror(x4, 41)
    return [x0, x1, x2, x3, x4]


def words_to_bytes(w):
    return b"".join(x.to_bytes(8, "big") for x in w)


def bytes_to_words(b):
    assert len(b) == 40
    return [int.from_bytes(b[i * 8:i * 8 + 8], "big") for i in range(5)]


def state_after_iv(first_block):
    """P12 of a 40-byte first block -> canonical 40 bytes"""
    return words_to_bytes(permute(bytes_to_words(first_block)))


# --- initial values --------------------------------------------------------
# hash family IV: 0x00 || rate(64=0x40) || a(12=0x0c) || a-b || 32-bit output bits
def hash_iv(a_minus_b, outbits):
    return bytes([0x00, 0x40, 0x0c, a_minus_b]) + outbits.to_bytes(4, "big")


def xof_first_block(variant_a=False, outlen_bytes=0, name=b""):
    """first block of ASCON-XOF/XOFA/HASH/HASHA/cXOF: IV || N padded to 32"""
    assert len(name) <= 32
    iv = hash_iv(4 if variant_a else 0, outlen_bytes * 8)
    return iv + name + bytes(32 - len(name))


def expected_tables():
    """family -> canonical 40-byte initial state"""
    t = {}
    t["xof"] = state_after_iv(xof_first_block(False, 0))
    t["xofa"] = state_after_iv(xof_first_block(True, 0))
    t["hash"] = state_after_iv(xof_first_block(False, 32))
    t["hasha"] = state_after_iv(xof_first_block(True, 32))
    t["kmac"] = state_after_iv(xof_first_block(False, 32, b"KMAC"))
    t["kmaca"] = state_after_iv(xof_first_block(True, 32, b"KMAC"))
    return t


# --- encodings -----------------------------------------------------------
def deinterleave(x):
    """64-bit word -> (even bits, odd bits) as 32-bit words"""
    e = o = 0
    for j in range(32):
        e |= ((x >> (2 * j)) & 1) << j
        o |= ((x >> (2 * j + 1)) & 1) << j
    return e, o


def interleave(e, o):
    x = 0
    for j in range(32):
        x |= ((e >> j) & 1) << (2 * j)
        x |= ((o >> j) & 1) << (2 * j + 1)
    return x


def decode_table(raw, encoding):
    """raw: bytes of the initializer as laid out in (little-endian) memory.
    -> canonical big-endian 40 bytes"""
    if encoding == "bytes":
        return bytes(raw)
    if encoding == "sliced64":
        ws = [int.from_bytes(raw[i * 8:i * 8 + 8], "little") for i in range(5)]
        return words_to_bytes(ws)
    if encoding == "sliced32":
        ws32 = [int.from_bytes(raw[i * 4:i * 4 + 4], "little") for i in range(10)]
        ws = [interleave(ws32[2 * i], ws32[2 * i + 1]) for i in range(5)]
        return words_to_bytes(ws)
    raise ValueError(encoding)


def round_constants_c64():
    """value XORed into x2 by the 64-bit C back end when x2 is kept inverted
    across rounds is implementation specific; the canonical constants are:"""
    return [round_constant(r) for r in range(12)]


def round_constants_sliced32():
    """(even, odd) halves of each round constant for bit-interleaved code"""
    return [deinterleave(round_constant(r)) for r in range(12)]


# Known-answer self-check of the oracle itself against the specification's
# published initial value for ASCON-HASH (ASCON v1.2 section 2.5.1 lists the
# precomputed state ee9398aadb67f03d 8bb21831c60f1002 b48a92db98d5da62
# 43189921b8f8e3e8 348fa5c9d525e140).
SPEC_HASH_STATE = bytes.fromhex(
    "ee9398aadb67f03d8bb21831c60f1002b48a92db98d5da62"
    "43189921b8f8e3e8348fa5c9d525e140")
SPEC_XOF_STATE = bytes.fromhex(
    "b57e273b814cd4162b51042562ae242066a3a7768ddf2218"
    "5aad0a7a8153650c4f3e0e32539493b6")
SPEC_HASHA_STATE = bytes.fromhex(
    "01470194fc6528a6738ec38ac0adffa72ec8e3296c76384c"
    "d6f6a54d7f52377da13c42a223be8d87")
SPEC_XOFA_STATE = bytes.fromhex(
    "44906568b77b9832cd8d6cae53455532f7b5212756422129"
    "246885e1de0d225ba8cb5ce33449973f")


def selfcheck():
    t = expected_tables()
    return (t["hash"] == SPEC_HASH_STATE and t["xof"] == SPEC_XOF_STATE
            and t["hasha"] == SPEC_HASHA_STATE and t["xofa"] == SPEC_XOFA_STATE)
