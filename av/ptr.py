"""Pointer provenance on the dumped IR.

resolve(fn, operand) -> Prov(roots, offset)
   roots   frozenset of root objects the pointer may be derived from:
             ("param", "%name")  pointee of a pointer parameter
             ("alloca", "%name") a stack object of this function
             ("global", "name")  a global variable
             ("call", "%id")     pointer returned by a call
             ("load", "%id")     pointer loaded from memory
             ("null",) / ("unknown", why)
   offset  constant byte offset from the root if the same on all paths and
           there is exactly one root, else None
All phi inputs and both select arms are joined; results are memoised.
"""
from . import ir


class Prov:
    __slots__ = ("roots", "offset", "variable")

    def __init__(self, roots, offset, variable=False):
        self.roots = frozenset(roots)
        self.offset = offset
        self.variable = variable   # offset has a non-constant component

    def single(self):
        if len(self.roots) == 1:
            return next(iter(self.roots))
        return None

    def __repr__(self):
        return "Prov(%s, %s%s)" % (sorted(self.roots), self.offset,
                                   "+var" if self.variable else "")


class Resolver:
    def __init__(self, fn):
        self.fn = fn
        self.memo = {}
        self.params = set(fn.params)

    def resolve(self, o):
        if isinstance(o, dict):
            if "ce" in o:
                return self._ce(o)
            if "c" in o:
                return Prov([("int", o["c"])], None)
            return Prov([("unknown", "const")], None)
        if o == "null":
            return Prov([("null",)], 0)
        if o in ("undef", "poison"):
            return Prov([("undef",)], 0)
        if ir.is_global(o):
            return Prov([("global", o[1:])], 0)
        if not ir.is_local(o):
            return Prov([("unknown", str(o))], None)
        if o in self.memo:
            r = self.memo[o]
            if r is None:           # cycle through a phi: contributes nothing new
                return Prov([], None)
            return r
        self.memo[o] = None
        r = self._local(o)
        self.memo[o] = r
        return r

    def _ce(self, o):
        op = o["ce"]
        if op in ("bitcast", "addrspacecast"):
            return self.resolve(o["ops"][0])
        if op == "getelementptr":
            b = self.resolve(o["ops"][0])
            off = o.get("off")
            if off is None or b.offset is None:
                return Prov(b.roots, None, True)
            return Prov(b.roots, b.offset + off, b.variable)
        if op in ("inttoptr",):
            return Prov([("unknown", "inttoptr")], None)
        if op == "ptrtoint":
            return self.resolve(o["ops"][0])
        return Prov([("unknown", op)], None)

    def _local(self, o):
        if o in self.params:
            return Prov([("param", o)], 0)
        i = self.fn.defs.get(o)
        if i is None:
            return Prov([("unknown", o)], None)
        if i.op == "alloca":
            return Prov([("alloca", o)], 0)
        if i.op in ("bitcast", "addrspacecast"):
            return self.resolve(i.ops[0])
        if i.op == "getelementptr":
            b = self.resolve(i.ops[0])
            if i.d["terms"]:
                return Prov(b.roots, None if b.offset is None else b.offset + i.d["coff"], True)
            if b.offset is None:
                return Prov(b.roots, None, b.variable)
            return Prov(b.roots, b.offset + i.d["coff"], b.variable)
        if i.op == "phi":
            rs = [self.resolve(v) for v, _ in i.d["inc"]]
            rs = [r for r in rs if r.roots]
            roots = set()
            for r in rs:
                roots |= r.roots
            offs = set(r.offset for r in rs)
            var = any(r.variable for r in rs)
            # a pointer advanced in a loop: the back-edge input has a
            # different offset from the entry input
            if len(offs) == 1 and not var:
                return Prov(roots, offs.pop(), False)
            # the constant prefix (lowest known base) still identifies the
            # member / array the pointer walks over
            base = None
            for r in rs:
                if r.offset is not None:
                    base = r.offset if base is None else min(base, r.offset)
            return Prov(roots, base, True)
        if i.op == "select":
            a, b = self.resolve(i.ops[1]), self.resolve(i.ops[2])
            roots = a.roots | b.roots
            if a.offset == b.offset and not a.variable and not b.variable:
                return Prov(roots, a.offset)
            return Prov(roots, None, True)
        if i.op in ("call", "invoke"):
            return Prov([("call", o)], 0)
        if i.op == "load":
            return Prov([("load", o)], 0)
        if i.op == "inttoptr":
            src = self.resolve(i.ops[0])
            if src.roots and all(r[0] in ("param", "alloca", "global", "call", "load") for r in src.roots):
                return Prov(src.roots, None, True)
            return Prov([("unknown", "inttoptr")], None)
        if i.op == "ptrtoint":
            return self.resolve(i.ops[0])
        if i.op in ("add", "sub", "and", "or"):
            # pointer arithmetic through integers (alignment tricks)
            rs = [self.resolve(x) for x in i.ops]
            roots = set()
            for r in rs:
                roots |= set(x for x in r.roots if x[0] in ("param", "alloca", "global", "call", "load"))
            if roots:
                return Prov(roots, None, True)
            return Prov([("int", None)], None)
        if i.op in ("extractvalue", "extractelement"):
            return Prov([("unknown", i.op)], None)
        return Prov([("unknown", i.op)], None)


_RESOLVERS = {}


def resolver(fn):
    key = id(fn)
    r = _RESOLVERS.get(key)
    if r is None or r.fn is not fn:
        r = Resolver(fn)
        _RESOLVERS[key] = r
    return r


MEMCPY = ("llvm.memcpy.", "llvm.memmove.")
MEMSET = ("llvm.memset.",)


def is_memcpy(i):
    c = i.callee or ""
    return i.op == "call" and (c.startswith(MEMCPY) or c in ("memcpy", "memmove"))


def is_memset(i):
    c = i.callee or ""
    return i.op == "call" and (c.startswith(MEMSET) or c == "memset")
