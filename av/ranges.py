"""Unsigned interval analysis on SSA values with branch-edge refinement.

range_at(v, block): interval [lo, hi] of integer SSA value v when control is
in `block`, as implied by constants, simple arithmetic, phi joins (each input
refined by the conditions that hold on its incoming edge) and dominating
`icmp` guards.  Sound over-approximation in the unsigned 64-bit domain; a
result of (0, MAXU) means "nothing known".
"""
from . import ir

MAXU = (1 << 64) - 1
TOP = (0, MAXU)


def _w(ty):
    if ty.startswith("i") and ty[1:].isdigit():
        return int(ty[1:])
    return 64


class Ranges:
    def __init__(self, fn, wide=False):
        """wide=True: bounds that come only from the bit width of a type are
        ignored (treated as unknown), so every finite upper bound reported is
        implied by a constant, a mask or a guard."""
        self.wide = wide
        self.f = fn
        self.dom = fn.dominators()
        self._base = {}
        self._busy = set()
        self._edge_cache = {}
        self._dc_cache = {}
        self._cuts = 0

    # ---- unconditioned range of a value ---------------------------------
    def base(self, v, depth=0, blk=None):
        """range of v evaluated with the constraints that hold in block blk
        (None: no constraints)"""
        c = ir.const_uint(v)
        if c is not None:
            return (c, c)
        if not ir.is_local(v):
            return TOP
        key = (v, blk)
        if key in self._base:
            return self._base[key]
        if key in self._busy or depth > 40:
            self._cuts += 1
            return TOP
        self._busy.add(key)
        cuts0 = self._cuts
        r = self._compute(v, depth, blk)
        if blk is not None:
            lo, hi = r
            for (x, l2, h2) in self.dominating_constraints(blk):
                if x == v:
                    lo, hi = max(lo, l2), min(hi, h2)
            r = (lo, hi) if lo <= hi else (lo, lo)
        self._busy.discard(key)
        # a result that depended on a cycle cut is only valid for the query
        # that is at the head of that cycle
        if self._cuts == cuts0 or not self._busy:
            self._base[key] = r
        return r

    def _compute(self, v, depth, blk=None):
        i = self.f.defs.get(v)
        if i is None:
            # parameter: bounded by its type
            if v in self.f.params and not self.wide:
                w = _w(self.f.param_ty[self.f.params.index(v)])
                return (0, (1 << w) - 1)
            return TOP
        w = _w(i.ty)
        full = (0, (1 << w) - 1) if w <= 64 else TOP
        tymax = full[1]
        if self.wide:
            full = TOP
        op = i.op
        if op == "zext":
            a = self.base(i.ops[0], depth + 1, blk)
            fw = _w(i.d.get("fromty", "i64"))
            if self.wide:
                return a
            return (a[0], min(a[1], (1 << fw) - 1))
        if op == "sext":
            a = self.base(i.ops[0], depth + 1, blk)
            fw = _w(i.d.get("fromty", "i32"))
            if a[1] < (1 << (fw - 1)):
                return a
            return full
        if op == "trunc":
            a = self.base(i.ops[0], depth + 1, blk)
            if a[1] <= tymax:
                return a
            return full
        if op == "and":
            a, b = self.base(i.ops[0], depth + 1, blk), self.base(i.ops[1], depth + 1, blk)
            for x, y in ((a, b), (b, a)):
                if y[0] == y[1] and x[1] - x[0] <= 70000:
                    vals = [t & y[0] for t in range(x[0], x[1] + 1)]
                    return (min(vals), max(vals))
            return (0, min(a[1], b[1]))
        if op in ("add",):
            a, b = self.base(i.ops[0], depth + 1, blk), self.base(i.ops[1], depth + 1, blk)
            if a[1] + b[1] <= tymax:
                return (a[0] + b[0], a[1] + b[1])
            return full
        if op == "sub":
            a, b = self.base(i.ops[0], depth + 1, blk), self.base(i.ops[1], depth + 1, blk)
            if a[0] >= b[1]:
                return (a[0] - b[1], a[1] - b[0])
            return full
        if op == "mul":
            a, b = self.base(i.ops[0], depth + 1, blk), self.base(i.ops[1], depth + 1, blk)
            if a[1] * b[1] <= tymax:
                return (a[0] * b[0], a[1] * b[1])
            return full
        if op == "ashr":
            a, b = self.base(i.ops[0], depth + 1, blk), self.base(i.ops[1], depth + 1, blk)
            if a[1] < (1 << (w - 1)) and b[0] == b[1] and b[0] < 64:
                return (a[0] >> b[0], a[1] >> b[0])
            return full
        if op in ("lshr", "udiv"):
            a, b = self.base(i.ops[0], depth + 1, blk), self.base(i.ops[1], depth + 1, blk)
            if op == "lshr" and b[0] == b[1] and b[0] < 64:
                return (a[0] >> b[0], a[1] >> b[0])
            if op == "udiv" and b[0] > 0:
                return (a[0] // b[1], a[1] // b[0])
            return (0, a[1])
        if op == "urem":
            b = self.base(i.ops[1], depth + 1, blk)
            a = self.base(i.ops[0], depth + 1, blk)
            if b[1] > 0:
                return (0, min(a[1], b[1] - 1))
            return full
        if op == "shl":
            a, b = self.base(i.ops[0], depth + 1, blk), self.base(i.ops[1], depth + 1, blk)
            if b[0] == b[1] and b[0] < 64 and (a[1] << b[0]) <= tymax:
                return (a[0] << b[0], a[1] << b[0])
            return full
        if op == "select":
            a, b = self.base(i.ops[1], depth + 1, blk), self.base(i.ops[2], depth + 1, blk)
            return (min(a[0], b[0]), max(a[1], b[1]))
        if op == "phi":
            lo, hi = None, None
            for val, pred in i.d["inc"]:
                r = self.on_edge(val, pred, i.block.name, depth + 1)
                if r is None:
                    continue
                lo = r[0] if lo is None else min(lo, r[0])
                hi = r[1] if hi is None else max(hi, r[1])
            if lo is None:
                return full
            return (lo, min(hi, full[1]))
        if op in ("icmp",):
            return (0, 1)
        if op == "call" and self.wide and (i.callee or "") in RESULT_AT_MOST_ARG:
            # documented I/O contracts: the number of bytes transferred never exceeds the requested count (the
            # non-negative part of the result; -1 is outside the clause, cf. the signed guards in wide mode)
            k = RESULT_AT_MOST_ARG[i.callee]
            if k < len(i.ops):
                a = self.base(i.ops[k], depth + 1, blk) if ir.is_local(i.ops[k]) else (
                    (ir.const_int(i.ops[k]), ir.const_int(i.ops[k])) if ir.const_int(i.ops[k]) is not None else (0, MAXU))
                if a[1] < (1 << 31):
                    return (0, a[1])
        if op == "call" and (i.callee or "").startswith(("llvm.umin.",)):
            a, b = self.base(i.ops[0], depth + 1, blk), self.base(i.ops[1], depth + 1, blk)
            return (min(a[0], b[0]), min(a[1], b[1]))
        if op == "call" and (i.callee or "").startswith(("llvm.umax.",)):
            a, b = self.base(i.ops[0], depth + 1, blk), self.base(i.ops[1], depth + 1, blk)
            return (max(a[0], b[0]), max(a[1], b[1]))
        return full

    # ---- refinement by branch conditions -----------------------------------
    def _cond_constraints(self, cond, truth, out, depth=0):
        """constraints (value, lo, hi) implied by cond == truth"""
        if not ir.is_local(cond) or depth > 6:
            return
        i = self.f.defs.get(cond)
        if i is None:
            return
        if i.op == "icmp":
            a, b = i.ops
            p = i.d["pred"]
            if not truth:
                p = _NEG[p]
            rb = self.base(b)
            ra = self.base(a)
            self._cmp(a, p, rb, out)
            self._cmp(b, _SWAP.get(p, p), ra, out)
        elif i.op == "xor" and ir.const_int(i.ops[1]) in (1, -1):
            self._cond_constraints(i.ops[0], not truth, out, depth + 1)
        elif i.op == "and" and truth and i.ty == "i1":
            self._cond_constraints(i.ops[0], True, out, depth + 1)
            self._cond_constraints(i.ops[1], True, out, depth + 1)
        elif i.op == "or" and not truth and i.ty == "i1":
            self._cond_constraints(i.ops[0], False, out, depth + 1)
            self._cond_constraints(i.ops[1], False, out, depth + 1)
        elif i.op == "phi" and i.ty == "i1":
            # short-circuit && / ||: inputs that are the constant !truth cannot
            # be the one taken; if a single input remains, its condition and
            # the conditions of its incoming block hold
            live = []
            for val, pred in i.d["inc"]:
                c = ir.const_int(val)
                if c is not None and bool(c & 1) != truth:
                    continue
                live.append((val, pred))
            if len(live) == 1:
                val, pred = live[0]
                self._cond_constraints(val, truth, out, depth + 1)
                out.extend(self.dominating_constraints(pred))

    def _cmp(self, v, p, rb, out):
        if not ir.is_local(v):
            return
        lo, hi = 0, MAXU
        if p == "ult":
            if rb[1] == 0:
                return
            hi = rb[1] - 1
        elif p == "ule":
            hi = rb[1]
        elif p == "ugt":
            lo = rb[0] + 1
        elif p == "uge":
            lo = rb[0]
        elif p == "eq":
            lo, hi = rb
        elif p in ("slt", "sle", "sgt", "sge"):
            # signed guard against a small non-negative constant: in wide mode
            # (used to *find* reachable out-of-range indices) the non-negative
            # part of the value set is described; negative values are outside
            # the clause.  Never used by the strict mode.
            if not self.wide or rb[0] != rb[1] or rb[1] >= (1 << 31):
                return
            if p == "slt":
                if rb[1] == 0:
                    return
                hi = rb[1] - 1
            elif p == "sle":
                hi = rb[1]
            elif p == "sgt":
                lo = rb[0] + 1
            else:
                lo = rb[0]
        else:
            return
        out.append((v, lo, hi))
        # propagate through value-preserving casts
        d = self.f.defs.get(v)
        if d is not None and d.op in ("zext",):
            out.append((d.ops[0], lo, hi))
        if d is not None and d.op == "trunc":
            src = self.base(d.ops[0])
            if src[1] <= (1 << _w(d.ty)) - 1:
                out.append((d.ops[0], lo, hi))

    def edge_constraints(self, pred_name, succ_name):
        key = (pred_name, succ_name)
        if key in self._edge_cache:
            return self._edge_cache[key]
        out = []
        b = self.f.bmap[pred_name]
        t = b.term
        if t.op == "br" and t.ops and len(t.succs) == 2 and t.succs[0] != t.succs[1]:
            if succ_name == t.succs[0]:
                self._cond_constraints(t.ops[0], True, out)
            elif succ_name == t.succs[1]:
                self._cond_constraints(t.ops[0], False, out)
        elif t.op == "switch":
            cases = t.d.get("cases", [])
            succs = t.succs
            hits = [c for c, s in zip(cases, succs[1:]) if s == succ_name]
            if len(hits) == 1 and succs[0] != succ_name and ir.is_local(t.ops[0]):
                c = hits[0] & MAXU
                out.append((t.ops[0], c, c))
        self._edge_cache[key] = out
        return out

    def dominating_constraints(self, block_name):
        """constraints that hold whenever control is in block_name"""
        if block_name in self._dc_cache:
            return self._dc_cache[block_name]
        self._dc_cache[block_name] = []     # guards recursion through base()
        out = []
        doms = self.dom.get(block_name, set())
        for d in doms:
            b = self.f.bmap[d]
            for s in b.succs:
                # the edge d->s dominates block_name if s dominates it and s has
                # d as its only predecessor on that edge (s != d)
                if s.name in doms or s.name == block_name:
                    if len(s.preds) == 1 and (s.name in doms):
                        out.extend(self.edge_constraints(d, s.name))
        self._dc_cache[block_name] = out
        return out

    def at(self, v, block_name):
        return self.base(v, 0, block_name)

    def on_edge(self, v, pred_name, succ_name, depth=0):
        r = self.at(v, pred_name) if ir.is_local(v) else self.base(v, depth)
        lo, hi = r
        if ir.is_local(v):
            for (x, l2, h2) in self.edge_constraints(pred_name, succ_name):
                if x == v:
                    lo, hi = max(lo, l2), min(hi, h2)
        if lo > hi:
            return None       # edge infeasible for this value
        return (lo, hi)


# callee -> index of the "count" argument that bounds the (non-negative) result
RESULT_AT_MOST_ARG = {"safe_file_read": 2, "read": 2, "write": 2, "safe_file_write": 2}

_NEG = {"eq": "ne", "ne": "eq", "ult": "uge", "uge": "ult", "ugt": "ule", "ule": "ugt",
        "slt": "sge", "sge": "slt", "sgt": "sle", "sle": "sgt"}
_SWAP = {"ult": "ugt", "ugt": "ult", "ule": "uge", "uge": "ule",
         "slt": "sgt", "sgt": "slt", "sle": "sge", "sge": "sle"}
