"""Build description, configuration matrix and IR lowering for /repo.

Everything here inspects /repo's *current working tree*: cmake is run in
configure-only mode into a scratch directory (nothing of the library is compiled
or executed by cmake), which yields config.h, version.h, the flag set and the
list of translation units.  Units are then lowered to LLVM IR with clang using
exactly those flags (optimisation level replaced as requested) and described
as JSON by build/irdump.
"""
import atexit
import concurrent.futures as cf
import hashlib
import json
import os
import shlex
import shutil
import subprocess
import sys
import tempfile
import threading
import time

VERIF = os.path.dirname(os.path.dirname(os.path.abspath(__file__)))
REPO = os.environ.get("VERIF_REPO", "/repo")
IRDUMP = os.path.join(VERIF, "build", "irdump")
JOBS = int(os.environ.get("VERIF_JOBS", "16"))


class AnalysisBroken(Exception):
    """The analysis itself could not be carried out (exit status 2)."""


# ---------------------------------------------------------------------------
# configurations

BACKENDS = ("asm", "c64", "c32", "direct", "generic")
_BACKEND_OPT = {
    "asm": [],
    "c64": ["-DBACKEND_C64=ON"],
    "c32": ["-DBACKEND_C32=ON"],
    "direct": ["-DBACKEND_DIRECT_XOR=ON"],
    "generic": ["-DBACKEND_GENERIC=ON"],
}


class Config:
    """One build configuration of the library."""

    def __init__(self, backend="asm", key=4, data=2, maxs=4, check=False,
                 extra=(), cc=None):
        assert backend in BACKENDS
        self.backend, self.key, self.data, self.maxs = backend, key, data, maxs
        self.check = check
        self.extra = tuple(extra)  # extra -D/-U flags (analysis-only configs)
        self.cc = cc               # None: cmake's default toolchain; "clang": configure for clang

    @property
    def name(self):
        n = "%s-k%dd%dm%d" % (self.backend, self.key, self.data, self.maxs)
        if self.check:
            n += "-check"
        if self.cc:
            n += "-" + self.cc
        if self.extra:
            n += "-" + hashlib.sha1(" ".join(self.extra).encode()).hexdigest()[:6]
        return n

    def cmake_options(self):
        o = list(_BACKEND_OPT[self.backend])
        o += ["-DKEY_SHARES=%d" % self.key, "-DDATA_SHARES=%d" % self.data,
              "-DMAX_SHARES=%d" % self.maxs]
        if self.check:
            o.append("-DCHECK_ACQUIRE_RELEASE=ON")
        if self.cc == "clang":
            o += ["-DCMAKE_C_COMPILER=clang", "-DCMAKE_CXX_COMPILER=clang++", "-DCMAKE_ASM_COMPILER=clang"]
        elif self.cc == "gcc":
            o += ["-DCMAKE_C_COMPILER=gcc", "-DCMAKE_CXX_COMPILER=g++", "-DCMAKE_ASM_COMPILER=gcc"]
        return o

    def effective_shares(self):
        """The (key, data) share counts after ascon-masked-config.h clamping.
        Mirrors the documented rule; the masked rules re-derive it from the
        preprocessed macro values and compare."""
        k = min(self.key, self.maxs)
        d = min(self.data, self.maxs)
        if d > k:
            d = k
        return k, d

    def describe(self):
        d = {"backend": self.backend, "key_shares": self.key,
             "data_shares": self.data, "max_shares": self.maxs,
             "check_acquire_release": self.check}
        if self.extra:
            d["extra_flags"] = list(self.extra)
        return d

    def __repr__(self):
        return "Config(%s)" % self.name


DEFAULT = Config()


def share_triples():
    out = []
    for k in (2, 3, 4):
        for d in (1, 2, 3, 4):
            if d > k:
                continue
            for m in (2, 3, 4):
                out.append((k, d, m))
    return out


QUICK_TRIPLES = [(2, 1, 2), (2, 2, 2), (3, 1, 3), (3, 2, 3), (3, 3, 3),
                 (4, 1, 4), (4, 3, 4), (4, 4, 4), (4, 2, 3), (4, 2, 2)]


def backend_configs():
    return [Config(b) for b in BACKENDS]


# ---------------------------------------------------------------------------
# scratch handling

_SCRATCH = None
_SCRATCH_LOCK = threading.Lock()


def scratch():
    global _SCRATCH
    with _SCRATCH_LOCK:
        if _SCRATCH is None:
            base = os.environ.get("VERIF_SCRATCH_BASE", tempfile.gettempdir())
            _SCRATCH = tempfile.mkdtemp(prefix="asconverif-", dir=base)
            atexit.register(cleanup)
        return _SCRATCH


def cleanup():
    global _SCRATCH
    d = _SCRATCH
    _SCRATCH = None
    for attempt in range(10):
        if not d or not os.path.isdir(d):
            break
        shutil.rmtree(d, ignore_errors=True)
        if os.path.isdir(d):
            time.sleep(0.3)      # a child process may still be writing
    if d and os.path.isdir(d):
        subprocess.run(["rm", "-rf", d])


def run(cmd, cwd=None, timeout=600, check=True, env=None, stdin=None):
    p = subprocess.run(cmd, cwd=cwd, stdout=subprocess.PIPE,
                       stderr=subprocess.PIPE, timeout=timeout, env=env,
                       input=stdin)
    if check and p.returncode != 0:
        raise AnalysisBroken("command failed (%d): %s\n%s" % (
            p.returncode, " ".join(cmd)[:400],
            p.stderr.decode(errors="replace")[-2000:]))
    return p


# ---------------------------------------------------------------------------
# build description

class Unit:
    def __init__(self, file, args, directory, output, group):
        self.file, self.args, self.directory = file, args, directory
        self.output, self.group = output, group
        self.lang = ("asm" if file.endswith(".S") else
                     "c++" if file.endswith((".cpp", ".cc", ".cxx")) else "c")

    @property
    def rel(self):
        return os.path.relpath(self.file, REPO)

    def flags(self):
        """The -D/-I/-U/-std/-f flags of the real command (no -O, -o, -c)."""
        out, a, i = [], self.args, 1
        while i < len(a):
            t = a[i]
            if t in ("-o", "-MF", "-MT", "-MQ"):
                i += 2
                continue
            if t in ("-c", "-MD", "-MMD") or t.startswith("-O") or t == self.file:
                i += 1
                continue
            if t in ("-I", "-D", "-U", "-isystem", "-include", "-x"):
                out += [t, a[i + 1]]
                i += 2
                continue
            if t.startswith(("-W",)) and not t.startswith("-Wa,"):
                i += 1
                continue
            out.append(t)
            i += 1
        return out

    def opt_level(self):
        for t in self.args:
            if t.startswith("-O"):
                return t
        return "-O0"


class Build:
    """Result of a configure-only cmake run for one configuration."""

    def __init__(self, cfg, directory, units, configure_s):
        self.cfg, self.dir, self.units = cfg, directory, units
        self.configure_s = configure_s

    def group(self, name, langs=("c", "c++")):
        return [u for u in self.units if u.group == name and u.lang in langs]

    def config_macros(self):
        """Macro values from the generated config.h (text of #define lines)."""
        out = {}
        with open(os.path.join(self.dir, "config.h")) as f:
            for line in f:
                p = line.split()
                if len(p) >= 2 and p[0] == "#define":
                    out[p[1]] = p[2] if len(p) > 2 else "1"
        return out


def _group_of(output):
    if output.startswith("src/CMakeFiles/ascon_static.dir/"):
        return "lib"
    if output.startswith("src/CMakeFiles/ascon.dir/"):
        return "libshared"
    if output.startswith("apps/asconcrypt/"):
        return "asconcrypt"
    if output.startswith("apps/asconsum/"):
        return "asconsum"
    if output.startswith("test/"):
        return "test"
    if output.startswith("examples/"):
        return "examples"
    return "other"


_BUILDS = {}


def configure(cfg):
    if cfg.name in _BUILDS:
        return _BUILDS[cfg.name]
    d = os.path.join(scratch(), "cfg-" + cfg.name)
    t0 = time.time()
    cmd = ["cmake", "-G", "Ninja", "-S", REPO, "-B", d, "-Wno-dev",
           "-DCMAKE_EXPORT_COMPILE_COMMANDS=ON"] + cfg.cmake_options()
    p = run(cmd, check=False, timeout=300)
    if p.returncode != 0 or not os.path.exists(
            os.path.join(d, "compile_commands.json")):
        raise AnalysisBroken("cmake configure failed for %s:\n%s" % (
            cfg.name, p.stderr.decode(errors="replace")[-1500:]))
    db = json.load(open(os.path.join(d, "compile_commands.json")))
    units = []
    for e in db:
        args = shlex.split(e["command"]) if "command" in e else e["arguments"]
        out = e.get("output", "")
        if not out and "-o" in args:
            out = args[args.index("-o") + 1]
        u = Unit(e["file"], args, e["directory"], out, _group_of(out))
        units.append(u)
    b = Build(cfg, d, units, time.time() - t0)
    if len(b.group("lib")) < 40:
        raise AnalysisBroken("compile database for %s lists only %d library "
                             "units" % (cfg.name, len(b.group("lib"))))
    _BUILDS[cfg.name] = b
    return b


def configure_many(cfgs):
    todo, seen = [], set()
    for c in cfgs:
        # the same configuration may be listed twice (analysed with different extra flags): configure it once,
        # two cmake runs into one directory race
        if c.name not in _BUILDS and c.name not in seen:
            seen.add(c.name)
            todo.append(c)
    with cf.ThreadPoolExecutor(max_workers=JOBS) as ex:
        futs = [ex.submit(configure, c) for c in todo]
        cf.wait(futs)             # let every cmake finish before an error propagates
    for f in futs:
        f.result()
    return [configure(c) for c in cfgs]


# ---------------------------------------------------------------------------
# IR lowering

LEVELS = {
    # precise SSA form, branches exactly as written in the source
    "O0": (["-O0", "-Xclang", "-disable-O0-optnone"],
           "function(sroa,early-cse)"),
    # the optimisation level that is shipped (CMAKE_C_FLAGS_RELEASE)
    "O3": (["-O3"], None),
    # mild optimisation that keeps loops rolled, for scalar evolution
    "O1": (["-O1", "-fno-unroll-loops", "-fno-vectorize", "-fno-slp-vectorize",
            "-fno-inline"], None),
}


class LowerResult:
    def __init__(self):
        self.path = None        # linked .ll
        self.json = None        # irdump output path
        self.units = []         # unit rel paths lowered
        self.failed = []        # (unit rel, stderr tail)
        self.wall_s = 0.0


def _lower_unit(args):
    u, level, extra, outdir = args
    cflags, _ = LEVELS[level]
    cc = "clang++" if u.lang == "c++" else "clang"
    out = os.path.join(outdir, hashlib.sha1(u.file.encode()).hexdigest()[:10]
                       + "-" + os.path.basename(u.file) + ".ll")
    cmd = ([cc] + u.flags() + list(extra) + cflags +
           ["-g", "-fno-discard-value-names", "-Wno-everything",
            "-S", "-emit-llvm", u.file, "-o", out])
    p = subprocess.run(cmd, cwd=u.directory, stdout=subprocess.PIPE,
                       stderr=subprocess.PIPE)
    if p.returncode != 0:
        return u, None, p.stderr.decode(errors="replace")[-1500:]
    return u, out, ""


_LOWERED = {}


def lower(build, group="lib", level="O0", langs=("c", "c++"), extra=(),
          scev=False, tolerate=(), inline_internal=False):
    """Lower all units of a group to one linked IR module and describe it.

    tolerate: rel paths of units whose failure to compile under clang is
    recorded instead of aborting the analysis."""
    key = (build.cfg.name, group, level, tuple(langs), tuple(extra), scev, inline_internal)
    if key in _LOWERED:
        return _LOWERED[key]
    if inline_internal:
        # the inlined view is derived from the linked module of the plain lowering (no second compilation)
        base = lower(build, group=group, level=level, langs=langs, extra=extra, scev=scev, tolerate=tolerate)
        res = LowerResult()
        res.units, res.failed, res.path = list(base.units), list(base.failed), base.path
        res.json = base.json[:-5] + ".inlined.json"
        t0 = time.time()
        run([IRDUMP] + (["--scev"] if scev else []) + ["--inline-internal", base.path, res.json])
        res.wall_s = time.time() - t0
        _LOWERED[key] = res
        return res
    t0 = time.time()
    units = build.group(group, langs)
    outdir = os.path.join(build.dir, "ir-%s-%s-%s" % (
        group, level, hashlib.sha1(repr(key).encode()).hexdigest()[:6]))
    os.makedirs(outdir, exist_ok=True)
    res = LowerResult()
    with cf.ThreadPoolExecutor(max_workers=JOBS) as ex:
        done = list(ex.map(_lower_unit, [(u, level, extra, outdir) for u in units]))
    lls = []
    for u, out, err in done:
        if out is None:
            res.failed.append((u.rel, err))
        else:
            res.units.append(u.rel)
            lls.append(out)
    hard = [f for f in res.failed if f[0] not in tolerate]
    if hard:
        raise AnalysisBroken("cannot lower %s in %s:\n%s" % (
            hard[0][0], build.cfg.name, hard[0][1]))
    linked = os.path.join(outdir, "linked.ll")
    run(["llvm-link-14", "-S", "-o", linked] + lls)
    _, passes = LEVELS[level]
    if passes:
        opt = os.path.join(outdir, "linked.opt.ll")
        run(["opt-14", "-S", "-passes=" + passes, linked, "-o", opt])
        linked = opt
    js = os.path.join(outdir, "linked.json")
    run([IRDUMP] + (["--scev"] if scev else []) + (["--inline-internal"] if inline_internal else []) + [linked, js])
    res.path, res.json = linked, js
    res.wall_s = time.time() - t0
    _LOWERED[key] = res
    return res


def lower_many(jobs):
    """jobs: list of (build, kwargs).  Runs lowerings concurrently."""
    def keyof(b, kw):
        return (b.cfg.name, kw.get("group", "lib"), kw.get("level", "O0"), tuple(kw.get("langs", ("c", "c++"))),
                tuple(kw.get("extra", ())), kw.get("scev", False), kw.get("inline_internal", False))
    uniq = {}
    for b, kw in jobs:
        uniq.setdefault(keyof(b, kw), (b, kw))      # identical jobs share one output directory: run once
    with cf.ThreadPoolExecutor(max_workers=max(1, min(4, len(uniq)))) as ex:
        futs = {k: ex.submit(lower, b, **kw) for k, (b, kw) in uniq.items()}
        cf.wait(list(futs.values()))
    return [futs[keyof(b, kw)].result() for b, kw in jobs]


def preprocess(unit, extra=(), linemarkers=True):
    """Preprocessed text of a unit with the real flags (used for .S files)."""
    cmd = ["clang", "-E"] + ([] if linemarkers else ["-P"]) + unit.flags() + list(extra) + [unit.file]
    p = run(cmd, cwd=unit.directory)
    return p.stdout.decode(errors="replace")


def repo_head():
    try:
        p = run(["git", "-C", REPO, "rev-parse", "HEAD"], check=False)
        return p.stdout.decode().strip()
    except Exception:
        return ""


def macros(build, include, lang="c", extra=()):
    """Macro definitions visible after including a repo header with the real
    flags of the configuration (clang -E -dM)."""
    us = build.group("lib", (lang,))
    src = "#include \"%s\"\n" % include
    cmd = (["clang", "-E", "-dM", "-x", "c" if lang == "c" else "c++"] +
           us[0].flags() + list(extra) + ["-"])
    p = run(cmd, cwd=us[0].directory, stdin=src.encode())
    out = {}
    for line in p.stdout.decode(errors="replace").splitlines():
        parts = line.split(None, 2)
        if len(parts) >= 2 and parts[0] == "#define":
            out[parts[1]] = parts[2] if len(parts) > 2 else ""
    return out
