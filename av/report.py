"""Verdict collection, known-findings handling and evidence writing."""
import json
import os
import sys
import time

VERIF = os.path.dirname(os.path.dirname(os.path.abspath(__file__)))
EVIDENCE_DIR = os.environ.get("VERIF_EVIDENCE_DIR") or os.path.join(VERIF, "evidence")
REPLAY_DIR = os.path.join(EVIDENCE_DIR, "replay")
KNOWN = os.path.join(VERIF, "known_findings.json")


def load_known():
    try:
        with open(KNOWN) as f:
            return json.load(f)
    except FileNotFoundError:
        return {"findings": [], "fixed": []}


class Report:
    """One run of one property's check."""

    def __init__(self, prop, tier, level="other", seed=0):
        self.prop, self.tier, self.level, self.seed = prop, tier, level, seed
        self.t0 = time.time()
        self.violations = []      # dicts
        self.known_hits = []
        self.unproved = []        # strings: proof lost, not an alarm
        self.obligations = 0
        self.discharged = 0
        self.samples = []
        self.rules = {}           # rule id -> {"instances": n, "desc": ...}
        self.configs = []
        self.units = set()
        self.functions = 0
        self.notes = []
        self.assumptions = []
        self.trusted_base = []
        self.explanation = ""
        self.undecided = ""
        self.extra = {}
        self.broken = []          # analysis-broken reasons
        self._known = [k for k in load_known().get("findings", [])
                       if k.get("property") == prop]

    # -- bookkeeping --------------------------------------------------
    def rule(self, rid, desc):
        self.rules.setdefault(rid, {"desc": desc, "instances": 0,
                                    "violations": 0})

    def instance(self, rid, n=1, sample=None):
        """n obligations of rule rid were examined and hold."""
        self.rules.setdefault(rid, {"desc": "", "instances": 0, "violations": 0})
        self.rules[rid]["instances"] += n
        self.obligations += n
        self.discharged += n
        if sample is not None and len(self.samples) < 40:
            per = sum(1 for s in self.samples if s.get("rule") == rid)
            if per < 4:
                s = {"rule": rid}
                s.update(sample if isinstance(sample, dict) else {"case": sample})
                self.samples.append(s)

    def violation(self, rid, instance, where, message, config=None, detail=None):
        """A concrete violating construct.  `instance` is the stable key used
        to match known findings (no line numbers)."""
        self.rules.setdefault(rid, {"desc": "", "instances": 0, "violations": 0})
        key = "%s:%s" % (rid, instance)
        for v in self.violations + self.known_hits:
            if v["key"] == key:
                if config and config not in v["configs"]:
                    v["configs"].append(config)
                return
        rec = {"property": self.prop, "rule": rid, "instance": instance,
               "key": key, "where": where, "message": message,
               "configs": [config] if config else [],
               "detail": detail or {}}
        self.obligations += 1
        self.rules[rid]["instances"] += 1
        for k in self._known:
            if k.get("rule") == rid and k.get("instance") == instance:
                rec["known"] = k.get("what", "")
                self.known_hits.append(rec)
                self.discharged += 0
                return
        self.rules[rid]["violations"] += 1
        self.violations.append(rec)

    def unproved_item(self, rid, what):
        """an obligation that was examined but neither discharged nor refuted
        (proof lost): counted for the instance floor, never an alarm"""
        self.unproved.append("%s: %s" % (rid, what))
        self.rules.setdefault(rid, {"desc": "", "instances": 0, "violations": 0})
        self.rules[rid]["instances"] += 1
        self.rules[rid]["unproved"] = self.rules[rid].get("unproved", 0) + 1
        self.obligations += 1

    def floor(self, rid, minimum, what=""):
        """Anchor check: rule rid must have examined at least `minimum`
        instances, else the analysis is broken (exit 2)."""
        r = self.rules.get(rid, {})
        n = r.get("instances", 0)
        if r.get("violations", 0):
            return      # violations of one construct are merged across configurations; the run already fails
        if n < minimum:
            self.broken.append("rule %s examined %d instance(s), expected at "
                               "least %d %s" % (rid, n, minimum, what))

    def floor_discharged(self, rid, minimum):
        """at least `minimum` obligations of rid must be decided (held or
        violated); too many lost proofs make the check vacuous -> exit 2"""
        r = self.rules.get(rid, {})
        n = r.get("instances", 0) - r.get("unproved", 0)
        if r.get("violations", 0):
            return
        if n < minimum:
            self.broken.append("rule %s decided only %d obligation(s) (%d unproved), expected at least %d" % (
                rid, n, r.get("unproved", 0), minimum))

    def broken_if(self, cond, why):
        if cond:
            self.broken.append(why)

    # -- merging results computed in worker processes ----------------------
    def export(self):
        return {"violations": self.violations, "known_hits": self.known_hits, "unproved": self.unproved,
                "rules": self.rules, "samples": self.samples, "configs": self.configs,
                "units": sorted(self.units), "functions": self.functions, "notes": self.notes,
                "broken": self.broken, "obligations": self.obligations, "discharged": self.discharged}

    def merge(self, d):
        for v in d["violations"] + d["known_hits"]:
            self.violation(v["rule"], v["instance"], v["where"], v["message"],
                           config=(v["configs"][0] if v["configs"] else None), detail=v.get("detail"))
            for c in v["configs"][1:]:
                self.violation(v["rule"], v["instance"], v["where"], v["message"], config=c)
        nv = {}
        for v in d["violations"] + d["known_hits"]:
            nv[v["rule"]] = nv.get(v["rule"], 0) + 1
        for rid, r in d["rules"].items():
            mine = self.rules.setdefault(rid, {"desc": r.get("desc", ""), "instances": 0, "violations": 0})
            if not mine.get("desc"):
                mine["desc"] = r.get("desc", "")
            add = r["instances"] - nv.get(rid, 0)
            mine["instances"] += add
            self.obligations += add
            self.discharged += add - r.get("unproved", 0)
            if r.get("unproved"):
                mine["unproved"] = mine.get("unproved", 0) + r["unproved"]
        self.unproved += d["unproved"]
        for s in d["samples"]:
            if len(self.samples) < 40:
                self.samples.append(s)
        for c in d["configs"]:
            if c not in self.configs:
                self.configs.append(c)
        self.units.update(d["units"])
        self.functions += d["functions"]
        self.notes += d["notes"]
        self.broken += d["broken"]

    # -- output ---------------------------------------------------------
    def finish(self):
        wall = time.time() - self.t0
        os.makedirs(EVIDENCE_DIR, exist_ok=True)
        os.makedirs(REPLAY_DIR, exist_ok=True)
        lines = []
        for k, v in enumerate(self.violations):
            rp = os.path.join(REPLAY_DIR, "%s-%d.json" % (self.prop, k))
            with open(rp, "w") as f:
                json.dump(v, f, indent=1, sort_keys=True)
            lines.append("VIOLATION property=%s replay=%s" % (self.prop, rp))
            lines.append("  rule=%s instance=%s at %s: %s%s" % (
                v["rule"], v["instance"], v["where"], v["message"],
                (" [configs: %s]" % ",".join(v["configs"][:6])) if v["configs"] else ""))
        for v in self.known_hits:
            lines.append("KNOWN-FINDING: property=%s rule=%s instance=%s at %s: %s" % (
                self.prop, v["rule"], v["instance"], v["where"], v["message"]))
        cov = {
            "explanation": self.explanation,
            "undecided": self.undecided,
            "obligations": self.obligations,
            "discharged": self.discharged,
            "rules": self.rules,
            "configurations": self.configs,
            "units_analysed": len(self.units),
            "functions_analysed": self.functions,
            "samples": self.samples or [{"note": "no instance sampled"}],
            "unproved": self.unproved[:50],
            "known_findings_reported": [v["key"] for v in self.known_hits],
            "violations": [{"key": v["key"], "where": v["where"],
                            "message": v["message"], "configs": v["configs"]}
                           for v in self.violations][:50],
            "notes": self.notes,
            "exhaustive": False,
        }
        if self.level == "proof":
            cov["checker_cmd"] = "./check %s --tier %s" % (self.prop, self.tier)
            cov["trusted_base"] = self.trusted_base
        cov.update(self.extra)
        ev = {
            "property_id": self.prop,
            "tier": self.tier,
            "seed": self.seed,
            "level": self.level,
            "coverage": cov,
            "assumptions": self.assumptions,
            "wall_s": round(wall, 2),
            "violations": len(self.violations),
        }
        if self.broken:
            ev["coverage"]["analysis_broken"] = self.broken
        with open(os.path.join(EVIDENCE_DIR, self.prop + ".json"), "w") as f:
            json.dump(ev, f, indent=1, sort_keys=True)
        for l in lines:
            print(l)
        summary = "%s %s: %d rule(s), %d obligation(s), %d violation(s), %d known, %d unproved, %.1fs" % (
            self.prop, self.tier, len(self.rules), self.obligations,
            len(self.violations), len(self.known_hits), len(self.unproved), wall)
        print(summary)
        for rid in sorted(self.rules):
            r = self.rules[rid]
            print("  %-10s %5d instance(s) %3d violation(s)  %s" % (
                rid, r["instances"], r["violations"], r["desc"][:90]))
        if self.broken:
            for b in self.broken:
                print("ANALYSIS-BROKEN property=%s: %s" % (self.prop, b))
            # a concrete violating construct was still exhibited: report it
            return 1 if self.violations else 2
        return 1 if self.violations else 0
