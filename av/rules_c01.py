"""C01 - AEAD encryption computes the ASCON v1.2 function.

Decided, for every enumerated public shape (associated-data length, plaintext
length, chunking) and *every* key, nonce, associated data and plaintext value
of that shape: the ciphertext and tag produced by the one-shot, incremental
and masked entry points of ASCON-128, ASCON-128a and ASCON-80pq equal the
ASCON v1.2 specification, with the permutation treated as an uninterpreted
function (its own correctness is C08 / C18), and the reported length is
mlen + 16.  The comparison is an identity of GF(2)-affine bit expressions
(av/sponge.py); no library code is executed.
Undecided: lengths beyond the enumerated shapes (the block loops are uniform,
but that induction is not mechanised); the masked permutation itself (C10).
"""
from . import affine, modes, repo, report, sponge
from .affine import Unsupported, const_bits

LEVEL = "other"
MANIFEST = {
    "text": "decides, for each enumerated shape (quick: AD lengths 0/1/8/17 x plaintext lengths 0..33 sampled; "
            "thorough: AD 0..18 and block boundaries up to 129, plaintext 0..34 and block boundaries up to 4099, "
            "several chunkings) and all key/nonce/data values of that shape, that one-shot, incremental (incl. "
            "multi-packet sessions under nonce+i), masked (fresh and re-randomised key objects, every value of "
            "the masking randomness) encryption of ASCON-128/128a/80pq return exactly the ciphertext and tag of "
            "the ASCON v1.2 specification (permutation as uninterpreted function; its rounds are proved under "
            "C08.D1 / C18.D5 / C10.D5-D6) and report mlen + 16; D2: no zero-extended 32-bit mask truncates a "
            "size_t length; the C++ wrappers forward to these functions (C17.D2); other lengths are covered only "
            "by the uniformity of the block loops",
    "note": "abstract interpretation of the LLVM IR over GF(2)-affine bit expressions with the permutation as a "
            "function symbol; specification oracle validated against the 7164 published KAT vectors "
            "(tools/validate_oracle.py); trusted: clang lowering, irdump, the interpreter",
    "technique": "GF(2)-affine abstract interpretation with uninterpreted permutation symbols, expression "
                 "identity against a specification oracle, bounded over public shapes",
    "engines": ["irdump", "av"],
}

ALGS = {"128": ("ascon128", 16), "128a": ("ascon128a", 16), "80pq": ("ascon80pq", 20)}


def shapes(tier):
    if tier == "quick":
        ad = (0, 1, 8, 17)
        ml = (0, 1, 7, 8, 9, 16, 17, 33)
    else:
        ad = tuple(range(0, 19)) + (24, 31, 32, 33, 64, 129)
        ml = tuple(range(0, 35)) + (40, 49, 63, 64, 65, 127, 128, 129, 255, 1000)
        return [(a, m) for a in ad for m in ml] + [(0, 4099), (5, 4099), (4099, 0), (4099, 17), (1000, 1000)]
    return [(a, m) for a in ad for m in ml]


def _inlined_module(js):
    """the inlined view (file-local helpers inlined into their callers) of a lowered module"""
    import os
    from . import ir as _ir
    out = js[:-5] + ".inlined.json"
    if not os.path.exists(out):
        repo.run([repo.IRDUMP, "--inline-internal", os.path.join(os.path.dirname(js), "linked.opt.ll"), out])
    return _ir.Module.load(out)


def run(rep, tier):
    rep.explanation = (
        "For each back-end family (64-bit words, bit-interleaved, direct / generic byte access) the IR of the "
        "AEAD entry points is interpreted with symbolic key, nonce, AD and plaintext; every ascon_permute call "
        "becomes a function symbol shared with the specification transcription; ciphertext, tag and reported "
        "length are compared as expressions.")
    rep.undecided = "lengths beyond the enumerated shapes; the masked permutation's non-linear part"
    rep.rule("C01.M", "one-shot / incremental / masked encryption equals the ASCON v1.2 specification for every value of the shape")
    prep = modes.prepare(tier)
    items = []
    for js, cname, layout, maxs, units in prep:
        rep.configs.append(cname)
        rep.units.update(units)
        for alg in ALGS:
            for fam in ("oneshot", "incremental", "masked", "multipacket", "masked-rerandomized"):
                sh = shapes(tier)
                if fam == "masked" and tier == "quick":
                    sh = [(0, 0), (1, 9), (8, 16), (17, 33)]
                if fam == "masked" and tier != "quick":
                    sh = [(a, m) for (a, m) in sh if a in (0, 1, 8, 9, 17, 33) and (m <= 34 or m in (129, 1000))]
                if fam == "masked-rerandomized":
                    sh = [(0, 0), (1, 9)] if tier == "quick" else [(0, 0), (1, 9), (8, 16), (17, 33)]
                if fam == "multipacket":
                    # (adlen, mlen) of the first packet; the following packets are fixed (see check_shape)
                    sh = [(0, 0), (1, 3), (8, 16), (3, 17)] if tier == "quick" else \
                        [(a, n) for a in (0, 5, 16) for n in (0, 1, 7, 8, 9, 15, 16, 17, 33)]
                for k in range(0, len(sh), 8):
                    items.append((js, cname, layout, maxs, alg, fam, sh[k:k + 8], tier))
    for d in modes.parallel(items, _worker):
        rep.merge(d)
    rep.floor_discharged("C01.M", (60 if tier == "quick" else 2000) * len(prep))
    # D2 (structural, all lengths): the lengths that drive the block loops keep their full width
    from . import widths
    rep.rule("C01.D2", "length arithmetic in the library keeps the full width of size_t (no zero-extended 32-bit mask)")
    for js, cname, layout, maxs, units in prep:
        widths.rule(rep, "C01.D2", _inlined_module(js), cname, files=("/src/aead/", "/src/core/"), inlined=True)
    widths.control(rep, "C01.D2")


def _worker(item):
    js, cname, layout, maxs, alg, fam, shapes_, tier = item
    r = report.Report("C01", tier)
    r._known = []
    m = modes.load_module(js)
    for (adlen, mlen) in shapes_:
        try:
            bad = check_shape(m, layout, maxs, alg, fam, adlen, mlen)
        except Unsupported as e:
            r.unproved_item("C01.M", "%s %s %s ad=%d m=%d: %s" % (cname, alg, fam, adlen, mlen, e))
            continue
        except Exception as e:     # interpreter bug: analysis broken, never a verdict
            import traceback
            r.broken.append("C01.M %s %s %s ad=%d m=%d: %s" % (cname, alg, fam, adlen, mlen, traceback.format_exc()[-600:]))
            continue
        fn = "%s_%s" % (ALGS[alg][0], {"oneshot": "aead_encrypt", "incremental": "aead_encrypt_block", "masked": "masked_aead_encrypt",
                                "multipacket": "aead_start", "masked-rerandomized": "masked_aead_encrypt"}[fam])
        if bad:
            f = m.funcs.get(fn)
            r.violation("C01.M", "%s:%s" % (fn, bad[0]), f.src if f else fn,
                        "%s (%s) differs from the ASCON v1.2 specification for associated data of %d byte(s) and "
                        "plaintext of %d byte(s): %s" % (fn, fam, adlen, mlen, bad[1]), config=cname,
                        detail={"adlen": adlen, "mlen": mlen})
        else:
            r.instance("C01.M", 1, {"config": cname, "function": fn, "adlen": adlen, "mlen": mlen})
    return r.export()


def chunkings(mlen):
    out = [[mlen]]
    if mlen >= 2:
        out.append([1, mlen - 1])
        out.append([mlen // 2, 0, mlen - mlen // 2])
    if mlen >= 10:
        out.append([3, 5, mlen - 8])
    return out


def check_shape(m, layout, maxs, alg, fam, adlen, mlen):
    prefix, klen = ALGS[alg]
    if fam == "oneshot":
        R = modes.Run(m, layout, maxs)
        K, N = R.buf("K", klen), R.buf("N", 16)
        A, M = R.buf("A", adlen), R.buf("M", mlen)
        c, clen = R.out(mlen + 16), R.out(8)
        R.call(prefix + "_aead_encrypt", c, clen, M, mlen, A, adlen, N, K)
        wantC, wantT = R.spec.aead_encrypt(alg, sponge.sym_bytes("K", klen), sponge.sym_bytes("N", 16),
                                           sponge.sym_bytes("A", adlen), sponge.sym_bytes("M", mlen))
        got = R.read(c, mlen + 16)
        d = modes.first_diff(got, tuple(wantC) + tuple(wantT))
        if d:
            return ("output", "ciphertext||tag differs at %s" % d)
        if R.read_int(clen, 8) != mlen + 16:
            return ("clen", "reported length is %s, expected %d" % (R.read_int(clen, 8), mlen + 16))
        return None
    if fam == "incremental":
        for chunks in chunkings(mlen):
            R = modes.Run(m, layout, maxs)
            K, N = R.buf("K", klen), R.buf("N", 16)
            A, M = R.buf("A", adlen), R.buf("M", mlen)
            st = R.obj(R.struct_size(prefix + "_state_t"))
            c, tag = R.out(mlen), R.out(16)
            R.call(prefix + "_aead_init", st, N, K)
            R.call(prefix + "_aead_start", st, A, adlen)
            pos = 0
            for n in chunks:
                R.call(prefix + "_aead_encrypt_block", st, affine.Ptr(M.obj, pos), affine.Ptr(c.obj, pos), n)
                pos += n
            R.call(prefix + "_aead_encrypt_finalize", st, tag)
            wantC, wantT = R.spec.aead_encrypt(alg, sponge.sym_bytes("K", klen), sponge.sym_bytes("N", 16),
                                               sponge.sym_bytes("A", adlen), sponge.sym_bytes("M", mlen))
            d = modes.first_diff(R.read(c, mlen) + R.read(tag, 16), tuple(wantC) + tuple(wantT))
            if d:
                return ("chunks", "with the plaintext split as %s the ciphertext||tag differs at %s" % (chunks, d))
        return None
    if fam in ("masked", "masked-rerandomized"):
        R = modes.Run(m, layout, maxs)
        K, N = R.buf("K", klen), R.buf("N", 16)
        A, M = R.buf("A", adlen), R.buf("M", mlen)
        mk = R.obj(R.struct_size("ascon_masked_key_%s_t" % ("160" if alg == "80pq" else "128")))
        R.call("ascon_masked_key_%s_init" % ("160" if alg == "80pq" else "128"), mk, K)
        if fam == "masked-rerandomized":
            # a key object that was re-masked (twice) still stands for the same key
            R.call("ascon_masked_key_%s_randomize" % ("160" if alg == "80pq" else "128"), mk)
            R.call("ascon_masked_key_%s_randomize" % ("160" if alg == "80pq" else "128"), mk)
            kx = R.out(klen)
            R.call("ascon_masked_key_%s_extract" % ("160" if alg == "80pq" else "128"), mk, kx)
            if R.read(kx, klen) != sponge.sym_bytes("K", klen):
                return ("key", "a masked key that was re-randomised no longer extracts to the original key "
                        "(for every value of the masking randomness)")
        c, clen = R.out(mlen + 16), R.out(8)
        R.call(prefix + "_masked_aead_encrypt", c, clen, M, mlen, A, adlen, N, mk)
        wantC, wantT = R.spec.aead_encrypt(alg, sponge.sym_bytes("K", klen), sponge.sym_bytes("N", 16),
                                           sponge.sym_bytes("A", adlen), sponge.sym_bytes("M", mlen))
        d = modes.first_diff(R.read(c, mlen + 16), tuple(wantC) + tuple(wantT))
        if d:
            return ("output", "ciphertext||tag%s differs at %s (for every value of the masking randomness)" % (
                " computed with a re-randomised key object" if fam == "masked-rerandomized" else "", d))
        if R.read_int(clen, 8) != mlen + 16:
            return ("clen", "reported length is %s" % R.read_int(clen, 8))
        return None
    if fam == "multipacket":
        # one state object, init() once, then start / encrypt_block.. / finalize per packet: packet i must be
        # the specification's result under nonce + i (big-endian increment, src/ascon/aead.h).  The nonce is a
        # constant here (the increment is not GF(2)-affine in a symbolic nonce); key and data stay symbolic.
        for nonce in (bytes(range(16)), bytes(13) + b"\x01\xff\xff", b"\xff" * 16):
            R = modes.Run(m, layout, maxs)
            K = R.buf("K", klen)
            N = R.buf("Nc", 16, symbolic=False, data=nonce)
            st = R.obj(R.struct_size(prefix + "_state_t"))
            R.call(prefix + "_aead_init", st, N, K)
            packets = [(adlen, mlen), (2, 5), (0, 0), (9, 21)]
            nv = int.from_bytes(nonce, "big")
            for k, (al, ml) in enumerate(packets):
                A, M = R.buf("A%d" % k, al), R.buf("M%d" % k, ml)
                c, tag = R.out(ml), R.out(16)
                R.call(prefix + "_aead_start", st, A, al)
                pos = 0
                for n in ([ml] if ml < 2 else [1, ml - 1]):
                    R.call(prefix + "_aead_encrypt_block", st, affine.Ptr(M.obj, pos), affine.Ptr(c.obj, pos), n)
                    pos += n
                R.call(prefix + "_aead_encrypt_finalize", st, tag)
                nk = ((nv + k) % (1 << 128)).to_bytes(16, "big")
                wantC, wantT = R.spec.aead_encrypt(alg, sponge.sym_bytes("K", klen), sponge.cbytes(nk),
                                                   sponge.sym_bytes("A%d" % k, al), sponge.sym_bytes("M%d" % k, ml))
                d = modes.first_diff(R.read(c, ml) + R.read(tag, 16), tuple(wantC) + tuple(wantT))
                if d:
                    return ("packet", "packet %d of a multi-packet session (packet lengths %s, initial nonce %s): "
                            "ciphertext||tag differs from the specification under nonce+%d at %s" % (
                                k + 1, [p[1] for p in packets], nonce.hex(), k, d))
        return None
    raise ValueError(fam)
