"""C02 - decryption inverts, rejects every forgery, wipes plaintext on failure.

  D1  length guard: every one-shot decrypt function returns a negative
      constant when clen < 16 before touching m, *mlen or c
  D2  the verdict is the tag check: on every other path the returned value is
      the result of ascon_aead_check_tag (incremental: *_decrypt_finalize;
      ascon_mac_verify likewise)
  D3  every ascon_aead_check_tag call site compares 16 bytes; in one-shot
      functions the plaintext pointer is the m parameter, the wiped length is
      the value stored to *mlen, the received tag is c + *mlen and the other
      tag is a local computed by the function
  D4  ascon_aead_check_tag itself: both loops cover their whole range with
      stride 1 (scalar evolution), the accumulator transfer function is
      acc' = acc | (a ^ b) for all byte pairs, the verdict is 0 exactly when
      the accumulator is 0 (all 256 values), every plaintext byte is ANDed
      with all-ones on success and zero on failure, no early exit
  D5  order in two-pass modes: SIV recomputes the tag over the decrypted
      plaintext (keystream pass precedes the absorb of m precedes the check);
      ISAP authenticates the ciphertext before the keystream pass
Undecided: decrypt(encrypt(x)) == x and rejection of every modified input as
functional statements about the cipher.
"""
import re

from . import ceval, facts, ir, ptr, repo

LEVEL = "other"
MANIFEST = {
    "text": "decides the structural clauses D1-D5 for all 12 one-shot decrypt functions (plain, masked, SIV, "
            "ISAP), the 3 incremental finalize functions and ascon_mac_verify: short-input guard before any "
            "access, verdict = tag comparison result, comparison over the full 16-byte tag and wipe over the full "
            "plaintext, a proof of the comparison routine itself (loop coverage by scalar evolution, exhaustive "
            "accumulator / verdict / mask transfer functions, single loop exit), the order of the two-pass modes; "
            "and D6, per enumerated shape and for all key/nonce/data values: decrypt(encrypt(m)) = m with success "
            "for one-shot / incremental / masked / in-place decryption and for receiver sessions that reuse one "
            "state across packets, an independent tag is rejected with -1 and the plaintext buffer is wiped; D7 "
            "(all lengths) the masked AEAD handles its state with primitives of one share count between conversions; that "
            "every modified input is rejected is a property of the cipher's strength and is not decided",
    "note": "trusted: clang lowering, irdump, LLVM scalar evolution; `*mlen` re-loads are identified with the "
            "value stored to *mlen (no other store to it exists in the function - checked)",
    "technique": "guard dominance and def-use checks on LLVM IR, argument provenance, scalar-evolution loop "
                 "facts, value-set abstract interpretation over byte domains",
    "engines": ["irdump", "asconfacts", "av"],
}

CHECK = "ascon_aead_check_tag"
TAG = 16


def configs(tier):
    if tier == "quick":
        return [repo.Config("c64"), repo.Config("asm", 4, 1, 4)]
    return [repo.Config(b) for b in repo.BACKENDS] + [repo.Config("asm", 4, 1, 4), repo.Config("c64", 2, 1, 2),
                                                      repo.Config("c32", 3, 3, 3), repo.Config("asm", 4, 4, 4)]


def run(rep, tier):
    rep.explanation = (
        "For every public function whose name ends in _decrypt (signature m, mlen, c, clen, ...) the guard, "
        "the *mlen store, the tag-check call and the return value are related by dominance and def-use; "
        "ascon_aead_check_tag is verified by scalar evolution and exhaustive byte-domain evaluation.")
    rep.undecided = "decrypt(encrypt(x)) == x; every forgery changes the recomputed tag (cipher properties)"
    builds = repo.configure_many(configs(tier))
    api = facts.public_c_api(builds[0])
    for r, d in (("C02.D1", "short-input guard returns a negative constant before any access"),
                 ("C02.D2", "the returned verdict is the tag comparison result"),
                 ("C02.D3", "tag comparison covers 16 bytes; wipe covers the whole plaintext; received tag is c + *mlen"),
                 ("C02.D4", "ascon_aead_check_tag: full coverage, constant-flow accumulator, exact verdict and mask"),
                 ("C02.D5", "two-pass modes recompute / authenticate in the safe order")):
        rep.rule(r, d)
    first = True
    for b in builds:
        lr = repo.lower(b, group="lib", level="O0", langs=("c",), scev=True)
        m = ir.Module.load(lr.json)
        rep.configs.append(b.cfg.name)
        rep.units.update(lr.units)
        n = 0
        for name, decl in sorted(api.items()):
            if not name.endswith("_decrypt"):
                continue
            pn = [p["name"] for p in decl["params"]]
            if pn[:4] != ["m", "mlen", "c", "clen"]:
                continue
            f = m.funcs.get(name)
            if f is None or f.decl:
                raise repo.AnalysisBroken("%s not defined in %s" % (name, b.cfg.name))
            n += 1
            rep.functions += 1
            check_oneshot(rep, m, f, b.cfg.name)
        if n < 12:
            rep.broken.append("only %d one-shot decrypt functions found in %s" % (n, b.cfg.name))
        check_sites(rep, m, b.cfg.name)
        rule_compare(rep, m, b.cfg.name)
        if b.cfg.backend != "asm":
            # masked decryption can only invert masked / plain encryption for every length if the state keeps one share
            # form between conversions (all lengths; the bounded shapes of D6 stop below the first long-message code path)
            from . import rules_c10
            ks, ds, _ms = rules_c10.effective_shares(b)
            rep.rule("C02.D7", "masked AEAD: the state is handled by primitives of one share count between conversions (all lengths)")
            lri = repo.lower(b, group="lib", level="O0", langs=("c",), scev=True, inline_internal=True)
            rules_c10.rule_share_form(rep, ir.Module.load(lri.json), b.cfg.name, ks, ds, rid="C02.D7")
    rule_inverse(rep, tier)
    k = len(builds)
    rep.floor("C02.D1", 12 * k)
    rep.floor("C02.D2", 16 * k)
    rep.floor("C02.D3", 16 * k)
    rep.floor("C02.D4", 5 * k)
    rep.floor("C02.D5", 3 * k)


def _mlen_value(f, v, mlenp, stored):
    """is v the value of *mlen (the stored SSA value or a re-load of *mlen)?"""
    if not isinstance(v, str):
        return False
    if v in stored:
        return True
    d = f.defs.get(v) if ir.is_local(v) else None
    if d is not None and d.op == "load" and d.ops[0] == mlenp:
        return True
    return False


def check_oneshot(rep, m, f, cname):
    name = f.name
    R = ptr.resolver(f)
    mp, mlenp, cp, clen = f.params[0], f.params[1], f.params[2], f.params[3]
    # ---- D1
    entry = f.blocks[0]
    t = entry.term
    guard_ok = False
    T = None
    ok_succ = None
    if t.op == "br" and t.ops and len(t.succs) == 2:
        c = f.defs.get(t.ops[0]) if ir.is_local(t.ops[0]) else None
        if c is not None and c.op == "icmp" and c.ops[0] == clen and ir.const_int(c.ops[1]) is not None:
            k = ir.const_int(c.ops[1])
            p = c.d["pred"]
            if p == "ult":
                T, fail, ok_succ = k, t.succs[0], t.succs[1]
            elif p == "ule":
                T, fail, ok_succ = k + 1, t.succs[0], t.succs[1]
            elif p == "uge":
                T, fail, ok_succ = k, t.succs[1], t.succs[0]
            elif p == "ugt":
                T, fail, ok_succ = k + 1, t.succs[1], t.succs[0]
            if T is not None:
                fb = f.bmap[fail]
                # the failing successor must return a negative constant without side effects
                rets = _return_consts_from(f, fb)
                touched = any(i.op in ("store", "call") for i in fb.insts if not (i.op == "call" and (i.callee or "").startswith("llvm.")))
                pre = any(i.op in ("store", "load", "call") and not (i.op == "call" and (i.callee or "").startswith("llvm."))
                          for i in entry.insts[:-1])
                if rets and all(r is not None and r < 0 for r in rets) and not touched and not pre:
                    guard_ok = True
    if not guard_ok:
        rep.violation("C02.D1", name + ":guard", f.src,
                      "%s does not start with a `clen < tag size` guard that returns a negative constant before "
                      "touching m, *mlen or c" % name, config=cname)
    elif T != TAG:
        rep.violation("C02.D1", name + ":threshold", entry.term.where(),
                      "%s rejects inputs shorter than %d bytes, but the tag is %d bytes" % (name, T, TAG), config=cname)
    else:
        rep.instance("C02.D1", 1, {"config": cname, "function": name, "threshold": T})
    # ---- the *mlen store
    stored = set()
    bad_store = None
    for i in f.insts():
        if i.op == "store" and R.resolve(i.ops[1]).single() == ("param", mlenp):
            v = i.ops[0]
            d = f.defs.get(v) if ir.is_local(v) else None
            good = False
            if d is not None and d.op in ("add", "sub") and d.ops[0] == clen:
                k = ir.const_int(d.ops[1])
                if (d.op == "sub" and k == TAG) or (d.op == "add" and k == -TAG):
                    good = True
            if good:
                stored.add(v)
            else:
                bad_store = i
    if bad_store is not None or not stored:
        rep.violation("C02.D3", name + ":mlen", (bad_store.where() if bad_store else f.src),
                      "%s does not report the plaintext length as clen - %d" % (name, TAG), config=cname)
    # ---- D2 / D3
    sites = [c for c in f.calls(CHECK)]
    if len(sites) != 1:
        rep.violation("C02.D2", name + ":no-check", f.src, "%s has %d tag comparisons" % (name, len(sites)), config=cname)
        return
    chk = sites[0]
    ok2 = True
    for b in f.blocks:
        tt = b.term
        if tt.op != "ret" or not tt.ops:
            continue
        v = tt.ops[0]
        d = f.defs.get(v) if ir.is_local(v) else None
        contribs = [(v, b.name)]
        if d is not None and d.op == "phi":
            contribs = list(d.d["inc"])
        for val, frm in contribs:
            c = ir.const_int(val)
            if c is not None:
                if not (c < 0 and ok_succ is not None and frm not in f.reachable_from(f.bmap[ok_succ])):
                    ok2 = False
                    rep.violation("C02.D2", name + ":constant-verdict", tt.where(),
                                  "%s returns the constant %d on a path past the length guard, independent of the tag "
                                  "comparison" % (name, c), config=cname)
            elif val != chk.id:
                ok2 = False
                rep.violation("C02.D2", name + ":verdict", tt.where(),
                              "%s returns a value that is not the result of %s" % (name, CHECK), config=cname)
    if ok2:
        rep.instance("C02.D2", 1, {"config": cname, "function": name})
    pt, plen, t1, t2, size = chk.ops[:5]
    problems = []
    if ir.const_int(size) != TAG:
        problems.append("compares %s byte(s) of the tag instead of %d" % (ir.const_int(size), TAG))
    wipe_elsewhere = (pt == "null" or ir.const_int(pt) == 0) and ir.const_int(plen) == 0
    if wipe_elsewhere:
        # the comparator is asked to wipe nothing: whether the plaintext is cleared on failure is then decided
        # behaviourally by C02.D6 (forged tag, in place and out of place), not by this argument rule
        rep.unproved_item("C02.D3", "%s (%s): the comparison is not given the plaintext buffer to wipe" % (name, cname))
    elif pt != mp:
        problems.append("the buffer wiped on failure is not the m parameter")
    elif not _mlen_value(f, plen, mlenp, stored):
        problems.append("the wiped length is not the plaintext length stored to *mlen")
    recv = None
    for tv in (t1, t2):
        g = f.defs.get(tv) if ir.is_local(tv) else None
        if g is not None and g.op == "getelementptr" and g.ops[0] == cp and len(g.d["terms"]) == 1 and g.d["coff"] == 0 \
                and g.d["terms"][0][0] == 1 and _mlen_value(f, g.d["terms"][0][1], mlenp, stored):
            recv = tv
    if recv is None:
        problems.append("neither tag operand is c + *mlen (the received tag)")
    else:
        other = t2 if recv == t1 else t1
        root = R.resolve(other).single()
        if root is None or root[0] != "alloca":
            problems.append("the tag compared with the received one is not a local computed by the function")
    if problems:
        rep.violation("C02.D3", name + ":check-args", chk.where(), "%s: %s" % (name, "; ".join(problems)), config=cname)
    else:
        rep.instance("C02.D3", 1, {"config": cname, "function": name, "size": TAG})
    # ---- D5
    if "_siv_" in name:
        ks = [c for c in f.calls() if c is not chk and mp in c.ops and c.ops.index(mp) >= 1 and
              re.search(r"encrypt", c.callee or "")]
        ab = [c for c in f.calls() if c is not chk and mp in c.ops and re.search(r"absorb", c.callee or "")]
        if len(ks) == 1 and len(ab) == 1 and f.dominates(ks[0], ab[0]) and f.dominates(ab[0], chk):
            rep.instance("C02.D5", 1, {"config": cname, "function": name, "order": "keystream, absorb(m), check"})
        else:
            # another factoring (e.g. a helper that owns the authentication pass): the behaviour - genuine packets accepted
            # and decrypted, also in place; forged ones rejected and wiped - is decided by C02.D6
            rep.unproved_item("C02.D5", "%s (%s): keystream pass / absorb of m / comparison not recognised in this shape" % (name, cname))
    if "_isap_" in name:
        mac = [c for c in f.calls() if c is not chk and cp in c.ops and mp not in c.ops and
               any(R.resolve(a).single() == R.resolve(t1 if recv == t2 else t2).single() for a in c.ops if ir.is_local(a))]
        dec = [c for c in f.calls() if c is not chk and mp in c.ops and cp in c.ops]
        # the tag is computed over the ciphertext before any keystream pass may overwrite it (m may equal c);
        # whether the comparison comes before or after the keystream pass does not matter for that
        if len(mac) == 1 and all(f.dominates(mac[0], d) for d in dec):
            rep.instance("C02.D5", 1, {"config": cname, "function": name, "order": "mac(c) before every keystream pass"})
        else:
            rep.unproved_item("C02.D5", "%s (%s): MAC over the ciphertext before the keystream pass not recognised in this shape "
                              "(in-place decryption of genuine packets is decided by C02.D6)" % (name, cname))


def _return_consts_from(f, b):
    """constants returned when control enters block b (following unconditional branches)"""
    seen = set()
    prev = None
    while b.name not in seen:
        seen.add(b.name)
        t = b.term
        if t.op == "ret":
            if not t.ops:
                return []
            v = t.ops[0]
            d = f.defs.get(v) if ir.is_local(v) else None
            if d is not None and d.op == "phi" and prev is not None:
                for val, frm in d.d["inc"]:
                    if frm == prev:
                        return [ir.const_int(val)]
                return [None]
            return [ir.const_int(v)]
        if t.op == "br" and not t.ops:
            prev = b.name
            b = f.bmap[t.succs[0]]
            continue
        return [None]
    return [None]


def check_sites(rep, m, cname):
    """incremental finalize functions and MAC verification"""
    for f in m.defined():
        if f.name.endswith("_decrypt") or f.name == CHECK:
            continue
        for chk in f.calls(CHECK):
            rep.functions += 1
            size = ir.const_int(chk.ops[4])
            name = f.name
            if size != TAG:
                rep.violation("C02.D3", name + ":check-args", chk.where(),
                              "%s compares %s byte(s) of the tag instead of %d" % (name, size, TAG), config=cname)
            else:
                rep.instance("C02.D3", 1, {"config": cname, "function": name, "size": size})
            # D2: returned value is the comparison result
            ok = True
            for b in f.blocks:
                t = b.term
                if t.op == "ret" and t.ops and t.ops[0] != chk.id:
                    ok = False
            if ok:
                rep.instance("C02.D2", 1, {"config": cname, "function": name})
            else:
                rep.violation("C02.D2", name + ":verdict", f.src,
                              "%s does not return the result of %s unchanged" % (name, CHECK), config=cname)


# ---------------------------------------------------------------------------
def rule_compare(rep, m, cname):
    """the shape proof below is tried on a scratch report; anything it would flag is confirmed with a concrete
    witness (equal tags, all 128 single-bit differences) before it becomes a violation, otherwise it is unproved:
    a mis-recognised loop shape must never raise an alarm"""
    from . import report as _report
    probe = _report.Report("C02", "quick")
    probe._known = []
    for r in rep.rules:
        probe.rule(r, "")
    _rule_compare_shape(probe, m, cname)
    rid = "C02.D4"
    if probe.violations:
        f = m.funcs.get(CHECK)
        _refute_or_unproved(rep, rid, m, f, cname, "shape proof inconclusive: " + probe.violations[0]["message"][:160])
        return
    rep.merge(probe.export())


def _rule_compare_shape(rep, m, cname):
    rid = "C02.D4"
    f = m.funcs.get(CHECK)
    if f is None or f.decl:
        raise repo.AnalysisBroken(CHECK + " not defined")
    rep.functions += 1
    R = ptr.resolver(f)
    pt, plen, t1, t2, size = f.params[:5]
    loops = f.d.get("loops", [])
    if len(loops) != 2:
        _refute_or_unproved(rep, rid, m, f, cname, "%d loops instead of a byte-wise compare loop and a mask loop" % len(loops))
        return
    cmp_loop = mask_loop = None
    for lp in loops:
        blocks = set(lp["blocks"])
        loads = [i for i in f.insts() if i.op == "load" and i.block.name in blocks]
        roots = set()
        for i in loads:
            for r in R.resolve(i.ops[0]).roots:
                roots.add(r)
        if ("param", t1) in roots and ("param", t2) in roots:
            cmp_loop = lp
        elif ("param", pt) in roots:
            mask_loop = lp
    if cmp_loop is None or mask_loop is None:
        _refute_or_unproved(rep, rid, m, f, cname, "compare / mask loops not identified")
        return
    # --- coverage: trip counts and strides
    def covers(lp, count_param, ptr_params):
        if len(lp.get("exiting", [])) != 1:
            return "the loop has %d exits (an early exit leaks the position of the first difference)" % len(lp.get("exiting", []))
        btc = lp.get("btc", "")
        want = ("%" + f.param_names[f.params.index(count_param)])
        if want not in btc and count_param not in btc:
            return "trip count %r does not depend on %s" % (btc, want)
        if not re.fullmatch(r"\(?-?1? ?\+? ?%s\)?|%s" % (re.escape(count_param), re.escape(count_param)), btc.replace(want, count_param)) \
                and btc.replace(want, count_param) not in (count_param, "(-1 + %s)" % count_param):
            return "trip count %r is not the full length" % btc
        for rec in lp.get("scev", []):
            if rec[1] in ("load", "store"):
                mm = re.search(r"\{%(\w+),\+,(-?\d+)\}", rec[2])
                if not mm or int(mm.group(2)) != 1:
                    return "pointer recurrence %r is not base + 1 per iteration" % rec[2]
        return None
    for lp, cnt, what in ((cmp_loop, size, "compare"), (mask_loop, plen, "mask")):
        why = covers(lp, cnt, None)
        if why:
            rep.violation(rid, "check_tag:%s-coverage" % what, f.src, "%s loop of %s: %s" % (what, CHECK, why), config=cname)
        else:
            rep.instance(rid, 1, {"config": cname, "loop": what, "trip_count": lp.get("btc")})
    # --- accumulator transfer function
    blocks = set(cmp_loop["blocks"])
    hdr = f.bmap[cmp_loop["header"]]
    acc = None
    for i in hdr.insts:
        if i.op == "phi" and i.ty in ("i32", "i8", "i64", "i16"):
            init = [ir.const_int(v) for v, p in i.d["inc"] if p not in blocks]
            if init and init[0] == 0:
                latch = [v for v, p in i.d["inc"] if p in blocks][0]
                acc = (i, latch)
    lds = [i for i in f.insts() if i.op == "load" and i.block.name in blocks]
    if acc is None or len(lds) != 2:
        rep.violation(rid, "check_tag:accumulator", f.src, "no accumulator initialised to 0 / %d loads in the compare loop" % len(lds),
                      config=cname)
        return
    accphi, latch = acc
    order = [bb for bb in f.rpo() if bb.name in blocks]
    bad = None
    for a0 in (0, 1, 0x80, 0xff):
        for x in range(256):
            for y in (x, x ^ 1, x ^ 0x80, (x + 1) & 0xff, 0, 0xff):
                env = {accphi.id: a0, lds[0].id: x, lds[1].id: y}
                for bb in order:
                    for i in bb.insts:
                        if i.id and i.id not in env and i.op not in ("phi", "load", "call", "getelementptr"):
                            v = ceval.step(i, env)
                            if v is not None:
                                env[i.id] = v
                got = ceval.value(env, latch)
                if got is None:
                    rep.unproved_item(rid, "accumulator transfer function not evaluable")
                    return
                want = a0 | (x ^ y)
                if (got & 0xffffffff) != want and bad is None:
                    bad = (a0, x, y, got, want)
    if bad:
        rep.violation(rid, "check_tag:accumulate", f.src,
                      "accumulator update for (acc=%#x, a=%#x, b=%#x) gives %#x, expected acc | (a ^ b) = %#x" % bad, config=cname)
    else:
        rep.instance(rid, 1, {"config": cname, "accumulator": "acc | (a ^ b)", "cases": 4 * 256 * 6})
    # --- verdict and mask as functions of the final accumulator
    mblocks = set(mask_loop["blocks"])
    mst = [i for i in f.insts() if i.op == "store" and i.block.name in mblocks]
    mld = [i for i in f.insts() if i.op == "load" and i.block.name in mblocks]
    rets = [b.term for b in f.blocks if b.term.op == "ret"]
    if len(mst) != 1 or len(mld) != 1 or len(rets) != 1:
        rep.violation(rid, "check_tag:mask-shape", f.src, "mask loop has %d stores / %d loads" % (len(mst), len(mld)), config=cname)
        return
    # value of the accumulator after the compare loop: the header phi (loop-closed)
    allb = f.rpo()
    badv = badm = None
    for a in range(256):
        for pbyte in (0x00, 0x5a, 0xff):
            env = {accphi.id: a, mld[0].id: pbyte}
            for bb in allb:
                if bb.name in blocks:
                    continue
                for i in bb.insts:
                    if i.id and i.id not in env and i.op not in ("phi", "load", "call", "getelementptr"):
                        v = ceval.step(i, env)
                        if v is not None:
                            env[i.id] = v
            rv = ceval.value(env, rets[0].ops[0])
            mv = ceval.value(env, mst[0].ops[0])
            if rv is None or mv is None:
                rep.unproved_item(rid, "verdict / mask not evaluable from the accumulator")
                return
            rv = ceval.sgn(rv, 32)
            want_r = 0 if a == 0 else -1
            want_m = pbyte if a == 0 else 0
            if rv != want_r and badv is None:
                badv = (a, rv, want_r)
            if (mv & 0xff) != want_m and badm is None:
                badm = (a, pbyte, mv & 0xff, want_m)
    if badv:
        rep.violation(rid, "check_tag:verdict", rets[0].where(),
                      "with accumulated difference %#x the function returns %d, expected %d" % badv, config=cname)
    else:
        rep.instance(rid, 1, {"config": cname, "verdict": "0 iff accumulator == 0 (256 values)"})
    if badm:
        rep.violation(rid, "check_tag:mask", mst[0].where(),
                      "with accumulated difference %#x a plaintext byte %#x becomes %#x, expected %#x" % badm, config=cname)
    else:
        rep.instance(rid, 1, {"config": cname, "mask": "plaintext kept iff accumulator == 0"})


def rule_inverse(rep, tier):
    """D6 (bounded): for every key / nonce / data value of the enumerated
    shapes, decrypting the specification's ciphertext returns success and the
    original plaintext (one-shot, incremental, masked), and an unrelated tag is
    rejected with -1 and a wiped plaintext - mode-level symbolic comparison with
    the permutation uninterpreted (av/sponge.py).  SIV and ISAP inverses are
    part of the C06 cases."""
    from . import modecheck, modes
    rid = "C02.D6"
    rep.rule(rid, "decrypt(encrypt(m)) = m with success; unrelated tag rejected and plaintext wiped (bounded shapes)")
    prep = modes.prepare(tier)
    shapes = [(0, 0), (1, 1), (8, 9), (17, 33)] if tier == "quick" else [(a, n) for a in (0, 1, 7, 8, 9, 16, 17, 33) for n in tuple(range(0, 35)) + (63, 64, 65, 129, 1000)]
    cases = []
    for js, cname, layout, maxs, units in prep:
        if cname not in rep.configs:
            rep.configs.append(cname)
        for alg in ("128", "128a", "80pq"):
            for fam in ("oneshot", "incremental", "masked"):
                for (a, n) in shapes:
                    cases.append((js, cname, layout, "case_aead_decrypt", (alg, fam, a, n),
                                  "%s %s ad %d message %d" % (alg, fam, a, n),
                                  "ascon%s_%s" % (alg, {"oneshot": "aead_decrypt", "incremental": "aead_decrypt_finalize",
                                                        "masked": "masked_aead_decrypt"}[fam])))
            for (a, n) in ([(0, 0), (1, 3), (8, 17)] if tier == "quick" else [(a, n) for a in (0, 5) for n in (0, 1, 7, 8, 9, 17, 33)]):
                cases.append((js, cname, layout, "case_aead_decrypt_session", (alg, a, n),
                              "%s session first packet ad %d message %d" % (alg, a, n), "ascon%s_aead_start" % alg))
            for fam in ("aead", "masked", "siv", "isap"):
                for inplace in (False, True):
                    for (a, n) in ([(1, 9)] if tier == "quick" else [(0, 1), (1, 9), (9, 17), (17, 40)]):
                        cases.append((js, cname, layout, "case_forgery_wipe", (fam, alg, a, n, inplace),
                                      "%s %s forged tag ad %d message %d %s" % (alg, fam, a, n, "in place" if inplace else "out of place"),
                                      "ascon%s_%s_decrypt" % (alg, {"aead": "aead", "masked": "masked_aead", "siv": "siv", "isap": "isap_aead"}[fam])))
                        cases.append((js, cname, layout, "case_forgery_wipe", (fam, alg, a, n, inplace, True),
                                      "%s %s genuine packet ad %d message %d %s" % (alg, fam, a, n, "in place" if inplace else "out of place"),
                                      "ascon%s_%s_decrypt" % (alg, {"aead": "aead", "masked": "masked_aead", "siv": "siv", "isap": "isap_aead"}[fam])))
    for d in modecheck.run_cases("C02", rid, tier, cases, None):
        rep.merge(d)
    rep.floor_discharged(rid, int(0.9 * len(cases)))


def _refute_or_unproved(rep, rid, m, f, cname, why):
    """The comparison routine does not have the shape the proof rule knows.
    No alarm is raised for that alone; the routine is evaluated (constant
    propagation through the IR, av/affine.Machine) on equal tags and on all
    128 single-bit tag differences - a wrong verdict there is a concrete
    refutation and is reported with its witness; otherwise the obligations are
    recorded as unproved."""
    from .affine import Machine, Unsupported, const_bits, to_int
    from .sponge import cbytes
    base = bytes(range(0x10, 0x20))
    witness = None
    try:
        cases = [None] + list(range(128))
        # multi-bit differences inside one byte (accumulator / verdict arithmetic), and in all bytes at once
        for byte in range(16):
            for dv in (0x81, 0xff, 0x55, 0xaa, 0x7f, 0xfe, 0x03, 0xc0):
                cases.append((byte, dv))
        cases.append(("all", 0xff))
        cases.append(("all", 0x01))
        for bit in cases:
            mc = Machine(m)
            t1 = mc.new_obj("t1", 16, symbolic=False)
            t2 = mc.new_obj("t2", 16, symbolic=False)
            pt = mc.new_obj("pt", 4, symbolic=False)
            other = bytearray(base)
            desc = None
            if isinstance(bit, tuple):
                if bit[0] == "all":
                    for k in range(16):
                        other[k] ^= bit[1]
                    desc = "every byte XORed with %#04x" % bit[1]
                else:
                    other[bit[0]] ^= bit[1]
                    desc = "byte %d XORed with %#04x" % bit
            elif bit is not None:
                other[bit // 8] ^= 1 << (bit % 8)
            mc.store(t1, cbytes(base))
            mc.store(t2, cbytes(bytes(other)))
            mc.store(pt, cbytes(b"\xa5\x5a\xff\x01"))
            r = to_int(mc.call(CHECK, [pt, const_bits(4, 64), t1, t2, const_bits(16, 64)]))
            plain = bytes(to_int(mc.load(pt, 4)[8 * k:8 * k + 8]) for k in range(4))
            if bit is None:
                if r != 0 or plain != b"\xa5\x5a\xff\x01":
                    witness = "identical tags give verdict %s / plaintext %s" % (r, plain.hex())
                    break
            elif r != 0xffffffff or plain != b"\x00" * 4:
                witness = ("tags differing only in %s give verdict %s and plaintext %s (expected -1 and a "
                           "wiped plaintext)" % (desc or "bit %d of byte %d" % (bit % 8, bit // 8),
                                                 "0 (accepted)" if r == 0 else r, plain.hex()))
                break
    except Unsupported as e:
        rep.unproved_item(rid, "%s: %s has an unrecognised shape (%s) and could not be evaluated: %s" % (cname, CHECK, why, e))
        return
    if witness:
        rep.violation(rid, "check_tag:verdict", f.src, "%s: %s" % (CHECK, witness), config=cname)
    else:
        for _ in range(5):
            rep.unproved_item(rid, "%s: %s has an unrecognised shape (%s); equal tags, all 128 single-bit differences and 130 multi-bit differences "
                              "are judged correctly, full proof not available" % (cname, CHECK, why))
