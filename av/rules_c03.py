"""C03 - hash / XOF / cXOF digests.

Decided for every enumerated shape (message length, output length, chunking,
declared output length, function-name and customisation lengths) and every
message value: ASCON-HASH/HASHA/XOF/XOFA one-shot and incremental outputs, the
fixed-output-length variants (32 -> HASH IV, 0 and >= 2^29 -> plain XOF) and
the customised XOF (names up to and beyond 32 bytes) equal the ASCON v1.2
specification / the library's documented cXOF construction, as identities of
bit expressions with the permutation uninterpreted (av/sponge.py); plus D1:
the pre-computed initial states in all three encodings equal P12(IV block).
"""
from . import repo, modecheck, modes, tables

LEVEL = "other"
MANIFEST = {
    "text": "decides, per enumerated shape and for all message values: HASH/HASHA/XOF/XOFA (one-shot, incremental "
            "with chunked absorb and squeeze), fixed-length variants including the 0 / 32 / 2^29 dispatch, and the "
            "customised XOF (empty, short, 32-byte and hashed >32-byte function names; customisation strings) equal "
            "their specification with the permutation uninterpreted, also after *_reinit of a used state; and the pre-computed initial states equal "
            "P12(IV) in every back-end encoding; lengths beyond the enumerated shapes are not decided",
    "note": "specification oracle validated against the published KAT vectors (tools/validate_oracle.py); cXOF "
            "details not fixed by doc/cxof.dox (rounds after the customisation block) follow the KAT vectors",
    "technique": "GF(2)-affine abstract interpretation with uninterpreted permutation symbols against a "
                 "specification oracle; constant-table decoding",
    "engines": ["irdump", "av"],
}


def _inlined_module(js):
    """the inlined view (file-local helpers inlined into their callers) of a lowered module"""
    import os
    from . import ir as _ir
    out = js[:-5] + ".inlined.json"
    if not os.path.exists(out):
        repo.run([repo.IRDUMP, "--inline-internal", os.path.join(os.path.dirname(js), "linked.opt.ll"), out])
    return _ir.Module.load(out)


def run(rep, tier):
    rep.explanation = ("Mode-level symbolic comparison (see av/sponge.py) of the hash / XOF family for enumerated "
                       "shapes, plus decoding of the pre-computed IV tables per back end.")
    rep.undecided = "message / output lengths beyond the enumerated shapes"
    rid = "C03.M"
    rep.rule(rid, "hash / XOF / cXOF output equals the specification for every message value of the shape")
    prep = modes.prepare(tier)
    ml = (0, 1, 7, 8, 9, 17) if tier == "quick" else tuple(range(0, 35)) + (63, 64, 65, 129, 1000)
    ol = (1, 8, 9, 33) if tier == "quick" else (1, 2, 7, 8, 9, 15, 16, 17, 31, 32, 33, 41, 64, 65, 200)
    names = [None, b"", b"KMAC", b"N" * 32, b"L" * 33]
    cases = []
    for js, cname, layout, maxs, units in prep:
        rep.configs.append(cname)
        rep.units.update(units)
        for a in (False, True):
            sfx = "a" if a else ""
            for n in ml:
                cases.append((js, cname, layout, "case_hash", (a, n), "hash%s message %d" % (sfx, n), "ascon_hash" + sfx))
            for n in ml[:4] if tier == "quick" else ml:
                for o in ol:
                    cases.append((js, cname, layout, "case_xof", (a, n, o), "xof%s message %d output %d" % (sfx, n, o),
                                  "ascon_xof%s_squeeze" % sfx))
            for fixed in (0, 1, 16, 32, 33, (1 << 29) - 1, 1 << 29, (1 << 29) + 5, 1 << 31, (1 << 32) - 1, 1 << 32, (1 << 32) + 5,
                          (1 << 32) + 32, (1 << 40) + 64, (1 << 64) - 1):
                cases.append((js, cname, layout, "case_xof_fixed", (a, fixed, 9, 40 if fixed in (32, 33) else 9),
                              "xof%s fixed length %d" % (sfx, fixed), "ascon_xof%s_init_fixed" % sfx))
            for nm in names:
                for cl in ((0, 1, 8, 9) if tier == "quick" else (0, 1, 7, 8, 9, 16, 17, 33)):
                    for fixed in (0, 32, 20, 1 << 29, (1 << 32) + 20):
                        cases.append((js, cname, layout, "case_cxof", (a, nm, cl, 9, 33, fixed),
                                      "cxof%s name %s custom %d declared %d" % (sfx, "NULL" if nm is None else len(nm), cl, fixed),
                                      "ascon_xof%s_init_custom" % sfx))
    # a copied state (taken while absorbing, mid-block, or while squeezing) continues to the specification's digest
    for js, cname, layout, maxs, units in prep:
        for va in (False, True):
            nm = "ascon_xof%s" % ("a" if va else "")
            for (ml, s1, s2, m2) in (((9, 0, 16, 5), (8, 0, 9, 0), (9, 5, 12, 0), (3, 0, 8, 8)) if tier == "quick" else
                                     tuple((ml, s1, s2, m2) for ml in (0, 3, 7, 8, 9, 17) for (s1, m2) in ((0, 0), (0, 5), (0, 8), (3, 0), (8, 0), (13, 0))
                                           for s2 in (1, 8, 19))):
                cases.append((js, cname, layout, "case_xof_copy", (va, ml, s1, s2, m2),
                              "%s copy after absorbing %d, squeezing %d; then +%d in, %d out" % (nm, ml, s1, m2, s2), nm + "_copy"))
    # a re-initialised state gives the specification's digest as a fresh one does
    for js, cname, layout, maxs, units in prep:
        for va in (False, True):
            nm = "ascon_xof%s" % ("a" if va else "")
            for (f, pre, sq) in ((("plain", 8, 0), ("plain", 5, 3), ("fixed", 0, 0), ("custom", 0, 0)) if tier == "quick" else
                                 tuple((f, pre, sq) for f in ("plain", "fixed", "custom") for pre in (0, 5, 8, 16, 64) for sq in (0, 3, 8))):
                cases.append((js, cname, layout, "case_xof_reinit", (va, f, pre, sq, 9, 16),
                              "%s reinit of a %s state after %d in, %d out" % (nm, f, pre, sq), nm + "_reinit"))
    # structural, all lengths: no size_t length loses its upper bits on the way to a bound or an address
    from . import widths
    rep.rule("C03.D2", "length arithmetic keeps the full width of size_t (no 32-bit mask or unguarded narrowing before control/addressing)")
    for js, cname, layout, maxs, units in prep:
        widths.rule(rep, "C03.D2", _inlined_module(js), cname, files=("/src/hash/", "/src/core/"), inlined=True)
    widths.control(rep, "C03.D2")
    for d in modecheck.run_cases("C03", rid, tier, cases, None):
        rep.merge(d)
    rep.floor_discharged(rid, int(0.9 * len(cases)))
    tables.rule_tables(rep, tier, "C03.D1", families=("xof", "xofa", "hash", "hasha"))
