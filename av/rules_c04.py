"""C04 - PRF, MAC, HMAC, KMAC; exact verification.

Decided per enumerated shape and for all key / message values (permutation
uninterpreted): ASCON-Prf (one-shot, fixed, incremental with chunked absorb and
squeeze), ASCON-PrfShort including the refusal of inputs or outputs longer than
16 bytes without touching the output, ASCON-Mac and its verification (correct
tag accepted, unrelated tag rejected with -1), HMAC/HMACA per RFC 2104 with the
64-byte block (keys up to and beyond 64 bytes), KMAC/KMACA as cXOF("KMAC");
plus the pre-computed KMAC initial states in all three encodings.
"""
from . import repo, modecheck, modes, tables

LEVEL = "other"
MANIFEST = {
    "text": "decides, per enumerated shape and for all key/message values: Prf / PrfShort (with its range "
            "refusals) / Mac / verify, HMAC and HMACA (short, 64-byte and longer keys; chunked updates), KMAC and "
            "KMACA (customisation, 32-byte pre-computed path and other output lengths) equal their specifications "
            "with the permutation uninterpreted, and the pre-computed KMAC states equal the specification in every "
            "encoding; the comparison routine itself is proved under C02.D4",
    "note": "oracle validated against the published KAT vectors; tag comparison is modelled on expressions "
            "(identical expressions = equal for all values)",
    "technique": "GF(2)-affine abstract interpretation with uninterpreted permutation symbols against a "
                 "specification oracle; constant-table decoding",
    "engines": ["irdump", "av"],
}


def _inlined_module(js):
    """the inlined view (file-local helpers inlined into their callers) of a lowered module"""
    import os
    from . import ir as _ir
    out = js[:-5] + ".inlined.json"
    if not os.path.exists(out):
        repo.run([repo.IRDUMP, "--inline-internal", os.path.join(os.path.dirname(js), "linked.opt.ll"), out])
    return _ir.Module.load(out)


def run(rep, tier):
    rep.explanation = "Mode-level symbolic comparison (av/sponge.py) of the keyed hash family for enumerated shapes."
    rep.undecided = "lengths beyond the enumerated shapes"
    rid = "C04.M"
    rep.rule(rid, "PRF / MAC / HMAC / KMAC output equals the specification for every key and message value of the shape")
    prep = modes.prepare(tier)
    ml = (0, 1, 31, 32, 33) if tier == "quick" else tuple(range(0, 35)) + (63, 64, 65, 96, 97, 129, 500)
    cases = []
    for js, cname, layout, maxs, units in prep:
        rep.configs.append(cname)
        rep.units.update(units)
        for n in ml:
            for o in ((1, 16, 17, 33) if tier == "quick" else (1, 2, 15, 16, 17, 31, 32, 33, 49, 100)):
                cases.append((js, cname, layout, "case_prf", (n, o), "prf message %d output %d" % (n, o), "ascon_prf"))
            cases.append((js, cname, layout, "case_mac", (n,), "mac message %d" % n, "ascon_mac"))
        for n in (0, 1, 15, 16, 17, 40):
            for o in (0, 1, 16, 17):
                cases.append((js, cname, layout, "case_prf_short", (n, o), "prf_short input %d output %d" % (n, o), "ascon_prf_short"))
        for a in (False, True):
            sfx = "a" if a else ""
            for kl in (0, 1, 32, 63, 64, 65, 100):
                for n in ((0, 9) if tier == "quick" else (0, 1, 9, 33)):
                    cases.append((js, cname, layout, "case_hmac", (a, kl, n), "hmac%s key %d message %d" % (sfx, kl, n), "ascon_hmac" + sfx))
            for kl in ((0, 8, 16, 33) if tier == "quick" else (0, 1, 7, 8, 9, 16, 31, 32, 33, 64, 100)):
                for cl in ((0, 1, 8, 9) if tier == "quick" else (0, 1, 7, 8, 9, 16, 17, 32, 33)):
                    for o in (16, 32, 40):
                        cases.append((js, cname, layout, "case_kmac", (a, kl, 9, cl, o),
                                      "kmac%s key %d custom %d output %d" % (sfx, kl, cl, o), "ascon_kmac" + sfx))
    # structural, all lengths: no size_t length loses its upper bits on the way to a bound or an address
    from . import widths
    rep.rule("C04.D2", "length arithmetic keeps the full width of size_t (no 32-bit mask or unguarded narrowing before control/addressing)")
    for js, cname, layout, maxs, units in prep:
        widths.rule(rep, "C04.D2", _inlined_module(js), cname, files=("/src/mac/", "/src/core/"), inlined=True)
    widths.control(rep, "C04.D2")
    for d in modecheck.run_cases("C04", rid, tier, cases, None):
        rep.merge(d)
    rep.floor_discharged(rid, int(0.9 * len(cases)))
    tables.rule_tables(rep, tier, "C04.D5", families=("kmac", "kmaca"))
