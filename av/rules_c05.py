"""C05 - key derivation functions.

Decided per enumerated shape and for all input values (permutation
uninterpreted): HKDF/HKDFA equal RFC 5869 extract-then-expand over
ASCON-HMAC/HMACA (one-shot and incremental expansion in chunks); KDF/KDFA equal
cXOF("KDF") over the key; PBKDF2 equals the RFC 8018 iteration over its
documented cXOF("PBKDF2") PRF and the HMAC flavour over ASCON-HMAC, for counts
0 (treated as 1), 1, 2, 3 and truncated last blocks.  D1 (structural): the
one-shot HKDF refuses more than 255 blocks before producing anything, and the
incremental expansion zero-fills what it cannot serve.
"""
from . import ir, modecheck, modes, ptr, ranges, repo

LEVEL = "other"
MANIFEST = {
    "text": "decides, per enumerated shape and for all input values: HKDF/HKDFA (RFC 5869, salt present/absent, "
            "info, chunked expansion, expansion from arbitrary mid-stream states around the 255-block limit incl. "
            "refusal with -1 and zero-fill, and the one-shot limit: 8160 bytes served and equal to the RFC, 8161 "
            "refused without writing), KDF/KDFA (cXOF 'KDF', one-shot and incremental with declared lengths), PBKDF2 (RFC 8018: block index from 1 big-endian, "
            "XOR of U1..Uc, count 0 as 1, truncated last block) and PBKDF2-HMAC equal their specifications with "
            "the permutation uninterpreted; iteration counts beyond 3 and lengths beyond the shapes are not "
            "decided",
    "note": "oracle = RFC transcriptions over the validated hash oracle; no published KAT vectors exist for the "
            "KDFs in the repository",
    "technique": "GF(2)-affine abstract interpretation with uninterpreted permutation symbols; guard dominance",
    "engines": ["irdump", "av"],
}


def _inlined_module(js):
    """the inlined view (file-local helpers inlined into their callers) of a lowered module"""
    import os
    from . import ir as _ir
    out = js[:-5] + ".inlined.json"
    if not os.path.exists(out):
        repo.run([repo.IRDUMP, "--inline-internal", os.path.join(os.path.dirname(js), "linked.opt.ll"), out])
    return _ir.Module.load(out)


def run(rep, tier):
    rep.explanation = "Mode-level symbolic comparison (av/sponge.py) of the KDFs; guard analysis of the HKDF limit."
    rep.undecided = "PBKDF2 iteration counts above 3; lengths beyond the enumerated shapes"
    rid = "C05.M"
    rep.rule(rid, "HKDF / KDF / PBKDF2 output equals the specification for every input value of the shape")
    prep = modes.prepare(tier)
    cases = []
    for js, cname, layout, maxs, units in prep:
        rep.configs.append(cname)
        rep.units.update(units)
        for a in (False, True):
            sfx = "a" if a else ""
            for (kl, sl, il, ol) in ((16, 0, 0, 32), (16, 8, 5, 33), (70, 33, 0, 40), (1, 64, 9, 65)) if tier == "quick" else \
                    ((16, 0, 0, 32), (16, 8, 5, 33), (70, 33, 0, 40), (1, 64, 9, 65), (0, 0, 0, 1), (32, 32, 32, 96), (16, 65, 1, 31),
                     (33, 31, 7, 64), (64, 63, 8, 33), (65, 33, 33, 70), (8, 1, 64, 32), (100, 100, 100, 100)):
                cases.append((js, cname, layout, "case_hkdf", (a, kl, sl, il, ol),
                              "hkdf%s key %d salt %d info %d output %d" % (sfx, kl, sl, il, ol), "ascon_hkdf" + sfx))
            for (cnt, posn, il, chunks) in ((255, 32, 3, (70,)), (254, 32, 0, (32, 33, 5)), (255, 10, 5, (22, 32, 1, 0, 4)),
                                            (0, 20, 2, (5, 7, 9)), (0, 32, 0, (0, 1)), (1, 32, 4, (40,)), (2, 31, 4, (34,))):
                cases.append((js, cname, layout, "case_hkdf_limit", (a, cnt, posn, il, chunks),
                              "hkdf%s expand from counter %d position %d info %d requests %s" % (sfx, cnt, posn, il, list(chunks)),
                              "ascon_hkdf%s_expand" % sfx))
            for ol in (8160, 8161, 8192, 70000):
                if ol == 8160 and tier == "quick" and not cname.startswith("c64"):
                    continue        # 255 blocks take ~10 s per case
                cases.append((js, cname, layout, "case_hkdf_oneshot_limit", (a, ol), "hkdf%s one-shot output %d" % (sfx, ol),
                              "ascon_hkdf" + sfx))
            for kl in ((0, 8, 16, 33) if tier == "quick" else (0, 1, 7, 8, 9, 16, 31, 32, 33, 65)):
                for cl in ((0, 8, 9) if tier == "quick" else (0, 1, 7, 8, 9, 16, 17, 33)):
                    for ol in (16, 32, 41):
                        cases.append((js, cname, layout, "case_kdf", (a, kl, cl, ol), "kdf%s key %d custom %d output %d" % (sfx, kl, cl, ol),
                                      "ascon_kdf" + sfx))
            for (kl, cl, decl, ch) in ((16, 0, 0, (16,)), (9, 8, 0, (5, 20)), (16, 3, 32, (32,)), (8, 0, 48, (7, 9))):
                cases.append((js, cname, layout, "case_kdf_inc", (a, kl, cl, decl, ch),
                              "kdf%s incremental key %d custom %d declared %d squeezed %s" % (sfx, kl, cl, decl, list(ch)),
                              "ascon_kdf%s_init" % sfx))
        for hm in (False, True):
            # password / salt lengths around the HMAC block (64) and digest (32) sizes and the cXOF rate
            for (pl, sl) in (((0, 0), (32, 8), (33, 1), (64, 16), (65, 40)) if tier == "quick" else
                             ((0, 0), (1, 1), (8, 7), (31, 8), (32, 8), (33, 1), (40, 9), (63, 5), (64, 16), (65, 40), (100, 64), (129, 3))):
                cases.append((js, cname, layout, "case_pbkdf2", (hm, pl, sl, 2, 33),
                              "pbkdf2%s password %d salt %d count 2 output 33" % ("-hmac" if hm else "", pl, sl),
                              "ascon_pbkdf2_hmac" if hm else "ascon_pbkdf2"))
            # beyond 255 blocks the big-endian block index needs its second byte
            if cname.startswith("c64") and not hm:
                cases.append((js, cname, layout, "case_pbkdf2", (hm, 8, 8, 1, 8160 + 40),
                              "pbkdf2 password 8 salt 8 count 1 output 8200 (blocks 256 and 257)", "ascon_pbkdf2"))
            for count in (0, 1, 2, 3):
                for ol in (1, 32, 33, 70):
                    if tier == "quick" and hm and ol == 70:
                        continue
                    cases.append((js, cname, layout, "case_pbkdf2", (hm, 9, 7, count, ol),
                                  "pbkdf2%s count %d output %d" % ("-hmac" if hm else "", count, ol),
                                  "ascon_pbkdf2_hmac" if hm else "ascon_pbkdf2"))
    # structural, all lengths: no size_t length loses its upper bits on the way to a bound or an address
    from . import widths
    rep.rule("C05.D2", "length arithmetic keeps the full width of size_t (no 32-bit mask or unguarded narrowing before control/addressing)")
    for js, cname, layout, maxs, units in prep:
        widths.rule(rep, "C05.D2", _inlined_module(js), cname, files=("/src/kdf/", "/src/password/", "/src/mac/"), inlined=True)
    widths.control(rep, "C05.D2")
    for d in modecheck.run_cases("C05", rid, tier, cases, None):
        rep.merge(d)
    rep.floor_discharged(rid, int(0.9 * len(cases)))
    rule_limit(rep, tier)


def rule_limit(rep, tier):
    """D1: ascon_hkdf(a) refuses outlen > 255*32 with -1 before anything else;
    the incremental expand zero-fills the unserved part when the block counter
    is exhausted."""
    rid = "C05.D1"
    rep.rule(rid, "HKDF refuses more than 255 blocks of 32 bytes; expansion zero-fills what it cannot serve")
    b = repo.configure(repo.Config("c64"))
    lr = repo.lower(b, group="lib", level="O0", langs=("c",))
    m = ir.Module.load(lr.json)
    for name in ("ascon_hkdf", "ascon_hkdfa"):
        f = m.funcs.get(name)
        if f is None or f.decl:
            raise repo.AnalysisBroken(name + " not defined")
        outlen = f.params[f.param_index("outlen")]
        entry = f.blocks[0]
        t = entry.term
        ok = False
        if t.op == "br" and t.ops:
            c = f.defs.get(t.ops[0])
            if c is not None and c.op == "icmp" and c.ops[0] == outlen:
                k, p = ir.const_int(c.ops[1]), c.d["pred"]
                limit = k if p == "ugt" else k - 1 if p == "uge" else None
                if limit == 255 * 32:
                    fail = t.succs[0]
                    fb = f.bmap[fail]
                    from .rules_c02 import _return_consts_from
                    rets = _return_consts_from(f, fb)
                    pre = any(i.op in ("store", "call") and not (i.op == "call" and (i.callee or "").startswith("llvm."))
                              for i in entry.insts[:-1])
                    ok = bool(rets) and all(r == -1 for r in rets) and not pre
                else:
                    rep.violation(rid, name + ":limit", t.where(), "%s refuses output longer than %s bytes, RFC 5869 allows "
                                  "exactly 255 blocks of 32 = 8160" % (name, limit))
                    continue
        if ok:
            rep.instance(rid, 1, {"function": name, "limit": 8160})
        else:
            # another shape of the guard: the behaviour at 8160 / 8161 bytes is decided by C05.M (one-shot limit cases)
            rep.unproved_item(rid, "%s: entry guard `outlen > 8160 -> -1` not recognised in this shape" % name)
    for name in ("ascon_hkdf_expand", "ascon_hkdfa_expand"):
        f = m.funcs.get(name)
        R = ptr.resolver(f)
        outp = f.params[f.param_index("out")]
        # a return of -1 must be preceded (dominated) by a memset(out.., 0, remaining)
        ok = False
        for b2 in f.blocks:
            t = b2.term
            if t.op != "ret" or not t.ops:
                continue
            v = t.ops[0]
            d = f.defs.get(v) if ir.is_local(v) else None
            contribs = [(v, b2.name)] if not (d is not None and d.op == "phi") else list(d.d["inc"])
            for val, frm in contribs:
                if ir.const_int(val) == -1:
                    fills = [i for i in f.bmap[frm].insts if i.op == "call" and ptr.is_memset(i) and ir.const_int(i.ops[1]) == 0 and
                             any(r == ("param", outp) for r in R.resolve(i.ops[0]).roots)]
                    fills += [i for bn in f.dominators()[frm] for i in f.bmap[bn].insts
                              if i.op == "call" and ptr.is_memset(i) and ir.const_int(i.ops[1]) == 0 and
                              any(r == ("param", outp) for r in R.resolve(i.ops[0]).roots) and bn != f.blocks[0].name]
                    ok = bool(fills)
        if ok:
            rep.instance(rid, 1, {"function": name, "refusal": "zero-fill then -1"})
        else:
            # decided behaviourally by the mid-stream cases of C05.M
            rep.unproved_item(rid, "%s: no block fill of the output dominating the -1 return was recognised" % name)
    rep.floor(rid, 4)
