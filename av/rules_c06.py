"""C06 - SIV and ISAP constructions; ISAP keys persist.

Decided per enumerated shape and for all key / nonce / data values (permutation
uninterpreted): ASCON-128/128a/80pq-SIV encryption equals the documented
two-pass construction and decryption inverts it; ISAP-A-128A / ISAP-A-128 /
ISAP-A-80PQ encryption (through a pre-computed key) equals ISAP v2.0, a key
that is saved and loaded is bit-identical to the original, decrypting with the
re-loaded key inverts encryption, and the pre-computed key object is unchanged
by encryption and decryption.  D2 (structural, all lengths): no length of
the SIV / ISAP code loses its upper 32 bits before it bounds a loop or an
address (av/widths.py), so data beyond 4 GiB is not silently left out of the
MAC or the keystream.  D1 (structural, all lengths): the const
pre-computed key parameter is never written (C16.D3 machinery).
"""
from . import modecheck, modes

LEVEL = "other"
MANIFEST = {
    "text": "decides, per enumerated shape and for all values: SIV encryption = documented two-pass construction "
            "(tag of pass one is the nonce of the keystream pass) and decrypt inverts it; ISAP encryption = ISAP "
            "v2.0 (re-keying bit by bit with sB/sK rounds, sE keystream, sH MAC) for the three variants; "
            "save/load returns a bit-identical key; the pre-computed key is unmodified by use; D2 for all lengths: "
            "no size_t length is masked or narrowed to 32 bits before it bounds a loop or address; other "
            "behaviour at lengths beyond the shapes is not decided",
    "note": "oracle validated against the published SIV and ISAP KAT vectors",
    "technique": "GF(2)-affine abstract interpretation with uninterpreted permutation symbols against a "
                 "specification oracle",
    "engines": ["irdump", "av"],
}


def run(rep, tier):
    rep.explanation = "Mode-level symbolic comparison (av/sponge.py) of SIV and ISAP for enumerated shapes."
    rep.undecided = "lengths beyond the enumerated shapes"
    rid = "C06.M"
    rep.rule(rid, "SIV / ISAP output equals the specification; keys persist and are not modified")
    prep = modes.prepare(tier)
    shapes = [(0, 0), (1, 1), (8, 7), (9, 8), (0, 17), (17, 33)] if tier == "quick" else \
        [(a, n) for a in (0, 1, 7, 8, 9, 16, 17, 18, 33) for n in tuple(range(0, 35)) + (63, 64, 65, 129, 500)]
    cases = []
    for js, cname, layout, maxs, units in prep:
        rep.configs.append(cname)
        rep.units.update(units)
        for alg in ("128", "128a", "80pq"):
            for (a, n) in shapes:
                cases.append((js, cname, layout, "case_siv", (alg, a, n), "siv %s ad %d message %d" % (alg, a, n),
                              "ascon%s_siv_encrypt" % alg))
            for (a, n) in (shapes if tier != "quick" else shapes[:4]):
                cases.append((js, cname, layout, "case_isap", (alg, a, n), "isap %s ad %d message %d" % (alg, a, n),
                              "ascon%s_isap_aead_encrypt" % alg))
    # structural, all lengths: no size_t length loses its upper bits on the way to a bound or an address
    from . import widths
    from .rules_c03 import _inlined_module
    rep.rule("C06.D2", "length arithmetic keeps the full width of size_t (no 32-bit mask or unguarded narrowing before control/addressing)")
    for js, cname, layout, maxs, units in prep:
        widths.rule(rep, "C06.D2", _inlined_module(js), cname, files=("/src/siv/", "/src/isap/"), inlined=True)
    widths.control(rep, "C06.D2")
    # "for every key, nonce, ... the output is the specification's" includes calls that overlap in time: the SIV / ISAP
    # code keeps no mutable object with static storage (a scratch buffer made `static` is shared by all callers)
    from . import ir as _ir
    rep.rule("C06.D3", "the SIV / ISAP units define no mutable variable with static storage (results do not depend on other calls in flight)")
    for js, cname, layout, maxs, units in prep:
        mm = modes.load_module(js)
        n = 0
        for g in mm.globals.values():
            if g.get("decl"):
                continue
            fn = mm.file_of(g.get("file", -1)) or ""
            if "/src/isap/" not in fn and "/src/siv/" not in fn:
                continue
            n += 1
            if g["constant"] or g["tls"]:
                rep.instance("C06.D3", 1, {"config": cname, "global": g["name"], "kind": "constant"})
            else:
                rep.violation("C06.D3", "static:" + (g.get("srcname") or g["name"]), "%s:%s" % (fn, g.get("line", 0)),
                              "%s (%d bytes%s) has static storage and is written by the SIV / ISAP code: two calls in flight share it, "
                              "so the tag or keystream of one depends on the other" % (
                                  g["name"], g["size"], (", defined inside " + g["infunc"]) if g.get("infunc") else ""), config=cname)
        rep.instance("C06.D3", 1, {"config": cname, "static_objects_in_siv_isap": n})
    for d in modecheck.run_cases("C06", rid, tier, cases, None):
        rep.merge(d)
    rep.floor_discharged(rid, int(0.9 * len(cases)))
