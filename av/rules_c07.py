"""C07 - incremental APIs: chunking, aliasing, copying, re-init.

Undecided (whole): invariance of results under arbitrary partitions of input
and output (a relational property over all call histories).  Decided:
  D1  a copy continues like its original: *_copy assigns every field of the
      destination from the same field of the source on every path
  D2  re-init is init: every public *_reinit* function delegates to its
      *_init* sibling with its own parameters (optionally after *_free), and
      the init sibling defines every byte of the object without reading it
  D3  in-place safety: in every primitive that has an input and an output
      buffer that may be the same memory, no input byte is (re-)read after the
      output byte at the same position was stored within the same iteration
  D4  partial-block position plumbing: the value returned by
      ascon_aead_{en,de}crypt_{8,16} is stored to state->posn and fed back as
      `partial` on the next call and to ascon_pad at finalize
  D5  (bounded) chunked and in-place incremental AEAD encryption/decryption
      equals the one-shot specification result for every value of the
      enumerated shapes; chunked hash/XOF/PRF/HMAC/HKDF shapes are part of the
      C03-C05 mode comparisons
"""
import re

from . import effects, facts, ir, ptr, repo

LEVEL = "other"
MANIFEST = {
    "text": "decides D1 full-field copy, D2 re-init delegating to init with init defining the whole object, D3 "
            "the load-before-store discipline that makes input == output safe in every back end's primitives, D4 "
            "the partial-block position plumbing, and - bounded over enumerated sizes, exact over all data values "
            "- D5 chunked and in-place incremental AEAD and sender / receiver sessions on a reused state equal "
            "the one-shot specification result and D6 the incremental hash / XOF / PRF / KMAC / KDF / HMAC / HKDF "
            "interfaces give the bytes of the library's own one-shot call for a spread of partitions of input and "
            "output, D7 XOF copies taken while absorbing or squeezing continue like the original and a re-initialised "
            "state behaves like a fresh one (bounded shapes, all data values); all partitions of all lengths are not decided",
    "note": "trusted: clang lowering, irdump; D3 treats two accesses as the same position when they use the "
            "same index expression / parallel loop pointers and overlapping constant offsets",
    "technique": "must-define dataflow, call delegation matching, ordered access-pair analysis on the CFG "
                 "(store-then-load on aliasing-permitted buffers), def-use plumbing check",
    "engines": ["irdump", "asconfacts", "av"],
}


def configs(tier):
    if tier == "quick":
        return [repo.Config("asm"), repo.Config("c64"), repo.Config("c32"), repo.Config("direct"),
                repo.Config("c64", 4, 1, 4)]
    return [repo.Config(b) for b in repo.BACKENDS] + [repo.Config(b, 4, 1, 4) for b in ("c64", "c32", "direct", "asm")] + \
        [repo.Config("c64", 2, 2, 2), repo.Config("c32", 3, 3, 3)]


def run(rep, tier):
    rep.explanation = (
        "Per back end: (D1) must-define summary of the copy functions and field-to-field value provenance; "
        "(D2) call delegation of *_reinit* to *_init*; (D3) for each (const input, output) pointer parameter "
        "pair of every function, a store through the output that dominates a same-iteration load through the "
        "input at the same position is a violation; (D4) def-use of the partial position.")
    rep.undecided = "results independent of how input/output are split into calls (relational over call histories)"
    builds = repo.configure_many(configs(tier))
    api = facts.public_c_api(builds[0])
    for r, d in (("C07.D1", "copy assigns every field from the source"),
                 ("C07.D2", "reinit delegates to init; init defines the whole object"),
                 ("C07.D3", "no input byte is read after the same-position output byte was stored (in == out safe)"),
                 ("C07.D4", "partial-block position returned by the block primitives is stored and fed back")):
        rep.rule(r, d)
    for b in builds:
        lr = repo.lower(b, group="lib", level="O0", langs=("c",), scev=True)
        m = ir.Module.load(lr.json)
        rep.configs.append(b.cfg.name)
        rep.units.update(lr.units)
        rule_copy(rep, m, b.cfg.name)
        # "init defines the whole object" is judged with file-local helpers inlined (a shared worker with a mode flag)
        lri = repo.lower(b, group="lib", level="O0", langs=("c",), scev=True, inline_internal=True)
        rule_reinit(rep, ir.Module.load(lri.json), b.cfg.name, api)
        rule_inplace(rep, m, b.cfg.name, b, "C07.D3")
        rule_posn(rep, m, b.cfg.name)
    rule_chunking(rep, tier)
    k = len(builds)
    rep.floor("C07.D1", 2 * k)
    rep.floor("C07.D2", 10 * k)
    rep.floor("C07.D3", 8 * k)
    rep.floor("C07.D4", 6 * k)


# ---------------------------------------------------------------------------
def rule_copy(rep, m, cname):
    rid = "C07.D1"
    lay = effects.Layouts(m)
    init = effects.wipe_summaries(m, mode="init")
    for name in ("ascon_xof_copy", "ascon_xofa_copy"):
        f = m.funcs.get(name)
        if f is None or f.decl:
            raise repo.AnalysisBroken("%s not defined" % name)
        rep.functions += 1
        R = ptr.resolver(f)
        dst, src = f.params[0], f.params[1]
        sn = effects.Layouts.pointee_struct(f.param_ty[0])
        need = {}
        for (off, size, key, ty) in lay.leaves(sn):
            for x in range(off, off + size):
                need[x] = lay.member_name(sn, off)
        # the dest == src early exit is exempt (nothing to copy)
        got = _must_write_skip_self(m, f, init)
        missing = sorted(x for x in need if x not in got)
        bad = None
        # values stored into dest fields must come from the same field of src
        for i in f.insts():
            if i.op == "store":
                pv = R.resolve(i.ops[1])
                if pv.single() == ("param", dst) and pv.offset is not None:
                    v = i.ops[0]
                    d = f.defs.get(v) if ir.is_local(v) else None
                    while d is not None and d.op in ("zext", "trunc", "sext"):
                        d = f.defs.get(d.ops[0]) if ir.is_local(d.ops[0]) else None
                    ok = False
                    if d is not None and d.op == "load":
                        sv = R.resolve(d.ops[0])
                        ok = sv.single() == ("param", src) and sv.offset == pv.offset
                    if not ok:
                        bad = (i, "field %s of the copy is not taken from the same field of the source" % need.get(pv.offset, pv.offset))
            elif i.op == "call" and i.callee == "ascon_copy":
                a, b2 = R.resolve(i.ops[0]), R.resolve(i.ops[1])
                if not (a.single() == ("param", dst) and b2.single() == ("param", src) and a.offset == b2.offset):
                    bad = (i, "ascon_copy is not applied to the same member of destination and source")
        if missing:
            names = sorted(set(need[x] for x in missing))
            rep.violation(rid, name + ":fields", f.src, "%s does not assign member(s) %s of the destination on every path" % (
                name, ", ".join(names)), config=cname)
        elif bad:
            rep.violation(rid, name + ":values", bad[0].where(), "%s: %s" % (name, bad[1]), config=cname)
        else:
            rep.instance(rid, 1, {"config": cname, "function": name, "bytes": len(need)})


def _must_write_skip_self(m, f, init):
    """must-write set of param 0 on the paths where dest != src"""
    # the init-mode summary treats the `dest == src` edge like any path; redo
    # the intersection over returns ignoring returns reachable only via that edge
    dst, src = f.params[0], f.params[1]
    skip_block = None
    for b in f.blocks:
        t = b.term
        if t.op == "br" and t.ops and len(t.succs) == 2:
            c = f.defs.get(t.ops[0]) if ir.is_local(t.ops[0]) else None
            if c is not None and c.op == "icmp" and set(c.ops) == {dst, src}:
                same = t.succs[0] if c.d["pred"] == "eq" else t.succs[1]
                skip_block = (b.name, same)
    if skip_block is None:
        return init[f.name].must.get(0, frozenset())
    # analyse only the region of the "different" successor: temporarily treat
    # the function as starting there
    t = f.bmap[skip_block[0]].term
    other = [s for s in t.succs if s != skip_block[1]][0]
    R = ptr.resolver(f)
    got = set()
    # straight-line / dominated region: every instruction in blocks dominated by `other`
    doms = f.dominators()
    for b in f.blocks:
        if other == b.name or other in doms[b.name]:
            # must on all paths: require that b post-dominates `other`
            if b.name in f.postdominators().get(other, ()) or b.name == other:
                for i in b.insts:
                    if i.op == "store":
                        pv = R.resolve(i.ops[1])
                        if pv.single() == ("param", dst) and pv.offset is not None and not pv.variable:
                            got.update(range(pv.offset, pv.offset + i.d["sz"]))
                    elif i.op == "call" and i.callee in init:
                        for an, a in enumerate(i.ops):
                            pv = R.resolve(a) if ir.is_local(a) else None
                            if pv is not None and pv.single() == ("param", dst) and pv.offset is not None:
                                got.update(pv.offset + x for x in init[i.callee].must.get(an, ()))
    return got


# ---------------------------------------------------------------------------
def rule_reinit(rep, m, cname, api):
    rid = "C07.D2"
    init = effects.wipe_summaries(m, mode="init")
    lay = effects.Layouts(m)
    for name in sorted(api):
        if "_reinit" not in name:
            continue
        f = m.funcs.get(name)
        if f is None or f.decl:
            continue
        rep.functions += 1
        sib = name.replace("_reinit", "_init")
        calls = [c for c in f.calls() if c.callee and not c.callee.startswith("llvm.")]
        sibc = [c for c in calls if c.callee == sib]
        others = [c for c in calls if c.callee != sib]
        if not sibc:
            # hand-written reinit (incremental AEAD): must define key/nonce/posn like init does - compare must-write sets
            g = m.funcs.get(sib)
            if g is None or g.decl:
                rep.unproved_item(rid, "%s has no %s sibling" % (name, sib))
                continue
            # init = backend allocation + reinit (delegation the other way round)
            gc = [c for c in g.calls() if c.callee and not c.callee.startswith("llvm.")]
            if gc and gc[-1].callee == name and len(gc[-1].ops) == len(g.params) and \
                    all(gc[-1].ops[k] == g.params[k] for k in range(len(g.params))) and \
                    all(c.callee in ("ascon_init", "ascon_release") for c in gc[:-1]):
                rep.instance(rid, 1, {"config": cname, "function": name, "mode": sib + " = ascon_init + " + name})
                continue
            a, b2 = init[name].must.get(0, frozenset()), init[sib].must.get(0, frozenset())
            if not b2 <= a:
                miss = sorted(b2 - a)
                sn = effects.Layouts.pointee_struct(f.param_ty[0])
                names = sorted(set(lay.member_name(sn, x) for x in miss)) if sn else miss
                rep.violation(rid, name + ":fields", f.src,
                              "%s leaves member(s) %s of the object as they were, while %s defines them" % (name, names, sib),
                              config=cname)
            else:
                rep.instance(rid, 1, {"config": cname, "function": name, "mode": "defines the same bytes as " + sib})
            continue
        c = sibc[-1]
        okargs = len(c.ops) == len(f.params) and all(c.ops[k] == f.params[k] for k in range(len(f.params)))
        okothers = all((o.callee or "").endswith("_free") and o.callee in api and o.ops and o.ops[0] == f.params[0]
                       and f.dominates(o, c) for o in others)
        if not okargs:
            rep.violation(rid, name + ":args", c.where(), "%s calls %s with arguments other than its own parameters in order" % (name, sib),
                          config=cname)
        elif not okothers:
            rep.violation(rid, name + ":extra", others[0].where(), "%s does something other than free-then-%s (%s)" % (
                name, sib, others[0].callee), config=cname)
        else:
            rep.instance(rid, 1, {"config": cname, "function": name, "delegates_to": sib})
    # init defines the whole object
    for name in sorted(api):
        if not re.search(r"_(init|init_fixed|init_custom)$", name):
            continue
        f = m.funcs.get(name)
        if f is None or f.decl or not f.param_ty or not f.param_ty[0].endswith("*"):
            continue
        sn = effects.Layouts.pointee_struct(f.param_ty[0])
        if sn is None or sn not in m.structs:
            continue
        if name in ("ascon_init",):
            continue
        need = {}
        for (off, size, key, ty) in lay.leaves(sn):
            nm = lay.member_name(sn, off)
            if nm.endswith("reserved"):
                continue
            for x in range(off, off + size):
                need[x] = nm
        got = init[name].must.get(0, frozenset())
        miss = sorted(x for x in need if x not in got)
        if miss:
            names = sorted(set(need[x] for x in miss))
            # masked keys / ISAP keys are written through opaque (assembly) helpers in some back ends
            if any(c.callee and c.callee not in m.funcs or (c.callee in m.funcs and m.funcs[c.callee].decl)
                   for c in f.calls() if c.callee and not c.callee.startswith("llvm.")):
                rep.unproved_item(rid, "%s (%s): members %s are written by helpers without IR body" % (name, cname, names))
                continue
            rep.violation(rid, name + ":undefined", f.src,
                          "%s leaves member(s) %s of the object undefined on some path, so a re-initialised object can "
                          "differ from a fresh one" % (name, names), config=cname)
        else:
            rep.instance(rid, 1, {"config": cname, "function": name, "defines_bytes": len(need)})


# ---------------------------------------------------------------------------
def _base_and_offset(f, p, depth=0):
    """pointer -> (base SSA value, const byte offset, tuple of (stride, index) terms)"""
    d = f.defs.get(p) if ir.is_local(p) else None
    if d is None or depth > 8:
        return p, 0, ()
    if d.op == "bitcast":
        return _base_and_offset(f, d.ops[0], depth + 1)
    if d.op == "getelementptr":
        b, o, t = _base_and_offset(f, d.ops[0], depth + 1)
        terms = tuple(sorted(t + tuple((s, v) for s, v in d.d["terms"] if isinstance(v, str)), key=str))
        return b, o + d.d["coff"], terms
    return p, 0, ()


def rule_inplace(rep, m, cname, build, rid):
    """store through an output pointer followed, in the same iteration, by a
    load through the paired input pointer at the same position"""
    decls = {}
    for d in facts.group_facts(build, "lib", ("c",)):
        for x in d["decls"]:
            if x.get("def"):
                decls.setdefault(x["name"], x)
    n = 0
    for f in m.defined():
        decl = decls.get(f.d.get("srcname", f.name))
        if decl is None or len(decl["params"]) != len(f.params):
            continue
        ins = [k for k, p in enumerate(decl["params"]) if p["ty"].replace(" ", "") in
               ("constunsignedchar*", "constuint8_t*") and p.get("pointee_const")]
        outs = [k for k, p in enumerate(decl["params"]) if p["ty"].replace(" ", "") in ("unsignedchar*", "uint8_t*")]
        if not ins or not outs:
            continue
        R = ptr.resolver(f)
        backs = set((a.name, b.name) for a, b in f.back_edges())
        accesses = []
        for i in f.insts():
            if i.op == "load":
                p, kind = i.ops[0], "load"
            elif i.op == "store":
                p, kind = i.ops[1], "store"
            else:
                continue
            pv = R.resolve(p)
            root = pv.single()
            if root is None or root[0] != "param":
                continue
            k = f.params.index(root[1])
            if (kind == "load" and k in ins) or (kind == "store" and k in outs):
                base, off, terms = _base_and_offset(f, p)
                accesses.append((i, kind, k, base, off, terms, i.d["sz"]))
        if not accesses:
            continue
        n += 1
        rep.functions += 1
        bad = None
        stores = [a for a in accesses if a[1] == "store"]
        loads = [a for a in accesses if a[1] == "load"]
        for s in stores:
            for l in loads:
                if not _parallel(f, s, l):
                    continue
                so, lo = s[4], l[4]
                if not (so < lo + l[6] and lo < so + s[6]):
                    continue
                if _same_iteration_after(f, s[0], l[0], backs):
                    bad = (s, l)
                    break
            if bad:
                break
        if bad:
            s, l = bad
            rep.violation(rid, "%s:%s/%s" % (f.name, decl["params"][l[2]]["name"], decl["params"][s[2]]["name"]), l[0].where(),
                          "%s reads input byte(s) through '%s' at %s after the output byte(s) at the same position were "
                          "stored through '%s' at %s; with identical input and output buffers the read returns the "
                          "freshly written output" % (f.name, decl["params"][l[2]]["name"], l[0].where(),
                                                      decl["params"][s[2]]["name"], s[0].where()), config=cname)
        else:
            rep.instance(rid, 1, {"config": cname, "function": f.name,
                                  "pairs": len(stores) * len(loads)})
    if n < 8:
        rep.broken.append("%s: only %d functions with an (input, output) buffer pair in %s" % (rid, n, cname))


def _parallel(f, s, l):
    """do the store and the load address the same position of their buffers?"""
    sb, lb = s[3], l[3]
    if s[5] != l[5]:
        return False
    # both bases are the parameters themselves
    if sb in f.params and lb in f.params:
        return True
    ds, dl = f.defs.get(sb), f.defs.get(lb)
    # loop pointers advanced in step: phis of the same block
    if ds is not None and dl is not None and ds.op == dl.op == "phi" and ds.block is dl.block:
        return True
    return False


def _same_iteration_after(f, s, l, backs):
    """is l executed after s without passing a back edge?"""
    if s.block is l.block:
        return s.idx < l.idx
    # forward reachability without back edges
    seen, work = set(), [s.block]
    while work:
        b = work.pop()
        if b.name in seen:
            continue
        seen.add(b.name)
        for x in b.succs:
            if (b.name, x.name) in backs:
                continue
            work.append(x)
    return l.block.name in seen and l.block is not s.block


# ---------------------------------------------------------------------------
def rule_posn(rep, m, cname):
    rid = "C07.D4"
    lay = effects.Layouts(m)
    for alg in ("128", "128a", "80pq"):
        for kind in ("encrypt", "decrypt"):
            name = "ascon%s_aead_%s_block" % (alg, kind)
            f = m.funcs.get(name)
            if f is None or f.decl:
                raise repo.AnalysisBroken("%s not defined" % name)
            rep.functions += 1
            R = ptr.resolver(f)
            sn = effects.Layouts.pointee_struct(f.param_ty[0])
            prim = [c for c in f.calls() if re.match(r"^ascon_aead_%s_(8|16)$" % kind, c.callee or "")]
            ok = False
            why = "no block primitive call"
            if len(prim) == 1:
                c = prim[0]
                # last argument: partial position loaded from state->posn
                last = c.ops[-1]
                d = f.defs.get(last) if ir.is_local(last) else None
                while d is not None and d.op in ("zext", "trunc", "sext"):
                    d = f.defs.get(d.ops[0]) if ir.is_local(d.ops[0]) else None
                fed = d is not None and d.op == "load" and lay.member_name(sn, R.resolve(d.ops[0]).offset or -1).endswith("posn")
                stored = False
                any_store = False
                for i in f.insts():
                    if i.op == "store":
                        pv = R.resolve(i.ops[1])
                        if pv.single() == ("param", f.params[0]) and pv.offset is not None and \
                                lay.member_name(sn, pv.offset).endswith("posn") and f.dominates(c, i):
                            any_store = True
                            if i.ops[0] == c.id:
                                stored = True
                ok = fed and stored
                why = "partial position fed back: %s; position updated after the call: %s" % (fed, any_store)
                if fed and any_store and not stored:
                    # updated with something other than the returned value: may be equivalent - not decided
                    rep.unproved_item(rid, "%s (%s) updates state->posn with a value other than the primitive's result" % (name, cname))
                    continue
            if ok:
                rep.instance(rid, 1, {"config": cname, "function": name})
            else:
                rep.violation(rid, name + ":posn", f.src, "%s: %s" % (name, why), config=cname)


def rule_chunking(rep, tier):
    """D5 (bounded): chunked, empty-call and in-place use of the incremental
    interfaces gives the one-shot specification result for every value of the
    enumerated shapes (mode-level symbolic comparison, av/sponge.py).  Chunked
    hash / XOF / PRF / HMAC / HKDF shapes are covered by the C03-C05 cases;
    here the in-place AEAD block functions."""
    from . import modecheck, modes
    rid = "C07.D5"
    rep.rule(rid, "chunked and in-place incremental AEAD equals the one-shot specification result (bounded shapes)")
    prep = modes.prepare(tier, cfgs=[repo.Config("c64"), repo.Config("c32"), repo.Config("direct")] if tier == "quick" else None)
    shapes = [(0, 1), (1, 9), (8, 17), (9, 33)] if tier == "quick" else [(a, n) for a in (0, 1, 9, 17) for n in tuple(range(0, 35)) + (40, 63, 64, 65, 129)]
    cases = []
    for js, cname, layout, maxs, units in prep:
        if cname not in rep.configs:
            rep.configs.append(cname)
        for alg in ("128", "128a", "80pq"):
            for (a, n) in shapes:
                cases.append((js, cname, layout, "case_aead_inplace", (alg, a, n), "in-place %s ad %d message %d" % (alg, a, n),
                              "ascon%s_aead_decrypt_block" % alg))
            # a state that is started again for the next packet behaves like a fresh one (sender and receiver sessions)
            for (a, n) in ([(1, 3)] if tier == "quick" else [(0, 1), (1, 3), (5, 17)]):
                cases.append((js, cname, layout, "case_aead_session_encrypt", (alg, a, n),
                              "%s sender session, first packet ad %d message %d" % (alg, a, n), "ascon%s_aead_start" % alg))
                cases.append((js, cname, layout, "case_aead_decrypt_session", (alg, a, n),
                              "%s receiver session, first packet ad %d message %d" % (alg, a, n), "ascon%s_aead_start" % alg))
    for d in modecheck.run_cases("C07", rid, tier, cases, None):
        rep.merge(d)
    rep.floor_discharged(rid, int(0.9 * len(cases)))
    # D6: every incremental family against the library's own one-shot function under a spread of call histories
    rid = "C07.D6"
    rep.rule(rid, "incremental hash / XOF / PRF / KMAC / KDF / HMAC / HKDF calls give the one-shot result however input and output are split (bounded shapes)")
    sizes = {"quick": [(9, 33)], "thorough": [(0, 1), (1, 8), (9, 33), (17, 41), (40, 70)]}[tier]
    src = {"hash": "ascon_hash_update", "hasha": "ascon_hasha_update", "xof": "ascon_xof_squeeze", "xofa": "ascon_xofa_squeeze",
           "prf": "ascon_prf_squeeze", "kmac": "ascon_kmac_squeeze", "kmaca": "ascon_kmaca_squeeze",
           "kdf": "ascon_kdf_squeeze", "kdfa": "ascon_kdfa_squeeze", "hmac": "ascon_hmac_update", "hmaca": "ascon_hmaca_update",
           "hkdf": "ascon_hkdf_expand", "hkdfa": "ascon_hkdfa_expand"}
    cases = []
    for js, cname, layout, maxs, units in prep:
        for fam in modecheck.CHUNK_FAMILIES:
            for (i, o) in sizes:
                if fam == "prf":
                    i, o = i * 4 + 1, o + 7
                if fam in ("hkdf", "hkdfa"):
                    o = o * 2 + 5
                cases.append((js, cname, layout, "case_chunk", (fam, i, o), "%s input %d output %d" % (fam, i, o), src[fam]))
    for d in modecheck.run_cases("C07", rid, tier, cases, None):
        rep.merge(d)
    rep.floor_discharged(rid, int(0.9 * len(cases)))
    # D7: copies and re-initialisation, behaviourally (D1 / D2 are the structural counterparts)
    rid = "C07.D7"
    rep.rule(rid, "a copied XOF state continues like its original (absorbing or squeezing), and a re-initialised state behaves like a fresh one")
    cases = []
    copy_shapes = [(9, 0, 16, 5), (8, 0, 9, 0), (9, 5, 12, 0), (0, 8, 8, 0)] if tier == "quick" else \
        [(ml, s1, s2, m2) for ml in (0, 7, 8, 9, 17) for (s1, m2) in ((0, 0), (0, 5), (0, 8), (3, 0), (8, 0), (13, 0)) for s2 in (1, 8, 19)]
    re_shapes = [("plain", 8, 0), ("plain", 5, 3), ("fixed", 0, 0), ("custom", 0, 0)] if tier == "quick" else \
        [(f, pre, sq) for f in ("plain", "fixed", "custom") for pre in (0, 5, 8, 16, 64) for sq in (0, 3, 8)]
    for js, cname, layout, maxs, units in prep:
        for va in (False, True):
            nm = "ascon_xof%s" % ("a" if va else "")
            for (ml, s1, s2, m2) in copy_shapes:
                cases.append((js, cname, layout, "case_xof_copy", (va, ml, s1, s2, m2),
                              "%s copy after absorbing %d, squeezing %d; then +%d in, %d out" % (nm, ml, s1, m2, s2), nm + "_copy"))
            for (f, pre, sq) in re_shapes:
                cases.append((js, cname, layout, "case_xof_reinit", (va, f, pre, sq, 9, 16),
                              "%s reinit of a %s state after %d in, %d out" % (nm, f, pre, sq), nm + "_reinit"))
    for d in modecheck.run_cases("C07", rid, tier, cases, None):
        rep.merge(d)
    rep.floor_discharged(rid, int(0.9 * len(cases)))
