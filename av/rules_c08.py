"""C08 - permutation and state primitives on every host back end.

Decided with the bit-level polynomial (ANF) / GF(2)-affine abstract
interpreter of av/affine.py, on the IR of each C back end:
  D1  every round r = 0..11 of ascon_permute equals the specification's round
      function as a polynomial identity over GF(2) in the 320 state bits
      (canonical big-endian state read through ascon_extract_bytes) - exact
      for all 2^320 states; the loop executes rounds first_round..11 in order
      (scalar evolution); hence permute(first_round) is the specification's
      permutation with 12 - first_round rounds
  D2  add / overwrite / overwrite_with_zeroes / extract / extract_and_add /
      extract_and_overwrite act on exactly the addressed bytes of the
      canonical state for the enumerated (offset, size) pairs (all pairs in
      the thorough tier), including identical input and output buffers
  D3  ascon_copy copies the state; ascon_init zeroes it
Undecided: assembly back ends other than x86-64 (the x86-64 round blocks are
covered by C18.D5); timing.
"""
import os

from . import affine, ir, oracle, repo
from .affine import (ONEBIT, ZERO, Machine, Ptr, Unsupported, atom_bit, const_bits, to_int)
from .sponge import cbytes

LEVEL = "other"
MANIFEST = {
    "text": "decides, per C back end (64-bit, bit-interleaved 32-bit, direct-XOR/generic): D1 each of the 12 "
            "rounds of ascon_permute is the specification's round as an exact polynomial identity over GF(2) in "
            "all 320 state bits, plus loop order and count, so permute(first_round) is the specified permutation "
            "for every state (a restructured round loop is instead evaluated by constant propagation for every "
            "first_round on fixed states: differences are reported, agreement is left unproved); D2 the six byte-level state operations touch exactly the addressed canonical bytes "
            "(all offsets; sizes sampled in quick, all in thorough; aliasing in == out included); D3 copy/init",
    "note": "the interpreter evaluates the LLVM IR of the functions over Boolean polynomials (no library code is "
            "executed and no solver is used); trusted: clang lowering, irdump, the ANF engine and the python "
            "transcription of the ASCON v1.2 round function (self-checked against the published initial states)",
    "technique": "abstract interpretation over the exact domain of GF(2) polynomials (algebraic normal form) "
                 "with concrete control flow; polynomial identity checking against a specification oracle",
    "engines": ["irdump", "av"],
}

BACKENDS = ("c64", "c32", "direct", "generic", "asm")


# ---------------------------------------------------------------------------
# specification round function over bit polynomials
def spec_round(words, r):
    """words: 5 lists of 64 bit polynomials (index = bit position, 63 = msb)"""
    def xor(a, b):
        return [x ^ y for x, y in zip(a, b)]

    def band(a, b):
        return [affine.and_bits1(x, y) for x, y in zip(a, b)]

    def bnot(a):
        return [x ^ ONEBIT for x in a]

    def ror(a, n):
        return [a[(k + n) % 64] for k in range(64)]
    x0, x1, x2, x3, x4 = [list(w) for w in words]
    c = oracle.round_constant(r)
    x2 = [x2[k] ^ (ONEBIT if (c >> k) & 1 else ZERO) for k in range(64)]
    x0 = xor(x0, x4)
    x4 = xor(x4, x3)
    x2 = xor(x2, x1)
    t0 = band(bnot(x0), x1)
    t1 = band(bnot(x1), x2)
    t2 = band(bnot(x2), x3)
    t3 = band(bnot(x3), x4)
    t4 = band(bnot(x4), x0)
    x0 = xor(x0, t1)
    x1 = xor(x1, t2)
    x2 = xor(x2, t3)
    x3 = xor(x3, t4)
    x4 = xor(x4, t0)
    x1 = xor(x1, x0)
    x0 = xor(x0, x4)
    x3 = xor(x3, x2)
    x2 = bnot(x2)
    rot = oracle.ROTATIONS
    out = []
    for w, (a, b) in zip((x0, x1, x2, x3, x4), rot):
        out.append(xor(w, xor(ror(w, a), ror(w, b))))
    return out


def bytes_to_words(bits320):
    """320 bit polynomials as 40 canonical bytes (byte 0 first, bit 0 = lsb of
    each byte) -> 5 words of 64 bits (bit 63 = msb)"""
    words = []
    for i in range(5):
        w = [None] * 64
        for j in range(8):
            for b in range(8):
                w[(7 - j) * 8 + b] = bits320[(i * 8 + j) * 8 + b]
        words.append(w)
    return words


def words_to_bytes(words):
    out = [None] * 320
    for i in range(5):
        for j in range(8):
            for b in range(8):
                out[(i * 8 + j) * 8 + b] = words[i][(7 - j) * 8 + b]
    return tuple(out)


# ---------------------------------------------------------------------------
def canon(mc, st):
    """canonical 40 bytes of the state object through the back end's own
    ascon_extract_bytes (whose layout D1 pins to the specification)"""
    name = "canon.%d" % mc.fresh
    mc.fresh += 1
    out = mc.new_obj(name, 40, symbolic=False)
    mc.call("ascon_extract_bytes", [st, out, const_bits(0, 32), const_bits(40, 32)])
    return mc.load(out, 40)


def configs(tier):
    if tier == "quick":
        return [repo.Config(b) for b in ("c64", "c32", "direct")]
    return [repo.Config(b) for b in BACKENDS]


def sizes_for(off, tier):
    rest = 40 - off
    if tier == "thorough":
        return list(range(0, rest + 1))
    return sorted(set(x for x in (0, 1, 2, 3, 7, 8, 9, 15, 16, 17, rest - 1, rest) if 0 <= x <= rest))


def run(rep, tier):
    rep.explanation = (
        "The IR of ascon_permute and of the byte-level state functions of each C back end is interpreted over "
        "bit polynomials (each of the 320 state bits, each input byte bit is a variable).  One loop iteration "
        "per starting round is compared with the specification's round function as a polynomial identity; the "
        "byte operations are compared with the canonical big-endian semantics for the enumerated (offset, size) "
        "pairs.  Scalar evolution supplies the loop order and trip count.")
    rep.undecided = "non-x86 assembly back ends; micro-architectural behaviour"
    builds = repo.configure_many(configs(tier))
    for r, d in (("C08.D1", "each round of ascon_permute is the specification's round (polynomial identity); rounds first_round..11 run in order"),
                 ("C08.D2", "byte-level state operations act on exactly the addressed canonical bytes"),
                 ("C08.D3", "ascon_init zeroes and ascon_copy copies the canonical state")):
        rep.rule(r, d)
    jobs = []
    for b in builds:
        lr = repo.lower(b, group="lib", level="O0", langs=("c",), scev=True)
        rep.units.update(lr.units)
        # work items: the 12 rounds + copy/init in one item, byte operations split by offset range
        jobs.append((lr.json, b.cfg.name, tier, "rounds", None))
        offs = list(range(41))
        if tier == "quick":
            offs = [0, 1, 3, 7, 8, 9, 15, 16, 23, 24, 25, 31, 32, 33, 38, 39, 40]
        chunk = 3 if tier == "thorough" else 4
        for k in range(0, len(offs), chunk):
            jobs.append((lr.json, b.cfg.name, tier, "bytes", offs[k:k + chunk]))
    import concurrent.futures as cf
    with cf.ProcessPoolExecutor(max_workers=repo.JOBS) as ex:
        for d in ex.map(_worker, jobs):
            rep.merge(d)
    k = len(builds)
    rep.floor("C08.D1", 13 * (k - 1))
    rep.floor("C08.D2", (400 if tier == "quick" else 5000) * k)
    rep.floor("C08.D3", 2 * k)


_MODS = {}


def _worker(job):
    from . import report as _report
    js, cname, tier, what, offs = job[:5]
    rid2 = job[5] if len(job) > 5 else "C08.D2"
    r = _report.Report(rid2[:3], tier)
    r._known = []
    m = _MODS.get(js)
    if m is None:
        m = ir.Module.load(js)
        _MODS[js] = m
    try:
        if not m.funcs.get("ascon_extract_bytes") or m.funcs["ascon_extract_bytes"].decl:
            raise repo.AnalysisBroken("ascon_extract_bytes has no IR body in %s" % cname)
        if what == "rounds":
            r.configs.append(cname)
            rule_rounds(r, m, cname)
            rule_copy_init(r, m, cname)
        else:
            rule_byteops(r, m, cname, tier, offs, rid=rid2)
    except repo.AnalysisBroken as e:
        r.broken.append(str(e))
    return r.export()


# ---------------------------------------------------------------------------
def round_loop(f):
    """the loop that runs the rounds: (counter phi, its latch value, loop) where the
    counter is a header phi that starts from the first_round parameter (through
    width changes), is advanced by exactly one per iteration, and is compared
    with the constant 12 (in any predicate form) to leave the loop; None if no
    such loop is found"""
    first = f.params[1] if len(f.params) > 1 else None
    for lp in f.d.get("loops", []):
        if lp.get("depth") != 1:
            continue
        blocks = set(lp["blocks"])
        hdr = f.bmap[lp["header"]]
        for p in hdr.insts:
            if p.op != "phi" or not p.ty.startswith("i"):
                continue
            latch = [v for v, pr in p.d["inc"] if pr in blocks]
            init = [v for v, pr in p.d["inc"] if pr not in blocks]
            if len(latch) != 1 or not init:
                continue
            inc = f.defs.get(latch[0]) if ir.is_local(latch[0]) else None
            if inc is None or inc.op != "add" or inc.ops[0] != p.id or ir.const_int(inc.ops[1]) != 1:
                continue
            if not all(v == first or _is_cast_of(f, v, first) for v in init):
                continue
            # compared with 12 somewhere in the loop (possibly through casts)
            # (a do/while form compares the advanced value: `while (++round < 12)`)
            names = {p.id, latch[0]}
            for i in f.insts():
                if i.block.name in blocks and i.op in ("zext", "sext", "trunc") and isinstance(i.ops[0], str) and i.ops[0] in names:
                    names.add(i.id)

            def _is(v):
                return isinstance(v, str) and v in names
            cmp12 = any(i.op == "icmp" and i.block.name in blocks and
                        ((_is(i.ops[0]) and ir.const_int(i.ops[1]) in (12, 11)) or
                         (_is(i.ops[1]) and ir.const_int(i.ops[0]) in (12, 11))) for i in f.insts())
            if cmp12:
                return p, latch[0], lp
    return None


def rule_rounds(rep, m, cname):
    rid = "C08.D1"
    f = m.funcs.get("ascon_permute")
    if f is None or f.decl:
        rep.notes.append("%s: ascon_permute is implemented in assembly (see C18.D5)" % cname)
        return
    rep.functions += 1
    rl = round_loop(f)
    if rl is None:
        _rounds_by_evaluation(rep, rid, m, f, cname)
        return
    cnt, latch_val, lp = rl
    latch_vals = [latch_val]
    rep.instance(rid, 1, {"config": cname, "loop": "round counter first_round..11 step 1", "scev_trip": lp.get("btc")})
    for r in range(12):
        mc = Machine(m)
        mc.nonlinear = True
        mc.force = {("ascon_permute", latch_vals[0]): const_bits(12, mc.width(cnt.ty))}
        try:
            st = mc.new_obj("S", 40)
            before = canon(mc, st)
            mc.call("ascon_permute", [st, const_bits(r, 8)])
            after = canon(mc, st)
            want = words_to_bytes(spec_round(bytes_to_words(before), r))
        except Unsupported as e:
            rep.unproved_item(rid, "%s: round %d: %s" % (cname, r, e))
            continue
        diff = [k for k in range(320) if after[k] != want[k]]
        if diff:
            k = diff[0]
            rep.violation(rid, "ascon_permute:round%d" % r, f.src,
                          "round %d of ascon_permute differs from the specification's round function in %d of 320 state "
                          "bits (first: word %d bit %d; the polynomials differ in %d monomial(s))" % (
                              r, len(diff), k // 64, 63 - ((k % 64) // 8) * 8 - (7 - k % 8) if False else (7 - (k % 64) // 8) * 8 + k % 8,
                              len(after[k] ^ want[k])), config=cname,
                          detail={"round": r, "bits": diff[:32]})
        else:
            rep.instance(rid, 1, {"config": cname, "round": r, "identity": "320 polynomials equal",
                                  "monomials": sum(len(x) for x in want)})


def _rounds_by_evaluation(rep, rid, m, f, cname):
    """ascon_permute has no single-step round loop (unrolled, restructured): the
    round-by-round identity does not apply.  The last round alone (first_round
    = 11) is still compared as a polynomial identity for every state; for the
    other starting rounds the function is evaluated by constant propagation on
    fixed states: a difference is a witnessed violation, agreement leaves the
    obligation unproved (never an alarm)."""
    import hashlib
    shape = "%s: no loop of ascon_permute runs a counter from first_round in steps of one up to 12" % cname
    # first_round = 11: one round, all states
    try:
        mc = Machine(m)
        mc.nonlinear = True
        st = mc.new_obj("S", 40)
        before = canon(mc, st)
        mc.call("ascon_permute", [st, const_bits(11, 8)])
        after = canon(mc, st)
        want = words_to_bytes(spec_round(bytes_to_words(before), 11))
        diff = [k for k in range(320) if after[k] != want[k]]
        if diff:
            rep.violation(rid, "ascon_permute:round11", f.src,
                          "ascon_permute(state, 11) differs from the specification's last round in %d of 320 state bits "
                          "(polynomial identity over all states)" % len(diff), config=cname, detail={"round": 11, "bits": diff[:32]})
        else:
            rep.instance(rid, 1, {"config": cname, "round": 11, "identity": "320 polynomials equal (whole function, first_round 11)"})
    except Unsupported as e:
        rep.unproved_item(rid, "%s; first_round 11: %s" % (shape, e))
    states = [bytes(40), bytes([0xff] * 40)] + [
        (hashlib.sha256(b"c08-%d-a" % k).digest() + hashlib.sha256(b"c08-%d-b" % k).digest())[:40] for k in range(3)]
    for r in range(11):
        bad = None
        try:
            for sb in states:
                mc = Machine(m)
                mc.nonlinear = True
                st = mc.new_obj("S", 40, symbolic=False)
                mc.store(st, cbytes(sb))
                before = canon(mc, st)
                mc.call("ascon_permute", [st, const_bits(r, 8)])
                after = canon(mc, st)
                if not (affine.is_const(before) and affine.is_const(after)):
                    raise Unsupported("evaluation on a constant state did not give a constant")
                w = bytes_to_words(before)
                for q in range(r, 12):
                    w = spec_round(w, q)
                want = words_to_bytes(w)
                if tuple(after) != tuple(want):
                    bad = sb
                    break
        except Unsupported as e:
            rep.unproved_item(rid, "%s; first_round %d: %s" % (shape, r, e))
            continue
        if bad is not None:
            rep.violation(rid, "ascon_permute:first_round%d" % r, f.src,
                          "ascon_permute(state, %d) is not the specification's permutation with %d round(s): for the state whose "
                          "stored bytes are %s the result differs (evaluated by constant propagation through the function)" % (
                              r, 12 - r, bad.hex()), config=cname, detail={"first_round": r, "state": bad.hex()})
        else:
            rep.unproved_item(rid, "%s; first_round %d: round-by-round proof not applicable, %d constant evaluations agree "
                              "with the specification" % (shape, r, len(states)))


def _is_cast_of(f, v, src):
    d = f.defs.get(v) if ir.is_local(v) else None
    while d is not None and d.op in ("zext", "sext", "trunc"):
        if d.ops[0] == src:
            return True
        d = f.defs.get(d.ops[0]) if ir.is_local(d.ops[0]) else None
    return False


# ---------------------------------------------------------------------------
def rule_byteops(rep, m, cname, tier, offsets=None, rid="C08.D2"):
    need = ["ascon_add_bytes", "ascon_overwrite_bytes", "ascon_overwrite_with_zeroes", "ascon_extract_bytes",
            "ascon_extract_and_add_bytes", "ascon_extract_and_overwrite_bytes"]
    for n in need:
        if n not in m.funcs or m.funcs[n].decl:
            raise repo.AnalysisBroken("%s has no IR body in %s" % (n, cname))
    rep.functions += len(need)
    bad = {}
    count = 0

    def sym(name, n):
        return tuple(atom_bit((name, k // 8, k % 8)) for k in range(n * 8))
    for off in (offsets if offsets is not None else range(0, 41)):
        for size in sizes_for(off, tier):
            c_off, c_size = const_bits(off, 32), const_bits(size, 32)
            lo, hi = off * 8, (off + size) * 8
            for op in ("add", "overwrite", "zero", "extract", "xadd", "xadd_alias", "xover", "xover_alias"):
                mc = Machine(m)
                try:
                    st = mc.new_obj("S", 40)
                    before = canon(mc, st)
                    data = mc.new_obj("D", max(size, 1))
                    dbits = sym("D", size)
                    outp = mc.new_obj("O", max(size, 1), symbolic=False)
                    if op == "add":
                        mc.call("ascon_add_bytes", [st, data, c_off, c_size])
                        want = tuple(before[k] ^ dbits[k - lo] if lo <= k < hi else before[k] for k in range(320))
                        got_out = want_out = ()
                    elif op == "overwrite":
                        mc.call("ascon_overwrite_bytes", [st, data, c_off, c_size])
                        want = tuple(dbits[k - lo] if lo <= k < hi else before[k] for k in range(320))
                        got_out = want_out = ()
                    elif op == "zero":
                        mc.call("ascon_overwrite_with_zeroes", [st, c_off, c_size])
                        want = tuple(ZERO if lo <= k < hi else before[k] for k in range(320))
                        got_out = want_out = ()
                    elif op == "extract":
                        mc.call("ascon_extract_bytes", [st, outp, c_off, c_size])
                        want = before
                        got_out, want_out = mc.load(outp, size), before[lo:hi]
                    elif op in ("xadd", "xadd_alias"):
                        o2 = data if op.endswith("alias") else outp
                        mc.call("ascon_extract_and_add_bytes", [st, data, o2, c_off, c_size])
                        want = before
                        got_out = mc.load(o2, size)
                        want_out = tuple(before[lo + k] ^ dbits[k] for k in range(size * 8))
                    else:
                        o2 = data if op.endswith("alias") else outp
                        mc.call("ascon_extract_and_overwrite_bytes", [st, data, o2, c_off, c_size])
                        want = tuple(dbits[k - lo] if lo <= k < hi else before[k] for k in range(320))
                        got_out = mc.load(o2, size)
                        want_out = tuple(before[lo + k] ^ dbits[k] for k in range(size * 8))
                    after = canon(mc, st)
                except Unsupported as e:
                    rep.unproved_item(rid, "%s %s(offset %d, size %d): %s" % (cname, op, off, size, e))
                    continue
                count += 1
                if after != want or tuple(got_out) != tuple(want_out):
                    bad.setdefault(op, []).append((off, size))
    names = {"add": "ascon_add_bytes", "overwrite": "ascon_overwrite_bytes", "zero": "ascon_overwrite_with_zeroes",
             "extract": "ascon_extract_bytes", "xadd": "ascon_extract_and_add_bytes",
             "xadd_alias": "ascon_extract_and_add_bytes (input == output)",
             "xover": "ascon_extract_and_overwrite_bytes", "xover_alias": "ascon_extract_and_overwrite_bytes (input == output)"}
    for op, cases in bad.items():
        fn = names[op].split(" ")[0]
        rep.violation(rid, "%s:%s" % (fn, op), m.funcs[fn].src,
                      "%s does not act on exactly the addressed canonical bytes for %d (offset, size) pair(s), e.g. %s" % (
                          names[op], len(cases), cases[:6]), config=cname, detail={"cases": cases[:100]})
    good = count - sum(len(v) for v in bad.values())
    rep.instance(rid, good, {"config": cname, "cases": count, "ops": 8,
                             "sample": "add/overwrite/zero/extract/extract_and_add/extract_and_overwrite x (offset, size)"})


def rule_copy_init(rep, m, cname):
    rid = "C08.D3"
    for fn in ("ascon_init", "ascon_copy"):
        if fn not in m.funcs or m.funcs[fn].decl:
            raise repo.AnalysisBroken("%s has no IR body in %s" % (fn, cname))
    mc = Machine(m)
    mc.hooks["ascon_backend_init"] = lambda mach, args: None
    try:
        st = mc.new_obj("S", 40)
        mc.call("ascon_init", [st])
        z = canon(mc, st)
        if all(b == ZERO for b in z):
            rep.instance(rid, 1, {"config": cname, "function": "ascon_init"})
        else:
            rep.violation(rid, "ascon_init:zero", m.funcs["ascon_init"].src, "ascon_init does not zero the canonical state", config=cname)
        mc = Machine(m)
        a = mc.new_obj("A", 40)
        b2 = mc.new_obj("B", 40)
        src = canon(mc, b2)
        mc.call("ascon_copy", [a, b2])
        if canon(mc, a) == src and canon(mc, b2) == src:
            rep.instance(rid, 1, {"config": cname, "function": "ascon_copy"})
        else:
            rep.violation(rid, "ascon_copy:copy", m.funcs["ascon_copy"].src, "ascon_copy does not copy the canonical state", config=cname)
    except Unsupported as e:
        rep.unproved_item(rid, "%s: %s" % (cname, e))
