"""C09 - results identical for every build configuration.

Decided clauses (see DESIGN.md section 3, C09):
  D1  per-back-end pre-computed initial values agree with the specification
      (and hence with what the generic path computes) in every encoding.
  D2  acquire/release balance: in the CHECK_ACQUIRE_RELEASE build no sequence
      of public calls from one thread can reach the checker's abort().
  D3  the back-end specific block primitives are alias-safe in the same way
      (input == output), a necessary condition for identical results.
  D4  masked AEAD = specification in every share configuration.
  D5  the saved form of an ISAP key is the canonical byte image of its states
      in every C back end (a key saved by one build loads under another).
Undecided: byte-identical results of arbitrary workloads across builds.
"""
from . import facts, ir, repo, typestate
from . import tables

LEVEL = "other"
MANIFEST = {
    "text": "decides D1 (pre-computed per-back-end initial values equal the specification in all three "
            "encodings), D2 (acquire/release balance: typestate over the whole call graph in the "
            "CHECK_ACQUIRE_RELEASE build for every share triple, abort unreachable) and D3 (alias safety of the "
            "per-back-end block primitives), D5 (the saved ISAP key has the same canonical byte form in every C back end); "
            "functional agreement of the C back ends follows from C01-C08 being "
            "decided per back end against one specification; results of the non-x86 assembly back ends are not "
            "decided",
    "note": "trusted: clang/LLVM-14 lowering and irdump; storage callbacks and libc do not touch the checker "
            "flag; CFG paths over-approximate feasible paths; oracle = python model of the ASCON permutation "
            "self-checked against the published HASH/XOF/HASHA/XOFA states",
    "technique": "typestate abstract interpretation over linked LLVM IR with bottom-up call summaries; "
                 "constant-table decoding against a specification oracle",
    "engines": ["irdump", "asconfacts", "av"],
}

# the four primitives that *are* the automaton: name -> {entry: exit}
AUTOMATON = {
    "ascon_init": {0: 1},
    "ascon_free": {1: 0},
    "ascon_acquire": {0: 1},
    "ascon_release": {1: 0},
}


def check_configs(tier):
    triples = repo.share_triples() if tier == "thorough" else repo.QUICK_TRIPLES
    return [repo.Config("asm", k, d, m, check=True) for (k, d, m) in triples]


def run(rep, tier):
    rep.explanation = (
        "D2: typestate abstract interpretation of the acquire/release checker "
        "flag over the linked -O0+SROA LLVM IR of the whole library (C and C++ "
        "units) in CHECK_ACQUIRE_RELEASE builds for each share triple; every "
        "function declared in src/ascon/*.h and every exported C++ member must "
        "map flag 0 to exactly {0} with abort unreachable.  D1: the pre-computed "
        "initial-state tables in each back end's encoding are decoded and "
        "compared with P12(IV) computed from the specification.")
    rep.undecided = ("byte-identical results of whole workloads across "
                     "configurations (functional equality) are not decided")
    rep.assumptions = [
        "indirect calls (storage callbacks) and libc do not touch the checker flag",
        "CFG paths over-approximate feasible paths; a correlated "
        "acquire/release idiom would be reported as unproved",
    ]
    rule_d2(rep, tier)
    tables.rule_tables(rep, tier, "C09.D1", families=("xof", "xofa", "hash", "hasha", "kmac", "kmaca"))
    rule_d3(rep, tier)
    # D4: the masked AEAD gives the specification's result in every share configuration (fresh and re-randomised
    # key objects, all key values, all masking randomness) - hence identical results across those builds
    from . import rules_c10
    cfgs = [repo.Config("c64", 4, 2, 4), repo.Config("c64", 3, 2, 3), repo.Config("c32", 4, 3, 3), repo.Config("c64", 2, 2, 2),
            repo.Config("c32", 3, 1, 3), repo.Config("c64", 2, 2, 4)]
    if tier != "quick":
        cfgs += [repo.Config("c32", 4, 4, 4), repo.Config("c64", 3, 3, 3), repo.Config("c64", 4, 1, 4), repo.Config("c32", 2, 1, 2),
                 repo.Config("c64", 3, 3, 4), repo.Config("direct", 4, 2, 4), repo.Config("direct", 3, 2, 3)]
    rules_c10.rule_key_lifecycle(rep, tier, rid="C09.D4", cfgs=cfgs, prop="C09")
    # D5: byte strings that leave the library for storage have one form in every back end: the saved ISAP key is the
    # canonical big-endian image of the two pre-computed states (and loads back to the same key), whatever the layout
    from . import modecheck, modes
    rid = "C09.D5"
    rep.rule(rid, "a saved ISAP key is the canonical byte image of the pre-computed states in every C back end")
    cases = []
    for js, cname, layout, maxs, units in modes.prepare(tier):
        for alg in ("128", "128a", "80pq"):
            cases.append((js, cname, layout, "case_isap", (alg, 1, 1), "isap %s saved key" % alg, "ascon%s_isap_aead_save_key" % alg))
    for d in modecheck.run_cases("C09", rid, tier, cases, None):
        rep.merge(d)
    rep.floor_discharged(rid, len(cases))
    # D6: the byte-level state operations, through which every mode reads and writes the state, act on the same
    # canonical bytes in every C back end (the C08.D2 obligations for unaligned offsets and sizes that end inside a word)
    from . import rules_c08
    import concurrent.futures as cf
    rid = "C09.D6"
    rep.rule(rid, "byte-level state operations act on the same canonical bytes in every C back end (unaligned offsets, in-word ends)")
    builds = repo.configure_many([repo.Config(b) for b in ("c64", "c32", "direct")])
    jobs = []
    for b in builds:
        lr = repo.lower(b, group="lib", level="O0", langs=("c",), scev=True)
        for offs in ([0, 1, 7], [8, 9, 15], [17, 31, 33], [38, 39, 40]):
            jobs.append((lr.json, b.cfg.name, "quick", "bytes", offs, rid))
    with cf.ProcessPoolExecutor(max_workers=repo.JOBS) as ex:
        for d in ex.map(rules_c08._worker, jobs):
            rep.merge(d)
    rep.floor(rid, 200 * len(builds))


def rule_d2(rep, tier):
    rid = "C09.D2"
    rep.rule(rid, "public function: checker flag 0 -> {0}, abort unreachable")
    cfgs = check_configs(tier)
    builds = repo.configure_many(cfgs)
    api = facts.public_c_api(builds[0])
    # file-local helpers are inlined: the checker's flag is found in ascon_acquire / ascon_release however the
    # check is factored
    lowered = repo.lower_many([(b, dict(group="lib", level="O0", inline_internal=True,
                                        tolerate=_cpp_units(b))) for b in builds])
    for b, lr in zip(builds, lowered):
        m = ir.Module.load(lr.json)
        rep.configs.append(b.cfg.name)
        rep.units.update(lr.units)
        for u, err in lr.failed:
            rep.notes.append("unit %s not lowered by clang in %s (skipped)" % (u, b.cfg.name))
        flags = typestate.find_flag_globals(m)
        if len(flags) != 1:
            raise repo.AnalysisBroken(
                "expected exactly one checker flag written by ascon_acquire and "
                "ascon_release in %s, found %r" % (b.cfg.name, flags))
        flag = flags[0]
        domain, nonconst = typestate.value_domain(m, flag)
        if nonconst or sorted(domain) != [0, 1]:
            raise repo.AnalysisBroken("checker flag %s is not a 0/1 flag: values %r" % (flag, domain))
        try:
            summ = typestate.analyse(m, flag, domain)
        except RecursionError as e:
            raise repo.AnalysisBroken(str(e))
        rep.functions += len(summ)
        # the automaton itself (anchor)
        for name, want in AUTOMATON.items():
            s = summ.get(name)
            if s is None:
                raise repo.AnalysisBroken("%s not defined in %s" % (name, b.cfg.name))
            for v in domain:
                if v in want:
                    ok = s.exits[v] == frozenset([want[v]]) and not s.error[v]
                else:
                    ok = bool(s.error[v]) and not s.exits[v]
                if not ok:
                    raise repo.AnalysisBroken(
                        "checker automaton changed: %s has summary %s in %s" % (
                            name, s.as_text(), b.cfg.name))
        # obligations
        n = 0
        for f in m.defined():
            if f.internal or f.name in AUTOMATON:
                continue
            is_public_c = f.name in api
            is_cpp = f.name.startswith("_ZN5ascon") or f.name.startswith("_ZNK5ascon")
            if not (is_public_c or is_cpp):
                continue
            n += 1
            s = summ[f.name]
            if s.error[0]:
                chain = " -> ".join("%s (%s)" % (fr[0], fr[1]) for fr in s.error[0])
                rep.violation(rid, f.name, f.src,
                              "checker abort reachable from a balanced state: %s: %s" % (
                                  chain, s.error[0][-1][2]),
                              config=b.cfg.name,
                              detail={"path": [list(fr) for fr in s.error[0]]})
            elif not s.exits[0]:
                # never returns normally (e.g. trap in an abstract class'
                # deleting destructor): vacuous
                rep.instance(rid, 1)
            elif s.exits[0] != frozenset([0]):
                rep.violation(rid, f.name, f.src,
                              "returns with checker flag in {%s} when entered balanced" % (
                                  ",".join(map(str, sorted(s.exits[0])))),
                              config=b.cfg.name)
            else:
                rep.instance(rid, 1, {"config": b.cfg.name, "function": f.name,
                                      "summary": s.as_text()})
        if n < 180:
            rep.broken.append("only %d public functions found in %s" % (n, b.cfg.name))
    rep.floor(rid, 180 * len(cfgs))


def _cpp_units(build):
    return tuple(u.rel for u in build.group("lib", ("c++",)))


def rule_d3(rep, tier):
    """D3: the back-end specific encrypt/decrypt/extract primitives obey the
    load-before-store discipline that makes identical input and output buffers
    (documented as allowed) behave the same in every back end."""
    from . import rules_c07
    rid = "C09.D3"
    rep.rule(rid, "per-back-end block primitives read each input byte before storing the same-position output byte")
    cfgs = [repo.Config(b) for b in repo.BACKENDS]
    if tier == "thorough":
        cfgs += [repo.Config(b, 4, 1, 4) for b in ("c64", "c32", "direct")]
    builds = repo.configure_many(cfgs)
    for b in builds:
        lr = repo.lower(b, group="lib", level="O0", langs=("c",))
        m = ir.Module.load(lr.json)
        if b.cfg.name not in rep.configs:
            rep.configs.append(b.cfg.name)
        rules_c07.rule_inplace(rep, m, b.cfg.name, b, rid)
