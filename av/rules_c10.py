"""C10 - masked code computes the unmasked function.

  D1  share-arity consistency: words derived from a masked key object are only
      passed to ascon_masked_word_x<K>_* with K = effective key shares; every
      x<K> primitive used by the masked AEAD code has K in {key shares, data
      shares}; conversions x<A>_from_x<B> / copy_to/from connect exactly the
      key and data share counts
  D2  (av/affine.py) linear word operations preserve the masked value and
      refresh every share, for symbolic randomness: GF(2)-affine abstract
      interpretation at bit level with the word's own store function as the
      decoder
  D3  randomness plumbing: every key-share permutation in the masked AEAD is
      preceded by drawing KEY_SHARES-1 fresh words into `preserve`
Undecided: masked permutation == unmasked permutation (non-linear share
algebra, a functional property).
"""
import os
import re

from . import ir, ptr, repo

LEVEL = "other"
MANIFEST = {
    "text": "decides D1 (share-count consistency of every masked-word primitive call with the configured "
            "key/data share counts, in every share triple and masked back end), D2 (linear masked-word "
            "operations - load, store, zero, randomize, xor, from_x<B>, replace, pad/separator - preserve the "
            "encoded value for every value of the random source and put fresh randomness into every share; "
            "proved by a GF(2)-affine bit-level abstract interpretation) and D3 (fresh randomness drawn "
            "before every key-share permutation); equality of the masked permutation with the unmasked one "
            "is a non-linear functional property and is not decided",
    "note": "trusted: clang lowering, irdump; D2 takes the word's own store function as the definition of "
            "the encoded value and treats ascon_trng_generate_64 results as fresh symbols",
    "technique": "resolved-callee arity census against preprocessor-derived share counts; GF(2)-affine "
                 "relational abstract interpretation (bit-level) of straight-line word operations",
    "engines": ["irdump", "av"],
}

WORD_FN = re.compile(r"^ascon_masked_word_x(\d)_(\w+?)(?:_x(\d))?$")
STATE_FN = re.compile(r"^ascon_x(\d)_(\w+?)(?:_x(\d))?$")


def effective_shares(build):
    m = repo.macros(build, os.path.join(repo.REPO, "src/masking/ascon-masked-config.h"))

    def val(name, depth=0):
        v = m.get(name, "").strip()
        if re.match(r"^\d+$", v):
            return int(v)
        if v in m and depth < 5:
            return val(v, depth + 1)
        raise repo.AnalysisBroken("cannot evaluate %s (= %r)" % (name, v))
    return val("ASCON_MASKED_KEY_SHARES"), val("ASCON_MASKED_DATA_SHARES"), val("ASCON_MASKED_MAX_SHARES")


def configs(tier):
    if tier == "quick":
        triples = [(4, 2, 4), (3, 2, 3), (2, 1, 2), (4, 4, 4), (4, 3, 4), (4, 2, 3), (3, 3, 3)]
        return [repo.Config(b, k, d, m) for b in ("asm", "c64") for (k, d, m) in triples] + \
            [repo.Config("c32", 4, 2, 4), repo.Config("direct", 4, 2, 4), repo.Config("c32", 3, 1, 3)]
    return [repo.Config(b, k, d, m) for b in ("asm", "c64", "c32", "direct") for (k, d, m) in repo.share_triples()]


def run(rep, tier):
    rep.explanation = (
        "D1: every call to ascon_masked_word_x<K>_* / ascon_x<K>_* in the masked key and masked AEAD units "
        "is resolved and its K compared with the share counts the preprocessor derives for the "
        "configuration.  D2: see av/affine.py.  D3: call-order check in the masked AEAD init/finalize.")
    rep.undecided = "equality of the masked and unmasked permutations (non-linear)"
    cfgs = configs(tier)
    builds = repo.configure_many(cfgs)
    lowered = repo.lower_many([(b, dict(group="lib", level="O0", langs=("c",))) for b in builds])
    rep.rule("C10.D1", "share-count of every masked primitive call matches the configured key / data shares")
    rep.rule("C10.D3", "KEY_SHARES-1 fresh random words are drawn into `preserve` before each key-share permutation")
    for b, lr in zip(builds, lowered):
        m = ir.Module.load(lr.json)
        rep.configs.append(b.cfg.name)
        rep.units.update(lr.units)
        ks, ds, ms = effective_shares(b)
        rule_arity(rep, m, b.cfg.name, ks, ds)
        rule_preserve(rep, m, b.cfg.name, ks)
    rep.floor("C10.D1", 40 * len(cfgs))
    rep.floor("C10.D3", 6 * len(cfgs))
    try:
        from . import affine
    except ImportError:
        affine = None
    if affine is not None:
        affine.rule_linear_ops(rep, tier, "C10.D2")
    rule_key_lifecycle(rep, tier)
    from . import asm_anf
    asm_anf.rule_masked_rounds(rep, "C10.D5", tier)


def rule_key_lifecycle(rep, tier):
    """D4 (mode level, av/sponge.py): a masked key object stands for its key for
    its whole life - after init, and after any number of re-randomisations, it
    extracts to the original key and masked encryption / decryption with it
    equals the unmasked specification, for every key value and every value of
    the masking randomness; in several share configurations."""
    from . import modes, rules_c01
    from .affine import Unsupported
    rid = "C10.D4"
    rep.rule(rid, "a masked key object (fresh or re-randomised) extracts to its key and drives the specification's AEAD")
    cfgs = [repo.Config("c64"), repo.Config("c32", 3, 2, 3), repo.Config("c64", 2, 1, 2)] if tier == "quick" else \
        [repo.Config("c64"), repo.Config("c32"), repo.Config("c32", 3, 2, 3), repo.Config("c64", 2, 1, 2), repo.Config("c64", 3, 3, 3),
         repo.Config("c32", 2, 2, 2), repo.Config("c64", 4, 4, 4), repo.Config("c64", 2, 2, 4)]
    prep = modes.prepare(tier, cfgs=cfgs)
    items = []
    for js, cname, layout, maxs, units in prep:
        for alg in ("128", "128a", "80pq"):
            items.append((js, cname, layout, maxs, alg))
    for d in modes.parallel(items, _lifecycle_worker):
        rep.merge(d)
    rep.floor_discharged(rid, 2 * len(items) - 2)


def _lifecycle_worker(item):
    from . import modes, report, rules_c01
    from .affine import Unsupported
    js, cname, layout, maxs, alg = item
    rid = "C10.D4"
    r = report.Report("C10", "quick")
    r._known = []
    m = modes.load_module(js)
    for fam in ("masked", "masked-rerandomized"):
        for (a, n) in ((1, 9),):
            fn = "ascon_masked_key_%s_randomize_with_trng" % ("160" if alg == "80pq" else "128") if fam != "masked" else \
                "ascon_masked_key_%s_init" % ("160" if alg == "80pq" else "128")
            try:
                bad = rules_c01.check_shape(m, layout, maxs, alg, fam, a, n)
            except Unsupported as e:
                r.unproved_item(rid, "%s %s %s: %s" % (cname, alg, fam, e))
                continue
            except Exception:
                import traceback
                r.broken.append("%s %s %s %s: %s" % (rid, cname, alg, fam, traceback.format_exc()[-500:]))
                continue
            f = m.funcs.get(fn)
            if bad:
                r.violation(rid, "%s:%s" % (fn, bad[0]), f.src if f else fn,
                            "ASCON-%s with a %s masked key: %s" % (alg, "re-randomised" if fam != "masked" else "fresh", bad[1]),
                            config=cname)
            else:
                r.instance(rid, 1, {"config": cname, "algorithm": alg, "key": fam})
    return r.export()


def _key_param(f):
    for k, t in enumerate(f.param_ty):
        if "ascon_masked_key_128_t" in t or "ascon_masked_key_160_t" in t:
            return k
    return None


def rule_arity(rep, m, cname, ks, ds):
    rid = "C10.D1"
    for f in m.defined():
        src = f.srcfile
        in_key_unit = src.endswith("ascon-masked-key.c")
        in_aead = "ascon-aead-masked" in src
        if not (in_key_unit or in_aead):
            continue
        rep.functions += 1
        kp = _key_param(f)
        R = ptr.resolver(f)
        for c in f.calls():
            cal = c.callee or ""
            mw = WORD_FN.match(cal) or STATE_FN.match(cal)
            if not mw:
                continue
            k1 = int(mw.group(1))
            k2 = int(mw.group(3)) if mw.group(3) else None
            inst = "%s->%s" % (f.name, cal)
            # (a) words derived from the key object use the key share count
            key_derived = False
            if kp is not None:
                argty = c.d.get("argty", [])
                for an, a in enumerate(c.ops):
                    if an < len(argty) and argty[an].endswith("*"):
                        if any(r == ("param", f.params[kp]) for r in R.resolve(a).roots):
                            key_derived = True
            if key_derived and k2 is None and k1 != ks:
                rep.violation(rid, inst, c.where(),
                              "%s applies the %d-share primitive %s to a word of the masked key, but keys are "
                              "masked with %d shares in this configuration" % (f.name, k1, cal, ks), config=cname)
                continue
            # (b) arity census
            allowed = {ks, ds}
            if k1 not in allowed or (k2 is not None and k2 not in allowed):
                rep.violation(rid, inst, c.where(),
                              "%s calls %s, whose share count(s) %s are neither the key (%d) nor the data (%d) "
                              "share count of this configuration" % (f.name, cal, [k1] + ([k2] if k2 else []), ks, ds),
                              config=cname)
                continue
            if k2 is not None and ks != ds and {k1, k2} != {ks, ds}:
                rep.violation(rid, inst, c.where(),
                              "%s converts between %d and %d shares with %s, but the configuration uses %d key and "
                              "%d data shares" % (f.name, k1, k2, cal, ks, ds), config=cname)
                continue
            rep.instance(rid, 1, {"config": cname, "function": f.name, "callee": cal, "key_shares": ks, "data_shares": ds})


def rule_preserve(rep, m, cname, ks):
    """before every ascon_x<KS>_permute in the masked AEAD init / finalize, the
    preserve[] words (KS-1 of them) are freshly drawn from the TRNG"""
    rid = "C10.D3"
    for f in m.defined():
        if "ascon-aead-masked-1" not in f.srcfile and "ascon-aead-masked-8" not in f.srcfile:
            continue
        R = ptr.resolver(f)
        perms = [c for c in f.calls() if re.match(r"^ascon_x%d_permute$" % ks, c.callee or "")]
        if not perms:
            continue
        # stores of TRNG results into the preserve parameter
        pidx = f.param_index("preserve")
        if pidx is None:
            continue
        pp = f.params[pidx]
        fresh = set()
        for i in f.insts():
            if i.op == "store":
                pv = R.resolve(i.ops[1])
                if pv.single() == ("param", pp) and pv.offset is not None:
                    d = f.defs.get(i.ops[0]) if ir.is_local(i.ops[0]) else None
                    if d is not None and d.op == "call" and d.callee == "ascon_trng_generate_64":
                        if all(f.dominates(i, p) for p in perms):
                            fresh.add(pv.offset // 8)
        need = set(range(ks - 1))
        if not need <= fresh:
            rep.violation(rid, "%s:preserve" % f.name, perms[0].where(),
                          "%s permutes the %d-share key state with preserve word(s) %s not freshly drawn from the "
                          "random source" % (f.name, ks, sorted(need - fresh)), config=cname)
        else:
            rep.instance(rid, 1, {"config": cname, "function": f.name, "fresh_words": sorted(fresh)})
