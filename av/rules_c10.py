"""C10 - masked code computes the unmasked function.

  D1  share-arity consistency: words derived from a masked key object are only
      passed to ascon_masked_word_x<K>_* with K = effective key shares; every
      x<K> primitive used by the masked AEAD code has K in {key shares, data
      shares}; conversions x<A>_from_x<B> / copy_to/from connect exactly the
      key and data share counts
  D2  (av/affine.py) linear word operations preserve the masked value and
      refresh every share, for symbolic randomness: GF(2)-affine abstract
      interpretation at bit level with the word's own store function as the
      decoder
  D3  randomness plumbing: every key-share permutation in the masked AEAD is
      preceded by drawing KEY_SHARES-1 fresh words into `preserve`
Undecided: masked permutation == unmasked permutation (non-linear share
algebra, a functional property).
"""
import os
import re

from . import ir, ptr, repo

LEVEL = "other"
MANIFEST = {
    "text": "decides D1 share-count consistency of every masked-word primitive call, D2 linear masked-word "
            "operations (incl. replace for every size) preserve the encoded value for every value of the random source and refresh every share "
            "(GF(2)-affine interpretation), D3 fresh randomness before every key-share permutation, D4 a masked "
            "key object (fresh or re-randomised) extracts to its key and masked AEAD with it equals the "
            "specification, D5 each loop iteration of the x86-64 assembly ascon_x2/x3/x4_permute and D6 of the C "
            "(64-bit and bit-interleaved) implementations is the specification's round on the decoded shares - "
            "polynomial identities in all share and randomness bits, exact for every state, sharing and "
            "randomness; side-channel security (probing model) and the AVR assembly are not decided",
    "note": "trusted: clang lowering, irdump; D2 takes the word's own store function as the definition of "
            "the encoded value and treats ascon_trng_generate_64 results as fresh symbols",
    "technique": "resolved-callee arity census against preprocessor-derived share counts; GF(2)-affine "
                 "relational abstract interpretation (bit-level) of straight-line word operations",
    "engines": ["irdump", "av"],
}

WORD_FN = re.compile(r"^ascon_masked_word_x(\d)_(\w+?)(?:_x(\d))?$")
STATE_FN = re.compile(r"^ascon_x(\d)_(\w+?)(?:_x(\d))?$")


def effective_shares(build):
    m = repo.macros(build, os.path.join(repo.REPO, "src/masking/ascon-masked-config.h"))

    def val(name, depth=0):
        v = m.get(name, "").strip()
        if re.match(r"^\d+$", v):
            return int(v)
        if v in m and depth < 5:
            return val(v, depth + 1)
        raise repo.AnalysisBroken("cannot evaluate %s (= %r)" % (name, v))
    return val("ASCON_MASKED_KEY_SHARES"), val("ASCON_MASKED_DATA_SHARES"), val("ASCON_MASKED_MAX_SHARES")


def configs(tier):
    if tier == "quick":
        triples = [(4, 2, 4), (3, 2, 3), (2, 1, 2), (4, 4, 4), (4, 3, 4), (4, 2, 3), (3, 3, 3)]
        return [repo.Config(b, k, d, m) for b in ("asm", "c64") for (k, d, m) in triples] + \
            [repo.Config("c32", 4, 2, 4), repo.Config("direct", 4, 2, 4), repo.Config("c32", 3, 1, 3)]
    return [repo.Config(b, k, d, m) for b in ("asm", "c64", "c32", "direct") for (k, d, m) in repo.share_triples()]


def run(rep, tier):
    rep.explanation = (
        "D1: every call to ascon_masked_word_x<K>_* / ascon_x<K>_* in the masked key and masked AEAD units "
        "is resolved and its K compared with the share counts the preprocessor derives for the "
        "configuration.  D2: see av/affine.py.  D3: call-order check in the masked AEAD init/finalize.")
    rep.undecided = "equality of the masked and unmasked permutations (non-linear)"
    cfgs = configs(tier)
    builds = repo.configure_many(cfgs)
    lowered = repo.lower_many([(b, dict(group="lib", level="O0", langs=("c",), scev=True)) for b in builds])
    rep.rule("C10.D1", "share-count of every masked primitive call matches the configured key / data shares")
    rep.rule("C10.D1t", "a masked state is handled by primitives of one share count between conversions (typestate of the share form)")
    rep.rule("C10.D3", "KEY_SHARES-1 fresh random words are drawn into `preserve` before each key-share permutation")
    for b, lr in zip(builds, lowered):
        m = ir.Module.load(lr.json)
        rep.configs.append(b.cfg.name)
        rep.units.update(lr.units)
        ks, ds, ms = effective_shares(b)
        rule_arity(rep, m, b.cfg.name, ks, ds)
        lri = repo.lower(b, group="lib", level="O0", langs=("c",), scev=True, inline_internal=True)
        mi = ir.Module.load(lri.json)
        rule_preserve(rep, mi, b.cfg.name, ks)
        rule_share_form(rep, mi, b.cfg.name, ks, ds)
    rep.floor("C10.D1", 40 * len(cfgs))
    rep.floor("C10.D3", 6 * len(cfgs))
    try:
        from . import affine
    except ImportError:
        affine = None
    if affine is not None:
        affine.rule_linear_ops(rep, tier, "C10.D2")
    rule_key_lifecycle(rep, tier)
    from . import asm_anf
    asm_anf.rule_masked_rounds(rep, "C10.D5", tier)
    rule_masked_rounds_c(rep, tier)


def rule_key_lifecycle(rep, tier, rid="C10.D4", cfgs=None, prop="C10"):
    """D4 (mode level, av/sponge.py): a masked key object stands for its key for
    its whole life - after init, and after any number of re-randomisations, it
    extracts to the original key and masked encryption / decryption with it
    equals the unmasked specification, for every key value and every value of
    the masking randomness; in several share configurations."""
    from . import modes, rules_c01
    from .affine import Unsupported
    rep.rule(rid, "a masked key object (fresh or re-randomised) extracts to its key and drives the specification's AEAD")
    if cfgs is None:
        cfgs = [repo.Config("c64"), repo.Config("c32", 3, 2, 3), repo.Config("c64", 2, 1, 2)] if tier == "quick" else \
            [repo.Config("c64"), repo.Config("c32"), repo.Config("c32", 3, 2, 3), repo.Config("c64", 2, 1, 2), repo.Config("c64", 3, 3, 3),
             repo.Config("c32", 2, 2, 2), repo.Config("c64", 4, 4, 4), repo.Config("c64", 2, 2, 4)]
    prep = modes.prepare(tier, cfgs=cfgs)
    items = []
    for js, cname, layout, maxs, units in prep:
        if cname not in rep.configs:
            rep.configs.append(cname)
        for alg in ("128", "128a", "80pq"):
            items.append((js, cname, layout, maxs, alg, rid, prop))
    for d in modes.parallel(items, _lifecycle_worker):
        rep.merge(d)
    rep.floor_discharged(rid, 2 * len(items) - 2)


def _lifecycle_worker(item):
    from . import modes, report, rules_c01
    from .affine import Unsupported
    js, cname, layout, maxs, alg, rid, prop = item
    r = report.Report(prop, "quick")
    r._known = []
    m = modes.load_module(js)
    for fam in ("masked", "masked-rerandomized"):
        for (a, n) in ((1, 9),):
            fn = "ascon_masked_key_%s_randomize_with_trng" % ("160" if alg == "80pq" else "128") if fam != "masked" else \
                "ascon_masked_key_%s_init" % ("160" if alg == "80pq" else "128")
            try:
                bad = rules_c01.check_shape(m, layout, maxs, alg, fam, a, n)
            except Unsupported as e:
                r.unproved_item(rid, "%s %s %s: %s" % (cname, alg, fam, e))
                continue
            except Exception:
                import traceback
                r.broken.append("%s %s %s %s: %s" % (rid, cname, alg, fam, traceback.format_exc()[-500:]))
                continue
            f = m.funcs.get(fn)
            if bad:
                r.violation(rid, "%s:%s" % (fn, bad[0]), f.src if f else fn,
                            "ASCON-%s with a %s masked key: %s" % (alg, "re-randomised" if fam != "masked" else "fresh", bad[1]),
                            config=cname)
            else:
                r.instance(rid, 1, {"config": cname, "algorithm": alg, "key": fam})
    return r.export()


def _key_param(f):
    for k, t in enumerate(f.param_ty):
        if "ascon_masked_key_128_t" in t or "ascon_masked_key_160_t" in t:
            return k
    return None


def rule_arity(rep, m, cname, ks, ds):
    rid = "C10.D1"
    for f in m.defined():
        src = f.srcfile
        in_key_unit = src.endswith("ascon-masked-key.c")
        in_aead = "ascon-aead-masked" in src
        if not (in_key_unit or in_aead):
            continue
        rep.functions += 1
        kp = _key_param(f)
        R = ptr.resolver(f)
        for c in f.calls():
            cal = c.callee or ""
            mw = WORD_FN.match(cal) or STATE_FN.match(cal)
            if not mw:
                continue
            k1 = int(mw.group(1))
            k2 = int(mw.group(3)) if mw.group(3) else None
            inst = "%s->%s" % (f.name, cal)
            # (a) words derived from the key object use the key share count
            key_derived = False
            if kp is not None:
                argty = c.d.get("argty", [])
                for an, a in enumerate(c.ops):
                    if an < len(argty) and argty[an].endswith("*"):
                        if any(r == ("param", f.params[kp]) for r in R.resolve(a).roots):
                            key_derived = True
            if key_derived and k2 is None and k1 != ks:
                rep.violation(rid, inst, c.where(),
                              "%s applies the %d-share primitive %s to a word of the masked key, but keys are "
                              "masked with %d shares in this configuration" % (f.name, k1, cal, ks), config=cname)
                continue
            # (b) arity census
            allowed = {ks, ds}
            if k1 not in allowed or (k2 is not None and k2 not in allowed):
                rep.violation(rid, inst, c.where(),
                              "%s calls %s, whose share count(s) %s are neither the key (%d) nor the data (%d) "
                              "share count of this configuration" % (f.name, cal, [k1] + ([k2] if k2 else []), ks, ds),
                              config=cname)
                continue
            if k2 is not None and ks != ds and {k1, k2} != {ks, ds}:
                rep.violation(rid, inst, c.where(),
                              "%s converts between %d and %d shares with %s, but the configuration uses %d key and "
                              "%d data shares" % (f.name, k1, k2, cal, ks, ds), config=cname)
                continue
            rep.instance(rid, 1, {"config": cname, "function": f.name, "callee": cal, "key_shares": ks, "data_shares": ds})


def rule_share_form(rep, m, cname, ks, ds, rid="C10.D1t"):
    """D1t: typestate of the share form of a masked permutation state.  A masked
    state is in K-share form after ascon_x<K>_* touched it and after
    ascon_x<K>_copy_from_x<B>(state, ...) converted it; every state-level
    primitive ascon_x<N>_*(state, ...) and every word primitive
    ascon_masked_word_x<N>_*(&state->M[i], ...) requires form N.  Applying an
    N-share primitive to a state in another form decodes a different value (the
    upper shares are stale or missing).  Forward dataflow over the CFG of each
    masked AEAD function (file-local helpers inlined); the form of a state the
    function receives is whatever its first primitive assumes."""
    if ks == ds:
        rep.instance(rid, 1, {"config": cname, "note": "key and data share counts coincide: one form only"})
        return
    for f in m.defined():
        if "ascon-aead-masked" not in f.srcfile:
            continue
        R = ptr.resolver(f)
        sites = {}
        state_roots = set()
        for c in f.calls():
            cal = c.callee or ""
            ms, mw = STATE_FN.match(cal), WORD_FN.match(cal)
            if not (ms or mw):
                continue
            argty = c.d.get("argty", [])
            ptrs = []
            for an, a in enumerate(c.ops):
                if an < len(argty) and "ascon_masked_state" in argty[an] or (mw and an < len(argty) and "ascon_masked_word" in argty[an]):
                    root = R.resolve(a).single()
                    if root is not None and root[0] in ("param", "alloca"):
                        ptrs.append((an, root))
            mm = ms or mw
            sites[id(c)] = (c, bool(ms), int(mm.group(1)), int(mm.group(3)) if mm.group(3) else None, ptrs)
            if ms:
                for an, root in ptrs:
                    state_roots.add(root)
        if not state_roots:
            continue
        by_block = {}
        for c, is_state, k1, k2, ptrs in sites.values():
            by_block.setdefault(c.block.name, []).append((c, is_state, k1, k2, ptrs))
        order = f.rpo()
        pos = {}
        for b in order:
            for n, i in enumerate(b.insts):
                pos[id(i)] = n
        IN = {order[0].name: {}}
        flagged = {}
        changed = True
        rounds = 0
        while changed and rounds < 50:
            changed = False
            rounds += 1
            for b in order:
                if b.name not in IN:
                    continue
                st = {k: set(v) for k, v in IN[b.name].items()}
                for (c, is_state, k1, k2, ptrs) in sorted(by_block.get(b.name, []), key=lambda t: pos[id(t[0])]):
                    if is_state and k2 is not None and len(ptrs) >= 2:
                        (d_an, d_root), (s_an, s_root) = ptrs[0], ptrs[1]
                        if s_root in state_roots and st.get(s_root) and k2 not in st[s_root]:
                            flagged[id(c)] = (c, k2, sorted(st[s_root]))
                        st[d_root] = {k1}
                        continue
                    for an, root in ptrs:
                        if root not in state_roots:
                            continue
                        if st.get(root) and k1 not in st[root]:
                            flagged[id(c)] = (c, k1, sorted(st[root]))
                        if is_state:
                            st[root] = {k1}
                        elif not st.get(root):
                            st[root] = {k1}
                for sx in b.succs:
                    cur = IN.get(sx.name)
                    if cur is None:
                        IN[sx.name] = {k: set(v) for k, v in st.items()}
                        changed = True
                    else:
                        for k, v in st.items():
                            if not v <= cur.get(k, set()):
                                cur.setdefault(k, set()).update(v)
                                changed = True
        for c, need, have in flagged.values():
            rep.violation(rid, "%s->%s" % (f.name, c.callee), c.where(),
                          "%s applies the %d-share primitive %s to a masked state that is in %s-share form at this point (last "
                          "touched by primitives of that share count, no conversion in between): the primitive reads shares that "
                          "are stale or absent, so the encoded value changes" % (f.name, need, c.callee, "/".join(map(str, have))),
                          config=cname)
        if not flagged:
            rep.instance(rid, 1, {"config": cname, "function": f.name, "state_objects": len(state_roots), "sites": len(sites)})



def rule_preserve(rep, m, cname, ks):
    """before every ascon_x<KS>_permute in the masked AEAD init / finalize, the
    preserve[] words (KS-1 of them) are freshly drawn from the TRNG"""
    rid = "C10.D3"
    for f in m.defined():
        if "ascon-aead-masked-1" not in f.srcfile and "ascon-aead-masked-8" not in f.srcfile:
            continue
        R = ptr.resolver(f)
        perms = [c for c in f.calls() if re.match(r"^ascon_x%d_permute$" % ks, c.callee or "")]
        if not perms:
            continue
        # stores of TRNG results into the preserve parameter
        pidx = f.param_index("preserve")
        if pidx is None:
            continue
        pp = f.params[pidx]
        fresh = set()
        unknown = False          # writes to preserve[] whose position this rule cannot name
        dom = f.dominators()
        for i in f.insts():
            if i.op == "store":
                pv = R.resolve(i.ops[1])
                if pv.single() == ("param", pp) and pv.offset is not None:
                    d = f.defs.get(i.ops[0]) if ir.is_local(i.ops[0]) else None
                    if d is not None and d.op == "call" and d.callee == "ascon_trng_generate_64":
                        if pv.variable:
                            unknown = True
                        elif all(f.dominates(i, p) for p in perms):
                            fresh.add(pv.offset // 8)
            elif i.op == "call" and (i.callee or "") != "ascon_trng_generate_64" and not re.match(r"^ascon_x\d_permute$", i.callee or ""):
                if any(isinstance(a, str) and R.resolve(a).single() == ("param", pp) for a in i.ops):
                    unknown = True       # preserve[] handed to a helper
        # for (i = 0; i < N; ++i) preserve[i] = ascon_trng_generate_64(trng): a constant-trip-count loop in front of the
        # permutation, address recurrence {preserve + c, +, 8}
        for lp in f.d.get("loops", []):
            if lp.get("btc_const") is None or len(lp.get("exiting", [])) != 1:
                continue
            blocks = set(lp["blocks"])
            for rec in lp.get("scev", []):
                mm = re.fullmatch(r"\{(?:\((\d+) \+ )?(%[\w.]+)\)?,\+,8\}(?:<[^>]*>)*", rec[2].strip()) if rec[1] == "store" else None
                if not mm or mm.group(2) != pp:
                    continue
                ident = rec[0].split("@", 1)[1] if "@" in rec[0] else None
                st = [i for i in f.insts() if i.op == "store" and i.block.name in blocks and i.ops[1] == ident]
                if len(st) != 1:
                    continue
                d = f.defs.get(st[0].ops[0]) if ir.is_local(st[0].ops[0]) else None
                if d is None or d.op != "call" or d.callee != "ascon_trng_generate_64":
                    continue
                ex = lp["exiting"][0]
                execs = lp["btc_const"] + 1 if st[0].block.name in dom[ex] else lp["btc_const"]
                if all(lp["header"] in dom[p.block.name] and p.block.name not in blocks for p in perms):
                    base = int(mm.group(1) or 0) // 8
                    fresh |= set(range(base, base + execs))
                    unknown = False if fresh else unknown
        need = set(range(ks - 1))
        if not need <= fresh and unknown:
            rep.unproved_item(rid, "%s (%s): preserve[] is written through a helper or at positions this rule cannot name" % (
                f.name, cname))
        elif not need <= fresh:
            rep.violation(rid, "%s:preserve" % f.name, perms[0].where(),
                          "%s permutes the %d-share key state with preserve word(s) %s not freshly drawn from the "
                          "random source" % (f.name, ks, sorted(need - fresh)), config=cname)
        else:
            rep.instance(rid, 1, {"config": cname, "function": f.name, "fresh_words": sorted(fresh)})


# ---------------------------------------------------------------------------
def _round_counter(f):
    """(counter phi, latch value, loop) of a `while (round < 12)` loop, or None"""
    loops = f.d.get("loops", [])
    if len(loops) != 1:
        return None
    lp = loops[0]
    hdr = f.bmap[lp["header"]]
    blocks = set(lp["blocks"])
    t = hdr.term
    if t.op != "br" or not t.ops:
        return None
    c = f.defs.get(t.ops[0])
    if c is None or c.op != "icmp" or ir.const_int(c.ops[1]) != 12:
        return None
    x = c.ops[0]
    d = f.defs.get(x)
    while d is not None and d.op in ("zext", "sext", "trunc"):
        x = d.ops[0]
        d = f.defs.get(x)
    if d is None or d.op != "phi" or d.block is not hdr:
        return None
    latch = [v for v, p in d.d["inc"] if p in blocks]
    if len(latch) != 1:
        return None
    return d, latch[0], lp


def rule_masked_rounds_c(rep, tier):
    """D6: the C implementations of ascon_x<K>_permute (64-bit and
    bit-interleaved 32-bit word back ends): one loop iteration on symbolic
    shares (including whatever stale higher shares the object holds) and
    symbolic preserved randomness, decoded with the word's own store function,
    is the specification's round on the decoded state - a polynomial identity
    in all share and randomness bits."""
    from . import modes
    rid = "C10.D6"
    rep.rule(rid, "C ascon_x<K>_permute: one loop iteration on the shares is the specification's round on the decoded state, for all randomness")
    cfgs = [repo.Config("c64", 4, 2, 4), repo.Config("c32", 3, 3, 3)] if tier == "quick" else \
        [repo.Config("c64", 4, 2, 4), repo.Config("c64", 3, 3, 3), repo.Config("c32", 4, 2, 4), repo.Config("c32", 3, 3, 3),
         repo.Config("direct", 4, 3, 4), repo.Config("c64", 2, 2, 2)]
    builds = repo.configure_many(cfgs)
    lowered = repo.lower_many([(b, dict(group="lib", level="O0", langs=("c",), scev=True)) for b in builds])
    items = []
    for b, lr in zip(builds, lowered):
        if b.cfg.name not in rep.configs:
            rep.configs.append(b.cfg.name)
        m = ir.Module.load(lr.json)
        for K in (2, 3, 4):
            f = m.funcs.get("ascon_x%d_permute" % K)
            if f is None or f.decl:
                continue
            rounds = list(range(12)) if tier != "quick" or K < 4 else [0, 7, 11]
            for r in rounds:
                items.append((lr.json, b.cfg.name, b.cfg.maxs, K, r))
    if not items:
        rep.broken.append("%s: no C masked permutation found" % rid)
        return
    for d in modes.parallel(items, _masked_round_worker):
        rep.merge(d)
    rep.floor_discharged(rid, int(0.8 * len(items)))


def _masked_round_worker(item):
    from . import modes, report
    from .affine import Machine, Ptr, Unsupported, const_bits
    from .rules_c08 import spec_round, bytes_to_words, words_to_bytes
    js, cname, maxs, K, r = item
    rid = "C10.D6"
    rp = report.Report("C10", "quick")
    rp._known = []
    m = modes.load_module(js)
    name = "ascon_x%d_permute" % K
    f = m.funcs[name]
    from .rules_c08 import round_loop
    rc = round_loop(f)
    if rc is None:
        rp.unproved_item(rid, "%s %s: round loop not identified" % (cname, name))
        return rp.export()
    cnt, latch, lp = rc
    try:
        mc = Machine(m)
        mc.nonlinear = True
        mc.force = {(name, latch): const_bits(12, mc.width(cnt.ty))}
        stride = 8 * maxs
        st = mc.new_obj("S", 5 * stride)
        pres = mc.new_obj("P", 8 * max(K - 1, 1))

        def decode():
            bits = []
            for i in range(5):
                out = mc.new_obj("dec%d_%d" % (i, mc.fresh), 8, symbolic=False)
                mc.fresh += 1
                mc.call("ascon_masked_word_x%d_store" % K, [out, Ptr(st.obj, stride * i)])
                bits.extend(mc.load(out, 8))
            return bits
        before = decode()
        mc.call(name, [st, const_bits(r, 8), pres])
        after = decode()
        want = words_to_bytes(spec_round(bytes_to_words(before), r))
    except Unsupported as e:
        rp.unproved_item(rid, "%s %s round %d: %s" % (cname, name, r, e))
        return rp.export()
    diff = [k for k in range(320) if after[k] != want[k]]
    if diff:
        rp.violation(rid, "%s:round%d" % (name, r), f.src,
                     "one iteration of %s for round %d does not compute the specification's round on the decoded state: %d of 320 "
                     "decoded bits differ as polynomials in the share and randomness bits (first: word %d)" % (
                         name, r, len(diff), diff[0] // 64), config=cname)
    else:
        rp.instance(rid, 1, {"config": cname, "function": name, "round": r})
    return rp.export()
