"""C11 - control flow and memory addresses never depend on secret data.

Taint analysis (av/taint.py) over the linked LLVM IR of the C library for each
back end / share configuration, on the -O0+SROA IR (branches exactly as in
the source) and, in the thorough tier, on the shipped -O3 IR.  The generated
x86-64 assembly units are analysed by av/asm_x86.py (rule C11.A).
"""
import re

from . import facts, ir, repo, taint

LEVEL = "other"
MANIFEST = {
    "text": "decides the property at LLVM-IR level for the C code (every conditional branch, switch, "
            "indirect call, address computation, block length, division and opaque control argument "
            "reachable from any keyed public function must carry no secret label) and at instruction "
            "level for the generated x86-64 assembly; sound taint over-approximation with call "
            "summaries; not decided: instruction selection below the IR and the non-x86 assembly back ends",
    "note": "trusted: clang/LLVM lowering, irdump, role table of public parameters (key/plaintext/"
            "state secret; nonce/AD/ciphertext/lengths public), the accept/reject result of "
            "ascon_aead_check_tag is declassified by resolved callee; C++ wrappers only forward",
    "technique": "interprocedural secret-taint dataflow analysis over LLVM IR (SSA def-use, field-based "
                 "memory, bottom-up summaries) plus abstract interpretation of x86-64 assembly",
    "engines": ["irdump", "asconfacts", "av"],
}

# role of byte-buffer parameters of public functions, by documented name
PUBLIC_PARAMS = {"ad", "npub", "c", "custom", "function_name", "salt", "info", "clen", "mlen",
                 "storage"}
SECRET_PARAMS = {"k", "key", "m", "in", "password", "entropy", "out", "tag", "data", "input",
                 "output", "buf", "masked", "pk", "state", "dest", "src"}
# public functions outside the keyed primitives (not roots)
NOT_KEYED = {"ascon_bytes_to_hex", "ascon_bytes_from_hex", "ascon_suite_version"}


def configs(tier):
    if tier == "quick":
        return [(repo.Config("asm"), ("O0",)), (repo.Config("c64"), ("O0", "O3")),
                (repo.Config("c32"), ("O0",)), (repo.Config("direct"), ("O0",))]
    out = []
    for b in repo.BACKENDS:
        out.append((repo.Config(b), ("O0", "O3")))
    for (k, d, m) in repo.share_triples():
        if (k, d, m) == (4, 2, 4):
            continue
        for b in ("asm", "c64", "c32", "direct"):
            out.append((repo.Config(b, k, d, m), ("O0",)))
    return out


def roles_for(fn, decl):
    roles = {}
    for i, p in enumerate(decl["params"]):
        if "*" not in p["ty"]:
            continue
        n = p["name"]
        if n in PUBLIC_PARAMS:
            continue
        if n in SECRET_PARAMS:
            roles[i] = frozenset(["S:" + n])
        else:
            raise repo.AnalysisBroken(
                "public function %s has an unclassified pointer parameter '%s' (%s): "
                "add it to the C11 role table" % (fn, n, p["ty"]))
    return roles


def analyse_module(m, api, cname):
    """run the taint engine to its global fixpoint -> (engine, {sink key: (sink, root)}, n roots)"""
    eng = taint.Engine(m)
    roots = []
    for name, decl in sorted(api.items()):
        if name in NOT_KEYED:
            continue
        f = m.funcs.get(name)
        if f is None or f.decl:
            continue
        roots.append((name, roles_for(name, decl)))
    if len(roots) < 150:
        raise repo.AnalysisBroken("only %d keyed roots defined in %s" % (len(roots), cname))
    found = {}
    for rnd in range(6):
        eng.run()
        before = dict(eng.FIELD)
        found = {}
        for name, roles in roots:
            for s in eng.evaluate_root(name, roles):
                found.setdefault(s.key(), (s, name))
        if eng.FIELD == before:
            break
    return eng, found, len(roots)


def run(rep, tier):
    rep.explanation = (
        "Taint analysis from every keyed public function (all functions of src/ascon/*.h except the hex "
        "codec and the version query): secret = keys, passwords, plaintext, PRF/MAC/hash input, squeezed "
        "output, entropy, every load from permutation-state / masked-word / masked-key storage and every "
        "TRNG result; public = lengths, nonces, associated data, ciphertext, customisation strings, "
        "bookkeeping counters (tracked field-based) and the result of ascon_aead_check_tag.  A sink whose "
        "label set contains a secret is a violation and is reported with its call chain.")
    rep.undecided = ("final instruction selection below LLVM IR; assembly back ends other than x86-64; "
                     "micro-architectural effects")
    rep.assumptions = ["select / cmov and shifts by public amounts are constant-time",
                       "opaque assembly functions treat i8/i32 scalar arguments as control parameters"]
    rid = "C11.T"
    rep.rule(rid, "no secret-labelled branch / address / length / divisor / control argument reachable from a keyed root")
    cfgs = configs(tier)
    builds = repo.configure_many([c for c, _ in cfgs])
    api = facts.public_c_api(builds[0])
    jobs = []
    for b, (c, levels) in zip(builds, cfgs):
        for lv in levels:
            jobs.append((b, dict(group="lib", level=lv, langs=("c",))))
    lowered = repo.lower_many(jobs)
    total_sinks = 0
    for (b, kw), lr in zip(jobs, lowered):
        m = ir.Module.load(lr.json)
        cname = "%s/%s" % (b.cfg.name, kw["level"])
        rep.configs.append(cname)
        rep.units.update(lr.units)
        eng, found, nroots = analyse_module(m, api, cname)
        roots = [None] * nroots
        rep.functions += len(eng.summ)
        nsinks = sum(len(s.sinks) for s in eng.summ.values())
        total_sinks += nsinks
        for key, (s, root) in sorted(found.items()):
            chain = " -> ".join("%s (%s)" % c for c in s.chain)
            rep.violation(rid, "%s:%s" % (s.fn, s.kind), s.where,
                          "%s; labels %s; reached from public function %s%s" % (
                              s.what, sorted(s.labels), root, (" via " + chain) if chain else ""),
                          config=cname,
                          detail={"root": root, "chain": [list(c) for c in s.chain],
                                  "labels": sorted(s.labels)})
        rep.instance(rid, len(roots), {"config": cname, "roots": len(roots),
                                       "functions": len(eng.summ),
                                       "sinks_examined": nsinks,
                                       "field_taints": {"%s.%s" % k: sorted(v) for k, v in eng.FIELD.items()}})
        for msg in sorted(set(eng.imprecise))[:10]:
            rep.unproved_item(rid, "%s: %s" % (cname, msg))
    rep.extra["sinks_examined"] = total_sinks
    rep.floor(rid, 150 * len(jobs))
    try:
        from . import asm_x86
    except ImportError:
        asm_x86 = None
    if asm_x86 is not None:
        asm_x86.rule_constant_time(rep, tier, "C11.A")
