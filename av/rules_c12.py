"""C12 - no out-of-bounds access, UB or stray writes (clauses where the bound
is visible in the code).

  D1  constant array subscripts stay inside their array in every configuration
  D1m block operations (memcpy/memset/ascon_clean/ascon_*_bytes) with constant
      extent stay inside the object / array member they start in
  D2  variable subscripts into fixed arrays: the value range implied by the
      guards (interval analysis with branch refinement) stays below the bound
  D3  `strlen(p) - K` feeding a length is protected by a guard `strlen >= K`
      in the function, or by a predicate that gates every call site and
      returns zero for shorter strings
  D4  shift amounts are below the operand width
Undecided: absence of all UB for all argument values (needs relational
invariants between caller buffers and lengths).
"""
import re

from . import effects, facts, ir, ptr, ranges, repo, widths

LEVEL = "other"
MANIFEST = {
    "text": "decides, in every analysed configuration (5 back ends x share triples incl. key < max, library and "
            "both tools): constant subscripts and constant-extent block operations stay inside their array / "
            "member, guard-bounded variable subscripts stay below the bound (an alarm only when the bound is "
            "attained through a guard or an I/O contract on the index itself), string-length subtractions feeding "
            "a length are guarded, shift amounts are below the width, D6 a constant-extent access fits the "
            "guard-bounded remaining length, D7 the bytes a callee always accesses through a pointer parameter "
            "fit the object passed at each call site, D8 no size_t length is masked with a zero-extended 32-bit "
            "constant or narrowed without a bound before it is used for control or addressing, D9 caller-supplied "
            "byte buffers are accessed without alignment assumptions, D10 a block write of a buffer's whole length "
            "parameter starts at the buffer and not at an advanced cursor; general memory safety for arbitrary "
            "caller-provided buffer/length combinations is not decided",
    "note": "trusted: clang lowering, irdump GEP/type facts; the interval analysis is a sound "
            "over-approximation, so a reported index range is reachable along CFG paths (path feasibility is "
            "not checked beyond the guards)",
    "technique": "GEP bound checking over typed LLVM IR, member-extent checking of block operations, "
                 "interval abstract interpretation with branch refinement, guard-predicate summaries",
    "engines": ["irdump", "av"],
}

MEMOPS_LEN = {"ascon_clean": (0, 1), "explicit_bzero": (0, 1)}
STATE_BYTES = {"ascon_add_bytes": (2, 3), "ascon_overwrite_bytes": (2, 3),
               "ascon_extract_bytes": (2, 3), "ascon_overwrite_with_zeroes": (1, 2),
               "ascon_extract_and_add_bytes": (3, 4), "ascon_extract_and_overwrite_bytes": (3, 4)}


def configs(tier):
    out = []
    triples = [(4, 2, 4), (3, 3, 3), (2, 2, 2)] if tier == "quick" else \
        [(4, 2, 4), (3, 3, 3), (2, 2, 2), (4, 1, 4), (3, 1, 3), (2, 1, 2), (4, 4, 4), (4, 3, 4), (3, 2, 3),
         (4, 2, 3), (4, 2, 2), (3, 2, 2), (4, 4, 3), (4, 4, 2), (3, 3, 2)]
    for b in repo.BACKENDS:
        for (k, d, m) in triples:
            out.append(repo.Config(b, k, d, m))
    # fewer key shares than the maximum (arrays sized by the key shares, word type sized by the maximum)
    extra = [("c64", 2, 2, 4), ("c32", 3, 2, 4)] if tier == "quick" else \
        [(b, k, d, m) for b in ("c64", "c32", "asm") for (k, d, m) in ((2, 2, 4), (2, 1, 4), (3, 2, 4), (3, 3, 4), (2, 2, 3), (2, 1, 3))]
    for (b, k, d, m) in extra:
        out.append(repo.Config(b, k, d, m))
    return out


def run(rep, tier):
    rep.explanation = (
        "Every GEP of every function (library C/C++ units and both command-line tools) is examined: a "
        "constant index >= the static array bound that reaches a load/store/call is a violation (D1); "
        "constant-length block operations must fit the object or array member their destination/source "
        "pointer selects (D1m); a variable index whose guard-implied interval reaches the bound is a "
        "violation with the path condition reported (D2); strlen()-K without a dominating or call-site "
        "guard (D3); shifts by >= width (D4).")
    rep.undecided = ("memory safety for arbitrary lengths and caller buffers (relational invariants), "
                     "alignment, signed overflow")
    cfgs = configs(tier)
    builds = repo.configure_many(cfgs)
    groups = [("lib", ("c", "c++"))]
    jobs = []
    for b in builds:
        jobs.append((b, dict(group="lib", level="O0", scev=True, tolerate=tuple(u.rel for u in b.group("lib", ("c++",))))))
    # the tools do not depend on the back end: analyse them once
    jobs.append((builds[0], dict(group="asconcrypt", level="O0", scev=True)))
    jobs.append((builds[0], dict(group="asconsum", level="O0", scev=True)))
    lowered = repo.lower_many(jobs)
    for r in ("C12.D1", "C12.D1m", "C12.D2", "C12.D3", "C12.D4", "C12.D6", "C12.D7", "C12.D8", "C12.D9", "C12.D10", "C12.D11", "C12.D12"):
        rep.rule(r, {"C12.D1": "constant subscript inside its array",
                     "C12.D1m": "constant-extent block operation inside its object/member",
                     "C12.D2": "guard-bounded variable subscript below the array bound",
                     "C12.D3": "strlen(p)-K is guarded",
                     "C12.D4": "shift amount below operand width",
                     "C12.D6": "constant-extent access fits the guard-bounded remaining length",
                     "C12.D8": "length arithmetic keeps the full width of size_t (no zero-extended 32-bit mask)",
                     "C12.D9": "caller-supplied byte buffers are accessed with no alignment assumption",
                     "C12.D12": "a loop counter used as subscript of a stack array is bounded by a test on the counter or by the loop's trip count",
                     "C12.D11": "a signed call result used as a byte count is first shown to be non-negative",
                     "C12.D10": "a block write of the buffer's whole length starts at the buffer, not at an advanced cursor",
                     "C12.D7": "bytes a callee always accesses through a pointer parameter fit the object passed at each call site"}[r])
    libdecls = None
    for (b, kw), lr in zip(jobs, lowered):
        m = ir.Module.load(lr.json)
        cname = b.cfg.name if kw["group"] == "lib" else kw["group"]
        rep.configs.append(cname)
        rep.units.update(lr.units)
        for u, err in lr.failed:
            rep.notes.append("unit %s not lowered by clang in %s" % (u, cname))
        lay = effects.Layouts(m)
        decls = {}
        if kw["group"] == "lib":
            for d in facts.group_facts(b, "lib", ("c",)):
                for x in d["decls"]:
                    if x.get("def"):
                        decls.setdefault(x["name"], x)
            libdecls = libdecls or decls
        for f in m.defined():
            if not f.srcfile.startswith(repo.REPO):
                continue      # libstdc++ template instantiations
            rep.functions += 1
            check_function(rep, m, f, lay, cname)
            dd = decls.get(f.d.get("srcname", f.name))
            if dd is not None:
                rule_output_range(rep, m, f, dd, cname)
                rule_cursor_full_length(rep, m, f, dd, cname)
        rule_strlen_sub(rep, m, cname)
        rule_param_extent(rep, m, cname)
        rule_alignment(rep, m, cname)
        rule_signed_length(rep, m, cname, decls or libdecls or {})
        lri = repo.lower(b, inline_internal=True, **kw)
        widths.rule(rep, "C12.D8", ir.Module.load(lri.json), cname, inlined=True)
    control_d6(rep)
    widths.control(rep, "C12.D8")
    rep.floor("C12.D1", 2000)
    rep.floor("C12.D1m", 300)
    rep.floor("C12.D2", 20)


def rule_alignment(rep, m, cname):
    """D9: buffers that reach the library as pointers to bytes (unsigned char *,
    char *, void *) may have any alignment.  An access of more than one byte
    whose address derives from such a parameter must therefore carry alignment
    1 in the IR (byte-wise code, memcpy, or a packed / unaligned type): a plain
    `*(uint64_t *)p` on a byte pointer is undefined behaviour for a misaligned
    buffer and traps on strict-alignment CPUs."""
    rid = "C12.D9"
    n = 0
    for f in m.defined():
        if not f.srcfile.startswith(repo.REPO):
            continue
        bytep = [p for k, p in enumerate(f.params) if f.param_ty[k] == "i8*"]
        if not bytep:
            continue
        R = None
        for i in f.insts():
            if i.op not in ("load", "store") or (i.d.get("sz") or 0) <= 1:
                continue
            R = R or ptr.resolver(f)
            pv = R.resolve(i.ops[0] if i.op == "load" else i.ops[1])
            root = pv.single()
            if not root or root[0] != "param" or root[1] not in bytep:
                continue
            n += 1
            al = i.d.get("align")
            if al is not None and al > 1:
                rep.violation(rid, "%s:%s%d" % (f.name, i.op, i.d["sz"]), i.where(),
                              "%s %ss %d bytes at once through its byte-pointer parameter %s assuming %d-byte alignment: callers may "
                              "pass buffers of any alignment (undefined behaviour; a trap on strict-alignment CPUs)" % (
                                  f.name, i.op, i.d["sz"], f.param_names[f.params.index(root[1])], al), config=cname)
    rep.instance(rid, 1, {"config": cname, "wide_accesses_through_byte_parameters": n})


def rule_param_extent(rep, m, cname):
    """D7: for every function and pointer parameter, the number of bytes that
    *every* execution of the function accesses through that parameter (constant
    offsets in blocks that are always executed; loops with a constant trip count
    whose header is always executed, address recurrence base + stride * i from
    scalar evolution; calls in always-executed blocks that pass the parameter on
    to a callee with such an extent).  At every call site whose argument is a
    stack or global object of known size (plus a constant offset) the extent
    must fit.  Accesses that depend on other arguments are ignored: no claim."""
    rid = "C12.D7"
    ext = {}
    for f in m.bottom_up():
        if f.decl or not f.blocks:
            continue
        pidx = {p: k for k, p in enumerate(f.params) if f.param_ty[k].endswith("*")}
        if not pidx:
            continue
        R = ptr.resolver(f)
        entry = f.blocks[0].name
        pdom = f.postdominators()
        always = set(pdom.get(entry, ())) | {entry}
        dom = f.dominators()
        e = {}

        def note(k, n, why):
            if n > e.get(k, (0, None))[0]:
                e[k] = (n, why)
        loops = [lp for lp in f.d.get("loops", []) if lp.get("depth") == 1 and lp.get("btc_const") is not None
                 and len(lp.get("exiting", [])) == 1 and lp["header"] in always]
        inloop = {}
        for lp in f.d.get("loops", []):
            for bn in lp["blocks"]:
                inloop.setdefault(bn, []).append(lp)
        for i in f.insts():
            bn = i.block.name
            if i.op in ("load", "store"):
                pv = R.resolve(i.ops[0] if i.op == "load" else i.ops[1])
                root = pv.single()
                if not root or root[0] != "param" or root[1] not in pidx or pv.offset is None:
                    continue
                k, sz = pidx[root[1]], i.d.get("sz") or 0
                if not pv.variable and bn in always and bn not in inloop:
                    note(k, pv.offset + sz, "%s of %d byte(s) at offset %d (%s)" % (i.op, sz, pv.offset, i.where()))
            elif i.op == "call" and (ptr.is_memset(i) or ptr.is_memcpy(i)) and bn in always and bn not in inloop:
                n = ir.const_int(i.ops[2])
                for a in ([i.ops[0]] if ptr.is_memset(i) else [i.ops[0], i.ops[1]]):
                    pv = R.resolve(a)
                    root = pv.single()
                    if n and root and root[0] == "param" and root[1] in pidx and pv.offset is not None and not pv.variable:
                        note(pidx[root[1]], pv.offset + n, "block operation of %d byte(s) at offset %d (%s)" % (n, pv.offset, i.where()))
            elif i.op == "call" and i.callee in ext and bn in always and bn not in inloop:
                for an, a in enumerate(i.ops):
                    if an in ext[i.callee] and isinstance(a, str):
                        pv = R.resolve(a)
                        root = pv.single()
                        if root and root[0] == "param" and root[1] in pidx and pv.offset is not None and not pv.variable:
                            n, why = ext[i.callee][an]
                            note(pidx[root[1]], pv.offset + n, "call of %s (%s), which always accesses %d byte(s): %s" % (
                                i.callee, i.where(), n, why))
        for lp in loops:
            btc = lp["btc_const"]
            ex = lp["exiting"][0]
            latches = [p.name for p in f.bmap[lp["header"]].preds if p.name in lp["blocks"]]
            for rec in lp.get("scev", []):
                if rec[1] not in ("load", "store"):
                    continue
                mm = re.fullmatch(r"\{(?:\((\d+) \+ )?(%[\w.]+)\)?,\+,(\d+)\}(?:<[^>]*>)*", rec[2].strip())
                if not mm or mm.group(2) not in pidx:
                    continue
                base, stride = int(mm.group(1) or 0), int(mm.group(3))
                ident = rec[0].split("@", 1)[1] if "@" in rec[0] else None
                acc = None
                for i in f.insts():
                    if i.op == rec[1] and i.block.name in lp["blocks"] and (i.ops[0] if i.op == "load" else i.ops[1]) == ident:
                        acc = i
                if acc is None:
                    continue
                ab = acc.block.name
                if not all(ab in dom[l] for l in latches):
                    continue          # not executed in every iteration
                execs = btc + 1 if ab in dom[ex] else btc
                if execs <= 0:
                    continue
                sz = acc.d.get("sz") or 0
                note(pidx[mm.group(2)], base + stride * (execs - 1) + sz,
                     "%s of %d byte(s) in a loop of %d iteration(s) with stride %d (%s)" % (acc.op, sz, execs, stride, acc.where()))
        if e:
            ext[f.name] = e
    # call sites
    for f in m.defined():
        if not f.srcfile.startswith(repo.REPO):
            continue
        R = None
        for i in f.insts():
            if i.op != "call" or i.callee not in ext:
                continue
            R = R or ptr.resolver(f)
            for an, (n, why) in ext[i.callee].items():
                if an >= len(i.ops) or not isinstance(i.ops[an], str):
                    continue
                pv = R.resolve(i.ops[an])
                root = pv.single()
                if not root or pv.offset is None or pv.variable:
                    continue
                size = None
                if root[0] == "alloca":
                    d = f.defs.get(root[1])
                    size = d.d.get("sz") if d is not None else None
                elif root[0] == "global":
                    size = (m.globals.get(root[1].lstrip("@"), {}) or {}).get("size")
                if not size:
                    continue
                if pv.offset + n > size:
                    rep.violation(rid, "%s->%s:arg%d" % (f.name, i.callee, an), i.where(),
                                  "%s passes %s (%d byte(s)%s) to %s, which on every execution accesses %d byte(s) through that "
                                  "parameter: %s" % (f.name, root[1], size, ", at offset %d" % pv.offset if pv.offset else "",
                                                     i.callee, n, why), config=cname)
                else:
                    rep.instance(rid, 1, {"config": cname, "caller": f.name, "callee": i.callee, "object_bytes": size, "extent": n})


LEN_NAMES = ("size", "len", "outlen", "inlen", "mlen", "clen", "adlen", "count", "length")
PAIR_NAMES = {"out": "outlen", "in": "inlen", "m": "mlen", "c": "clen", "ad": "adlen"}


def rule_output_range(rep, m, f, decl, cname, rid="C12.D6", why=""):
    """D6: a constant-extent access relative to a buffer cursor must fit in
    the remaining length: if the guards bound the remaining length to at most
    H bytes at that point, an access of bytes [c, c+w) with c + w > H reads or
    writes past the documented range for every feasible length."""
    from .rules_c07 import _base_and_offset
    params = decl["params"]
    if len(params) != len(f.params):
        return
    bufs = [k for k, p in enumerate(params) if p["ty"].replace(" ", "").replace("const", "") in ("unsignedchar*", "uint8_t*", "char*")]
    lens = [k for k, p in enumerate(params) if "*" not in p["ty"] and p["name"] in LEN_NAMES]
    if not bufs or not lens:
        return
    R = ptr.resolver(f)
    RG = None
    for i in f.insts():
        if i.op == "load":
            p, w = i.ops[0], i.d["sz"]
        elif i.op == "store":
            p, w = i.ops[1], i.d["sz"]
        else:
            continue
        pv = R.resolve(p)
        root = pv.single()
        if root is None or root[0] != "param":
            continue
        k = f.params.index(root[1])
        if k not in bufs:
            continue
        base, off, terms = _base_and_offset(f, p)
        if terms or off < 0:
            continue
        # the length paired with this buffer
        want = PAIR_NAMES.get(params[k]["name"])
        lk = [x for x in lens if params[x]["name"] == want] or (lens if len(lens) == 1 else [])
        if len(lk) != 1:
            continue
        N = f.params[lk[0]]
        cands = []
        if base == f.params[k]:
            cands = [N]
        else:
            bd = f.defs.get(base)
            if bd is None or bd.op != "phi":
                continue
            for j in bd.block.insts:
                if j.op == "phi" and j.ty.startswith("i") and _derives_from_len(f, j.id, N):
                    cands.append(j.id)
        if len(cands) != 1:
            continue
        RG = RG or ranges.Ranges(f, wide=True)
        lo, hi = RG.at(cands[0], i.block.name)
        if hi >= (1 << 31):
            continue
        if off + w > hi:
            rep.violation(rid, "%s:%s+%d..%d" % (f.name, params[k]["name"], off, off + w), i.where(),
                          "%s %s %d byte(s) at offset %d of the current position of '%s', but at this point the guards "
                          "bound the remaining %s to at most %d byte(s): the access goes past the documented range for "
                          "every feasible length%s" % (f.name, "stores" if i.op == "store" else "loads", w, off,
                                                       params[k]["name"], params[lk[0]]["name"], hi, why), config=cname)
        else:
            rep.instance(rid, 1, {"config": cname, "function": f.name, "buffer": params[k]["name"],
                                  "access": [off, off + w], "remaining_at_most": hi})


def rule_signed_length(rep, m, cname, decls, rid="C12.D11"):
    """D11: the transfer functions of the storage / file layer return a signed
    count, with a negative value for errors.  When such a result is converted
    to size_t and passed on as a byte count (a parameter called len / size /
    ... of a library function, or the length of a block operation), a negative
    value becomes a length near 2^64.  On the way to the call there must be a
    test that excludes negative values: == a non-negative constant, > / >= a
    constant >= -1 / 0, or an unsigned comparison below 2^31."""
    for f in m.defined():
        if not f.srcfile.startswith(repo.REPO):
            continue
        dom = None
        for c in f.calls():
            cal = c.callee or ""
            if ptr.is_memset(c) or ptr.is_memcpy(c):
                cand = [2]
            else:
                dd = decls.get(cal)
                if dd is None or len(dd["params"]) != len(c.ops):
                    continue
                cand = [k for k, p in enumerate(dd["params"]) if "*" not in p["ty"] and p["name"] in LEN_NAMES]
            for k in cand:
                a = c.ops[k] if k < len(c.ops) else None
                d = f.defs.get(a) if ir.is_local(a) else None
                if d is None or d.op != "sext":
                    continue
                v = d.ops[0]
                src = f.defs.get(v) if ir.is_local(v) else None
                if src is None or src.op not in ("call", "invoke"):
                    continue
                dom = dom or f.dominators()
                if _nonneg_guard(f, v, d.id, c, dom):
                    rep.instance(rid, 1, {"config": cname, "function": f.name, "callee": cal, "count_from": src.callee or "indirect call"})
                else:
                    rep.violation(rid, "%s->%s:arg%d" % (f.name, cal, k), c.where(),
                                  "%s passes the signed result of %s, converted to size_t, as the byte count of %s without first "
                                  "excluding negative values: an error return of -1 becomes a length of 2^64 - 1" % (
                                      f.name, src.callee or "a call through a function pointer", cal), config=cname)


def _nonneg_guard(f, v, vext, site, dom):
    names = {v, vext}
    for i in f.insts():
        if i.op in ("sext", "zext") and i.ops[0] == v:
            names.add(i.id)
    for b in f.blocks:
        t = b.insts[-1]
        if t.op != "br" or not t.ops or b.name not in dom.get(site.block.name, ()):
            continue
        ci = f.defs.get(t.ops[0]) if ir.is_local(t.ops[0]) else None
        if ci is None or ci.op != "icmp":
            continue
        x, y = ci.ops
        if not (isinstance(x, str) and x in names):
            continue
        c = ir.const_int(y)
        if c is None:
            continue
        w = int(ci.d.get("opty", "i32")[1:]) if ci.d.get("opty", "i32")[1:].isdigit() else 32
        w = 64 if x != v and x == vext else (32 if x == v else w)
        sc = c - (1 << w) if c >> (w - 1) else c
        p = ci.d["pred"]
        good = None        # which successor excludes negative values
        if p == "eq" and sc >= 0:
            good = 0
        elif p == "ne" and sc >= 0:
            good = 1
        elif p == "sgt" and sc >= -1:
            good = 0
        elif p == "sge" and sc >= 0:
            good = 0
        elif p == "slt" and sc >= 0:
            good = 1
        elif p == "sle" and sc >= -1:
            good = 1
        elif p in ("ult", "ule") and 0 <= sc < (1 << 31):
            good = 0
        elif p in ("ugt", "uge") and 0 <= sc < (1 << 31):
            good = 1
        if good is None or t.succs[0] == t.succs[1]:
            continue
        gs = t.succs[good]
        if gs == site.block.name or gs in dom.get(site.block.name, ()):
            return True
    return False


def rule_cursor_full_length(rep, m, f, decl, cname, rid="C12.D10"):
    """D10: [buf, buf + len) is the caller's buffer.  A block write (memset,
    memcpy, ascon_clean, explicit_bzero) of exactly `len` bytes - the length
    parameter itself, not a remaining count - is inside it only if it starts at
    `buf`.  If the destination is a cursor into `buf` that may already have
    advanced (non-zero or variable offset from the parameter), the write runs
    past the end by as many bytes as the cursor has advanced."""
    params = decl["params"]
    if len(params) != len(f.params):
        return
    bufs = [k for k, p in enumerate(params) if p["ty"].replace(" ", "") in ("unsignedchar*", "uint8_t*", "char*", "void*")]
    lens = [k for k, p in enumerate(params) if "*" not in p["ty"] and p["name"] in LEN_NAMES]
    if not bufs or not lens:
        return
    R = ptr.resolver(f)
    for i in f.insts():
        if i.op != "call":
            continue
        if ptr.is_memset(i) or ptr.is_memcpy(i):
            dst, ln = i.ops[0], i.ops[2]
        elif i.callee in ("ascon_clean", "explicit_bzero") and len(i.ops) >= 2:
            dst, ln = i.ops[0], i.ops[1]
        else:
            continue
        if not ir.is_local(ln) or ln not in f.params:
            continue
        lk = f.params.index(ln)
        if lk not in lens:
            continue
        pv = R.resolve(dst)
        root = pv.single()
        if root is None or root[0] != "param":
            continue
        k = f.params.index(root[1])
        if k not in bufs:
            continue
        want = PAIR_NAMES.get(params[k]["name"])
        if not (params[lk]["name"] == want or (want is None and len(lens) == 1)):
            continue
        if pv.variable or (pv.offset or 0) > 0:
            rep.violation(rid, "%s:%s" % (f.name, params[k]["name"]), i.where(),
                          "%s writes %s byte(s) - the whole length of '%s' - starting at a position inside the buffer that may "
                          "already have advanced from its start (offset %s): the write runs past the end of the caller's buffer by as "
                          "many bytes as were already produced" % (f.name, params[lk]["name"], params[k]["name"],
                                                                    "variable" if pv.variable else pv.offset), config=cname)
        else:
            rep.instance(rid, 1, {"config": cname, "function": f.name, "buffer": params[k]["name"], "length": params[lk]["name"]})


def _derives_from_len(f, v, N, depth=0, seen=None):
    seen = seen if seen is not None else set()
    if v == N:
        return True
    if not ir.is_local(v) or v in seen or depth > 12:
        return False
    seen.add(v)
    d = f.defs.get(v)
    if d is None:
        return False
    if d.op == "phi":
        return any(_derives_from_len(f, x, N, depth + 1, seen) for x, _ in d.d["inc"])
    if d.op in ("sub", "add", "zext", "trunc", "sext"):
        return _derives_from_len(f, d.ops[0], N, depth + 1, seen)
    return False


def _used_for_access(f, vid, uses, seen=None, depth=0):
    seen = seen if seen is not None else set()
    if vid in seen or depth > 8:
        return False
    seen.add(vid)
    for u in uses.get(vid, ()):
        if u.op in ("load", "store"):
            if u.op == "load" or u.ops[1] == vid:
                return True
        if u.op in ("call", "invoke"):
            if (u.callee or "").startswith(("llvm.dbg", "llvm.lifetime")):
                continue
            return True
        if u.op in ("bitcast", "getelementptr") and u.ops and u.ops[0] == vid:
            # a further GEP with non-negative offset from an out-of-range base
            if u.op == "getelementptr" and u.d["coff"] < 0:
                continue
            if _used_for_access(f, u.id, uses, seen, depth + 1):
                return True
    return False


def check_function(rep, m, f, lay, cname):
    uses = f.uses()
    R = ptr.resolver(f)
    RG = None
    for i in f.insts():
        if i.op == "getelementptr":
            arrays = [s for s in i.d["path"] if s[0] == "array"]
            for s in arrays:
                bound, idx = s[1], s[3]
                c = ir.const_int(idx)
                if c is not None:
                    if c < 0 or c >= bound:
                        if c == bound and not _used_for_access(f, i.id, uses):
                            rep.instance("C12.D1", 1)
                            continue
                        rep.violation("C12.D1", "%s:[%d]of%d" % (f.name, c, bound), i.where(),
                                      "%s: constant subscript %d into an array of %d element(s) (%s)" % (
                                          f.name, c, bound, i.d["srcty"]), config=cname)
                    else:
                        rep.instance("C12.D1", 1, {"config": cname, "function": f.name, "index": c, "bound": bound})
                else:
                    if not _used_for_access(f, i.id, uses):
                        continue
                    if RG is None:
                        RG = ranges.Ranges(f, wide=True)
                    lo, hi = RG.at(idx, i.block.name)
                    # sign-extended 32-bit indices: look through sext/zext
                    d = f.defs.get(idx) if ir.is_local(idx) else None
                    if d is not None and d.op in ("sext", "zext"):
                        lo, hi = RG.at(d.ops[0], i.block.name)
                        if hi >= (1 << (ranges._w(d.d.get("fromty", "i32")) - (1 if d.op == "sext" else 0))):
                            hi = ranges.MAXU
                    if hi == ranges.MAXU or hi >= (1 << 31):
                        # nothing known from guards.  One case is still decided: the subscript of an array on the function's
                        # own stack is a counter that grows on every iteration of a loop, no test in the function looks at
                        # the counter, and scalar evolution finds no constant bound for the loop either
                        why = _unbounded_counter(f, R, i, idx, bound)
                        if why:
                            rep.violation("C12.D12", "%s:counter-into-%d" % (f.name, bound), i.where(),
                                          "%s: %s" % (f.name, why), config=cname)
                        continue           # otherwise: not decided (no alarm)
                    if hi >= bound and not _bound_is_attained(f, RG, idx, i.block.name, hi):
                        # the interval is an over-approximation (bit operations, loop joins, selects): the bound may not
                        # be reachable, so this is no finding
                        rep.unproved_item("C12.D2", "%s (%s): subscript interval [%d, %d] of an array of %d computed through "
                                          "inexact operations; not decided" % (f.name, cname, lo, hi, bound))
                        continue
                    if hi >= bound:
                        rep.violation("C12.D2", "%s:idx<=%d:of%d" % (f.name, hi, bound), i.where(),
                                      "%s: the guards bound this subscript to [%d, %d] but the array has %d "
                                      "element(s), so index %d is reachable" % (f.name, lo, hi, bound, bound),
                                      config=cname)
                    else:
                        rep.instance("C12.D2", 1, {"config": cname, "function": f.name, "range": [lo, hi], "bound": bound})
        elif i.op in ("shl", "lshr", "ashr"):
            c = ir.const_int(i.ops[1])
            w = ranges._w(i.ty)
            if c is not None:
                if c >= w or c < 0:
                    rep.violation("C12.D4", "%s:shift%d" % (f.name, c), i.where(),
                                  "%s: shift of an i%d by %d" % (f.name, w, c), config=cname)
                else:
                    rep.instance("C12.D4", 1)
        elif i.op in ("call", "invoke"):
            check_memop(rep, m, f, i, R, lay, cname)


def _unbounded_counter(f, R, gep, idx, bound):
    """-> description if idx is an untested, ever-growing loop counter indexing an
    array of `bound` elements on f's own stack; else None"""
    root = R.resolve(gep.ops[0]).single()
    if root is None or root[0] != "alloca":
        return None
    v = idx
    for _ in range(4):
        d = f.defs.get(v) if ir.is_local(v) else None
        if d is not None and d.op in ("zext", "sext", "trunc"):
            v = d.ops[0]
        else:
            break
    p = f.defs.get(v) if ir.is_local(v) else None
    if p is None or p.op != "phi":
        return None
    lp = None
    for l in f.d.get("loops", []):
        if l["header"] == p.block.name:
            lp = l
    if lp is None:
        return None
    blocks = set(lp["blocks"])
    latch = [x for x, pr in p.d["inc"] if pr in blocks]
    init = [x for x, pr in p.d["inc"] if pr not in blocks]
    if not latch or any(ir.const_int(x) is None for x in init):
        return None
    # every value carried back is the counter itself or the counter plus a positive constant (through merges)
    names, todo, grows = {p.id}, list(latch), False
    seen = set()
    while todo:
        x = todo.pop()
        if x in seen or x == p.id:
            continue
        seen.add(x)
        d = f.defs.get(x) if ir.is_local(x) else None
        if d is None:
            return None
        if d.op == "add" and ir.const_int(d.ops[1]) is not None and 0 < ir.const_int(d.ops[1]) < 4096:
            grows = True
            names.add(d.id)
            todo.append(d.ops[0])
        elif d.op == "phi" and d.block.name in blocks:
            names.add(d.id)
            todo += [y for y, _ in d.d["inc"]]
        else:
            return None
    if not grows:
        return None
    # any test that involves the counter (or a width change of it) means: decided elsewhere or not at all
    ext = set(names)
    grew = True
    while grew:
        grew = False
        for i in f.insts():
            if i.id and i.id not in ext and (
                    (i.op in ("zext", "sext", "trunc") and i.ops[0] in ext) or
                    (i.op in ("add", "sub", "shl", "lshr", "mul") and isinstance(i.ops[0], str) and i.ops[0] in ext
                     and ir.const_int(i.ops[1]) is not None)):
                ext.add(i.id)
                grew = True
    dom = f.dominators().get(gep.block.name, ())
    for i in f.insts():
        # tests inside the loop or on the way to the access are guards; a test after the loop is not
        if i.block.name not in blocks and i.block.name not in dom:
            continue
        if i.op == "icmp" and any(isinstance(o, str) and o in ext for o in i.ops):
            return None
        if i.op == "switch" and i.ops and i.ops[0] in ext:
            return None
    mx = lp.get("btc_max")
    start = max(ir.const_int(x) for x in init)
    if mx is not None and mx < (1 << 31) and start + mx < bound:
        return None
    return ("the subscript of this %d-element stack array is a counter that starts at %d and grows on every iteration of the loop; "
            "no test in the function looks at the counter and the loop has no constant trip bound%s, so the access runs past the "
            "array when the loop's other conditions allow %d or more iterations" % (
                bound, start, "" if mx is None else " below %d" % (mx + 1), bound - start))


def _bound_is_attained(f, RG, idx, block, hi):
    """is the upper end of the index interval the value that a dominating guard
    (or an I/O contract) admits for the index itself, reached only through
    exact steps (width changes, +/- constant)?  Intervals that come out of bit
    operations, loop-carried values or selects are over-approximations."""
    v, off = idx, 0
    for _ in range(8):
        d = f.defs.get(v) if ir.is_local(v) else None
        if d is None:
            break
        if d.op in ("zext", "sext", "trunc"):
            v = d.ops[0]
            continue
        if d.op in ("add", "sub") and ir.const_int(d.ops[1]) is not None:
            off += ir.const_int(d.ops[1]) if d.op == "add" else -ir.const_int(d.ops[1])
            v = d.ops[0]
            continue
        break
    d = f.defs.get(v) if ir.is_local(v) else None
    if d is not None and d.op == "call" and (d.callee or "") in ranges.RESULT_AT_MOST_ARG:
        return True
    if d is not None and d.op not in ("load", "call", "phi") and v not in f.params:
        return False
    # a loop-carried or merged value counts only when a guard tests that very value
    guards = [h2 for (x, l2, h2) in RG.dominating_constraints(block) if x == v and h2 < ranges.MAXU]
    return bool(guards) and min(guards) + off == hi


def _member_extent(f, p, depth=0):
    return _member_extent2(f, p, depth)


def _field_size(f, sname, idx):
    st = f.module.structs.get(sname)
    if st is None or idx >= len(st["fields"]):
        return None
    return st["fields"][idx][1]


def _member_extent2(f, p, depth=0):
    """If pointer value p was formed by selecting an array member (field ->
    array element k), return the bytes remaining in that array from element k;
    else None."""
    if not ir.is_local(p) or depth > 6:
        return None
    i = f.defs.get(p)
    if i is None:
        return None
    if i.op == "bitcast":
        return _member_extent(f, i.ops[0], depth + 1)
    if i.op == "getelementptr":
        path = i.d["path"]
        if len(path) >= 2 and path[-1][0] == "array" and path[-2][0] == "field":
            c = ir.const_int(path[-1][3])
            if c is not None and 0 <= c <= path[-1][1]:
                return (path[-1][1] - c) * path[-1][2]
        if path and path[-1][0] == "field":
            # address of a whole member (&obj->member)
            return _field_size(f, path[-1][1], path[-1][2])
        return None
    return None


def check_memop(rep, m, f, i, R, lay, cname):
    cal = i.callee or ""
    checks = []   # (pointer operand, length operand, what)
    if ptr.is_memcpy(i):
        checks = [(i.ops[0], i.ops[2], "destination"), (i.ops[1], i.ops[2], "source")]
    elif ptr.is_memset(i):
        checks = [(i.ops[0], i.ops[2], "destination")]
    elif cal in MEMOPS_LEN:
        pa, na = MEMOPS_LEN[cal]
        checks = [(i.ops[pa], i.ops[na], "range")]
    elif cal in STATE_BYTES and len(i.ops) > STATE_BYTES[cal][1]:
        oa, na = STATE_BYTES[cal]
        off, n = ir.const_int(i.ops[oa]), ir.const_int(i.ops[na])
        if off is not None and n is not None:
            if off + n > 40:
                rep.violation("C12.D1m", "%s:%s:%d+%d" % (f.name, cal, off, n), i.where(),
                              "%s: %s addresses state bytes [%d,%d) of the 40-byte permutation state" % (
                                  f.name, cal, off, off + n), config=cname)
            else:
                rep.instance("C12.D1m", 1)
        # the data buffer must hold n bytes when it is a fixed object
        if n is not None:
            for pa in range(1, oa):
                if i.d["argty"][pa].endswith("*"):
                    checks.append((i.ops[pa], i.ops[na], "buffer"))
    for p, nop, what in checks:
        n = ir.const_int(nop)
        if n is None or n < 0:
            continue
        pv = R.resolve(p)
        root = pv.single()
        if root is None or pv.offset is None or pv.variable:
            continue
        size = None
        if root[0] == "alloca":
            size = f.defs[root[1]].d.get("sz")
        elif root[0] == "global":
            g = m.globals.get(root[1])
            size = g["size"] if g and not g.get("decl") else None
        elif root[0] == "param":
            sn = effects.Layouts.pointee_struct(f.param_ty[f.params.index(root[1])])
            if sn and sn in m.structs:
                size = m.structs[sn]["size"]
        ext = _member_extent(f, p)
        inst = "%s:%s:%s:%d" % (f.name, cal.split(".")[1] if cal.startswith("llvm.") else cal, what, n)
        if size is not None and (pv.offset < 0 or pv.offset + n > size):
            rep.violation("C12.D1m", inst, i.where(),
                          "%s: %s of %d byte(s) at offset %d of a %d-byte object (%s)" % (
                              f.name, cal, n, pv.offset, size, what), config=cname)
        elif ext is not None and n > ext:
            rep.violation("C12.D1m", inst, i.where(),
                          "%s: %s of %d byte(s) starts in an array member with only %d byte(s) left (%s)" % (
                              f.name, cal, n, ext, what), config=cname)
        elif size is not None or ext is not None:
            rep.instance("C12.D1m", 1, {"config": cname, "function": f.name, "op": cal, "bytes": n,
                                        "object": size, "member_left": ext})


# ---------------------------------------------------------------------------
def rule_strlen_sub(rep, m, cname):
    """strlen(p) - K (K constant > 0): needs strlen(p) >= K."""
    rid = "C12.D3"
    for f in m.defined():
        RG = None
        for i in f.insts():
            if i.op != "sub":
                continue
            k = ir.const_int(i.ops[1])
            a = i.ops[0]
            if k is None or k <= 0 or not ir.is_local(a):
                continue
            d = f.defs.get(a)
            if d is None or d.op != "call" or d.callee != "strlen":
                continue
            RG = RG or ranges.Ranges(f)
            lo, hi = RG.at(a, i.block.name)
            if lo >= k:
                rep.instance(rid, 1, {"config": cname, "function": f.name, "guard": "local"})
                continue
            # which parameter is measured?
            sarg = d.ops[0]
            if sarg not in f.params:
                rep.unproved_item(rid, "%s: strlen()-%d at %s on a non-parameter string" % (f.name, k, i.where()))
                continue
            pidx = f.params.index(sarg)
            ok, why = _callsites_guarded(m, f, pidx, k)
            if ok:
                rep.instance(rid, 1, {"config": cname, "function": f.name, "guard": why})
            else:
                rep.violation(rid, "%s:strlen-%d" % (f.name, k), i.where(),
                              "%s computes strlen(%s) - %d without a guard; %s" % (
                                  f.name, f.param_names[pidx], k, why), config=cname)


def _callsites_guarded(m, f, pidx, k):
    sites = []
    for g in m.defined():
        for c in g.calls(f.name):
            sites.append((g, c))
    if not sites:
        return False, "the function has no call site to take a guard from"
    for g, c in sites:
        arg = c.ops[pidx]
        # the call must be control dependent on `pred(arg) != 0` for some predicate
        cands = []
        doms = g.dominators()[c.block.name]
        for bn in doms:
            b = g.bmap[bn]
            t = b.term
            if t.op != "br" or not t.ops or len(t.succs) != 2:
                continue
            cond = g.defs.get(t.ops[0]) if ir.is_local(t.ops[0]) else None
            if cond is None or cond.op != "icmp":
                continue
            x, y = cond.ops
            callv = g.defs.get(x) if ir.is_local(x) else None
            if callv is None or callv.op != "call" or ir.const_int(y) != 0:
                continue
            if not callv.ops or not _same_value(g, callv.ops[0], arg):
                continue
            pred = cond.d["pred"]
            true_succ = t.succs[0] if pred == "ne" else t.succs[1] if pred == "eq" else None
            if true_succ is None:
                continue
            # the call site must be reachable only through the "non-zero" edge
            if true_succ in doms or true_succ == c.block.name:
                pf = m.funcs.get(callv.callee or "")
                if pf is not None and not pf.decl:
                    cands.append(pf)
        if not cands:
            return False, "call site %s (%s) is not guarded by a predicate on the same string" % (g.name, c.where())
        verdicts = [(pf, _predicate_accepts_short(pf, k)) for pf in cands]
        if not any(bad is None for _, bad in verdicts):
            pf, bad = verdicts[0]
            return False, ("the predicate %s that guards the call site %s returns non-zero for strings shorter "
                           "than %d (%s), so the subtraction wraps around" % (pf.name, c.where(), k, bad))
    return True, "every call site is guarded by a predicate that rejects strings shorter than %d" % k


def _same_value(g, a, b):
    if a == b:
        return True
    da, db = (g.defs.get(a) if ir.is_local(a) else None), (g.defs.get(b) if ir.is_local(b) else None)
    if da is not None and db is not None and da.op == db.op == "load":
        pa, pb = da.ops[0], db.ops[0]
        if pa == pb:
            return True
        ga, gb = g.defs.get(pa), g.defs.get(pb)
        if ga is not None and gb is not None and ga.op == gb.op == "getelementptr" and ga.ops == gb.ops:
            return True
        if ga is not None and gb is not None and ga.op == gb.op == "getelementptr" and len(ga.ops) == len(gb.ops):
            return all(_same_value(g, x, y) for x, y in zip(ga.ops, gb.ops))
    if da is not None and db is not None and da.op == db.op and da.op in ("sext", "zext", "bitcast") :
        return _same_value(g, da.ops[0], db.ops[0])
    return False


def _predicate_accepts_short(pf, k):
    """Does pf return a possibly non-zero value on a path where
    strlen(param0) < k ?  -> description of the offending return, or None"""
    RG = ranges.Ranges(pf)
    sl = None
    for i in pf.insts():
        if i.op == "call" and i.callee == "strlen" and i.ops and i.ops[0] == pf.params[0]:
            sl = i.id
    if sl is None:
        return "it never measures the string"
    for b in pf.blocks:
        t = b.term
        if t.op != "ret" or not t.ops:
            continue
        v = t.ops[0]
        cands = [(v, b.name)]
        d = pf.defs.get(v) if ir.is_local(v) else None
        if d is not None and d.op == "phi" and d.block is b:
            cands = [(val, pred) for val, pred in d.d["inc"]]
        for val, where in cands:
            lo, hi = RG.at(sl, where)
            if lo >= k:
                continue          # on this path the string is long enough
            c = ir.const_int(val)
            if c == 0:
                continue
            return "returns %s when the length is in [%d,%d]" % (c if c is not None else "a computed value", lo, min(hi, k - 1))
    return None


def control_d6(rep, rid="C12.D6"):
    """positive control: the fixture's out-of-range store must be found"""
    import os
    from . import report as _r
    src = os.path.join(repo.VERIF, "fixtures", "c12_overrun.c")
    out = os.path.join(repo.scratch(), "c12fix")
    os.makedirs(out, exist_ok=True)
    ll, opt, js = os.path.join(out, "f.ll"), os.path.join(out, "f.opt.ll"), os.path.join(out, "f.json")
    repo.run(["clang", "-O0", "-Xclang", "-disable-O0-optnone", "-g", "-fno-discard-value-names", "-S", "-emit-llvm", src, "-o", ll])
    repo.run(["opt-14", "-S", "-passes=function(sroa,early-cse)", ll, "-o", opt])
    repo.run([repo.IRDUMP, opt, js])
    m = ir.Module.load(js)
    f = m.funcs["fixture_copy_blocks"]
    decl = {"params": [{"name": "output", "ty": "uint8_t *"}, {"name": "input", "ty": "const uint8_t *"},
                       {"name": "size", "ty": "unsigned int"}]}
    probe = _r.Report("C12", "quick")
    rule_output_range(probe, m, f, decl, "fixture", rid=rid)
    if not any(v["rule"] == rid for v in probe.violations):
        rep.broken.append("%s positive control: the fixture's out-of-range store was not reported" % rid)
    else:
        rep.instance(rid, 1, {"positive_control": "fixtures/c12_overrun.c flagged"})
