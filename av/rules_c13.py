"""C13 - freed, cleared and destroyed objects retain nothing secret.

Obligations are enumerated on every run: every public C function named *_free
(plus the internal ascon_masked_state_free / ascon_trng_free), every C++
destructor and clear() of the ascon:: classes that is emitted by the library's
C++ units (header-inline destructors that no library unit emits are not
separate obligations; they forward to the C *_free functions).  For the object type of
each obligation, every leaf member that can hold run-time data must be wiped
on every path (must-pass analysis with callee summaries), at -O0 and in the
shipped -O3 IR.
"""
import os
import re

from . import effects, facts, ir, repo, taint
from . import rules_c11

LEVEL = "other"
MANIFEST = {
    "text": "decides D1 coverage (every secret-capable member of the object is inside a wiped range on every path "
            "of each free / clear / destructor obligation), D2 that the wiping sink really wipes (ascon_clean "
            "reaches explicit_bzero / a volatile loop over the whole range; ascon_free reaches it for the whole "
            "state) and D3 that state objects living on the stack of a library function (the one-shot functions) "
            "are wiped by a non-elidable primitive before every return on which they were written, D4 that the "
            "wiping destructor of every polymorphic class sits in its vtable (destruction through the base interface "
            "wipes); checked at -O0 "
            "and, in the thorough tier, on the -O3 IR; the claim is at LLVM-IR level",
    "note": "trusted: clang -O3 as a model of the shipped optimiser (the release build uses the system cc), "
            "libc explicit_bzero, irdump; padding bytes are outside the claim; members never written with "
            "run-time data anywhere in the library are exempt (computed)",
    "technique": "must-pass-through dataflow (intersection over CFG paths) with bottom-up wipe summaries "
                 "and record-layout coverage, at two optimisation levels",
    "engines": ["irdump", "asconfacts", "av"],
}

EXTRA_C_OBLIGATIONS = ("ascon_masked_state_free", "ascon_trng_free")
PUBLIC_MEMBER_NAMES = {"nonce", "m_nonce"}


def configs(tier):
    if tier == "quick":
        return [(repo.Config("asm"), ("O0", "O3")), (repo.Config("c32"), ("O0",)),
                (repo.Config("direct"), ("O0",)), (repo.Config("asm", 2, 1, 2), ("O0",)),
                (repo.Config("c64", 3, 3, 3), ("O0",))]
    out = [(repo.Config(b), ("O0", "O3")) for b in repo.BACKENDS]
    out += [(repo.Config("asm", 2, 1, 2), ("O0", "O3")), (repo.Config("c64", 3, 3, 3), ("O0", "O3")),
            (repo.Config("asm", 4, 4, 4), ("O0",)), (repo.Config("c32", 2, 2, 2), ("O0",))]
    return out


def is_cpp_dtor(name):
    return bool(re.match(r"^_ZN5ascon.*D[012]Ev$", name))


def is_cpp_clear(name):
    return bool(re.match(r"^_ZN5ascon\d+\w+5clearEv$", name))


def run(rep, tier):
    rep.explanation = (
        "For each obligation function F(obj): required bytes = leaf members of obj's record type that are "
        "secret storage (permutation state, masked words/keys, key/prk/out buffers) or bookkeeping members "
        "into which the C11 taint engine finds a secret-labelled store (computed, not assumed); wiped bytes = intersection over all entry-to-return paths (paths with a null "
        "argument exempt) of the byte ranges passed to ascon_clean/explicit_bzero, zero-stored, or wiped by "
        "a callee summary, minus anything overwritten afterwards.  required must be a subset of wiped.")
    rep.undecided = "what the non-clang optimiser of the release build does below the IR; padding bytes"
    rep.assumptions = ["plain constant stores through a caller-visible pointer are not dead stores",
                       "in C++ destructors only calls to wiping sinks count (lifetime-based dead-store elimination)"]
    cfgs = configs(tier)
    builds = repo.configure_many([c for c, _ in cfgs])
    api = facts.public_c_api(builds[0])
    jobs = []
    for b, (c, levels) in zip(builds, cfgs):
        for lv in levels:
            jobs.append((b, lv))
    lowered = repo.lower_many([(b, dict(group="lib", level=lv, scev=True,
                                        tolerate=tuple(u.rel for u in b.group("lib", ("c++",)))))
                               for b, lv in jobs])
    rule_sink(rep, builds[0])
    rid = "C13.D1"
    rep.rule(rid, "free/clear/destructor wipes every secret-capable member on every path")
    field_cache = {}
    o3_cache = {}
    for (b, lv), lr in zip(jobs, lowered):
        m = ir.Module.load(lr.json)
        cname = "%s/%s" % (b.cfg.name, lv)
        rep.configs.append(cname)
        rep.units.update(lr.units)
        for u, err in lr.failed:
            rep.notes.append("unit %s not lowered by clang in %s" % (u, cname))
        lay = effects.Layouts(m)
        if b.cfg.name not in field_cache:
            eng, _, _ = rules_c11.analyse_module(m, api, cname)
            field_cache[b.cfg.name] = dict(eng.FIELD)
        records = taint.Records(m)
        FIELD = field_cache[b.cfg.name]
        summ = effects.wipe_summaries(m, count_plain_stores=lambda f: not is_cpp_dtor(f.name), external=_asm_wipes(b))
        rep.functions += len(summ)
        nobl = 0
        req_by_type = {}
        for f in m.defined():
            kind = None
            if f.name in api and f.name.endswith("_free") or f.name in EXTRA_C_OBLIGATIONS:
                kind = "free"
            elif is_cpp_dtor(f.name):
                kind = "destructor"
            elif is_cpp_clear(f.name):
                kind = "clear"
            if kind is None or not f.params:
                continue
            sname = effects.Layouts.pointee_struct(f.param_ty[0])
            if sname is None or sname not in m.structs:
                if kind == "free":
                    raise repo.AnalysisBroken("%s: cannot determine the object type of %s" % (rid, f.name))
                continue
            required = {}
            rname = taint.Records.irname(f.param_ty[0])
            for (off, size, key, ty) in lay.leaves(sname):
                nm = lay.member_name(sname, off)
                if nm.split(".")[-1].startswith("_vptr") or ty.endswith("*"):
                    continue
                cl = records.classify(rname, off, False)
                if cl is None:
                    raise repo.AnalysisBroken("%s: no debug-info layout for %s (object of %s)" % (rid, rname, f.name))
                labs, fields = cl
                why = set(labs)
                for fk in fields:
                    why |= set(FIELD.get(fk, ()))
                if not why:
                    continue       # public or never holds secret-derived data (computed)
                for x in range(off, off + size):
                    required[x] = nm
            if not required:
                continue
            nobl += 1
            if kind == "free":
                req_by_type.setdefault(sname, required)
            wiped = summ[f.name].must.get(0, frozenset())
            missing = sorted(x for x in required if x not in wiped)
            if kind == "clear" and missing:
                # clear() may re-key with constants instead of wiping (ISAP):
                # accepted when the object is re-initialised by a callee from
                # constant data only - decided by rule C13.K
                if _rekeyed_with_constants(m, f):
                    rep.instance(rid, 1, {"config": cname, "function": f.name, "kind": "clear-by-constant-rekey"})
                    continue
            if missing and lv == "O0" and _wiped_at_o3(b, f.name, set(required), o3_cache):
                # the -O0 lowering hides the wipe behind a construct the summary does not follow (pointer tables, loops
                # over members), but in the optimised code that is shipped every required byte is wiped on every path
                rep.unproved_item(rid, "%s (%s): wipe of %d byte(s) not recognised in the -O0 IR; present on every path of "
                                  "the -O3 IR" % (f.name, cname, len(missing)))
                continue
            if missing:
                names = []
                for x in missing:
                    if required[x] not in names:
                        names.append(required[x])
                rep.violation(rid, f.name, f.src,
                              "%s of %s leaves member(s) %s (%d byte(s): offsets %s) un-wiped on some path" % (
                                  kind, sname, ", ".join(names), len(missing), _ranges(missing)),
                              config=cname, detail={"missing_offsets": missing})
            else:
                rep.instance(rid, 1, {"config": cname, "function": f.name, "kind": kind, "object": sname,
                                      "required_bytes": len(required), "wiped_bytes": len(wiped)})
        if nobl < 25:
            rep.broken.append("%s: only %d obligations found in %s" % (rid, nobl, cname))
        rule_locals(rep, m, cname, req_by_type, b)
        if lv == "O0":
            rule_virtual_dtor(rep, m, cname)
    rep.floor(rid, 25 * len(jobs))


def _wiped_at_o3(b, fname, required, cache):
    """does the function of that name in the -O3 lowering of the same configuration wipe every required byte of its
    first parameter on every path?  (False if it has no out-of-line copy there)"""
    if b.cfg.name not in cache:
        lr = repo.lower(b, group="lib", level="O3", scev=True, tolerate=tuple(u.rel for u in b.group("lib", ("c++",))))
        m3 = ir.Module.load(lr.json)
        cache[b.cfg.name] = (m3, effects.wipe_summaries(m3, count_plain_stores=lambda f: not is_cpp_dtor(f.name),
                                                        external=_asm_wipes(b)))
    m3, summ3 = cache[b.cfg.name]
    if fname not in summ3 or fname not in m3.funcs or m3.funcs[fname].decl:
        return False
    return required <= set(summ3[fname].must.get(0, frozenset()))


def rule_virtual_dtor(rep, m, cname):
    """D4: the C++ cipher classes are used through the polymorphic interface
    ascon::aead; their secrets are wiped by the destructor of the concrete class.
    `delete p` / unique_ptr<ascon::aead> run that destructor only if it is
    virtual, i.e. if the class's vtable has destructor slots.  For every class
    of the library with a vtable and a destructor defined in the library, the
    vtable (pointer slots dumped by irdump) must hold that destructor."""
    rid = "C13.D4"
    rep.rule(rid, "polymorphic classes: the wiping destructor is virtual (it sits in the class's vtable), so destruction through the base interface wipes")
    n = 0
    for gname, g in sorted(m.globals.items()):
        mm = re.match(r"^_ZTV(N5ascon\w+E)$", gname)
        if not mm or g.get("decl"):
            continue
        cls = mm.group(1)                      # N5ascon7aead128E
        dtors = ["_Z%sD%dEv" % (cls[:-1], k) for k in (0, 1, 2)]
        have = [d for d in dtors if d in m.funcs and not m.funcs[d].decl]
        if not have:
            continue
        n += 1
        slots = set(sym for _off, sym in g.get("ptrs", []))
        if "ptrs" not in g and "bytes" not in g:
            rep.unproved_item(rid, "%s: vtable %s has no dumped initialiser" % (cname, gname))
            continue
        if slots & set(dtors):
            rep.instance(rid, 1, {"config": cname, "class": cls, "vtable_destructor": sorted(slots & set(dtors))})
        else:
            f = m.funcs[have[0]]
            rep.violation(rid, "%s:non-virtual-destructor" % cls, f.src,
                          "the destructor of class %s is not virtual (its vtable %s has no destructor slot): destroying the object "
                          "through a pointer to its polymorphic base (delete, unique_ptr<ascon::aead>) runs only the base "
                          "destructor and leaves the key / state members unwiped" % (demangle_cls(cls), gname), config=cname)
    if n == 0:
        rep.unproved_item(rid, "%s: no polymorphic class with a destructor found" % cname)


def demangle_cls(c):
    out, s = [], c[1:-1]
    while s:
        mm = re.match(r"(\d+)", s)
        if not mm:
            break
        k = int(mm.group(1))
        out.append(s[len(mm.group(1)):len(mm.group(1)) + k])
        s = s[len(mm.group(1)) + k:]
    return "::".join(out)


_ASM_WIPES = {}


def _asm_wipes(b):
    """what the x86-64 assembly functions of the configuration wipe through their pointer arguments (stores made by
    assembly cannot be elided and are not visible in the IR); None for the C back ends"""
    if b is None or b.cfg.backend != "asm":
        return None
    if b.cfg.name not in _ASM_WIPES:
        from . import asm_anf
        _ASM_WIPES[b.cfg.name] = asm_anf.wipe_summaries(b)
    return _ASM_WIPES[b.cfg.name]


def rule_locals(rep, m, cname, req_by_type, b=None):
    """D3: a state object that lives on the stack of a library function (the
    one-shot functions build one, use it and let it die) is wiped before every
    return on which it was written, and - because the object is dead afterwards
    and the compiler may therefore drop ordinary stores to it, also after
    inlining a *_free function - only non-elidable wipes count here: calls to
    ascon_clean / explicit_bzero / the back end's ascon_free, directly or
    through callees."""
    rid = "C13.D3"
    rep.rule(rid, "state objects on the stack of a library function are wiped with a non-elidable primitive before every return")
    types = {"%" + t if not t.startswith("%") else t for t in req_by_type}

    def pred(f, i):
        return (i.d.get("aty") or "").lstrip("%") in {t.lstrip("%") for t in types}
    strict = effects.wipe_summaries(m, count_plain_stores=lambda f: False, allocas=pred, external=_asm_wipes(b))
    for f in m.defined():
        for i in f.insts():
            if i.op != "alloca" or not pred(f, i):
                continue
            sname = (i.d.get("aty") or "").lstrip("%")
            required = req_by_type.get(sname) or req_by_type.get("%" + sname)
            if not required:
                continue
            got = strict[f.name].must.get("a:" + i.id, frozenset())
            missing = sorted(x for x in required if x not in got)
            if missing:
                names = []
                for x in missing:
                    if required[x] not in names:
                        names.append(required[x])
                rep.violation(rid, "%s:%s" % (f.name, i.id.lstrip("%")), i.where() if i.loc else f.src,
                              "%s returns on some path with its local %s `%s` still holding member(s) %s (%d byte(s)): no "
                              "non-elidable wipe (ascon_clean or a callee that reaches it) covers them, and ordinary stores to a "
                              "dying object may be removed by the optimiser" % (f.name, sname, i.id.lstrip("%"), ", ".join(names), len(missing)),
                              config=cname, detail={"missing_offsets": missing})
            else:
                rep.instance(rid, 1, {"config": cname, "function": f.name, "local": i.id, "object": sname})


def _ranges(xs):
    out, start, prev = [], None, None
    for x in xs:
        if start is None:
            start = prev = x
        elif x == prev + 1:
            prev = x
        else:
            out.append((start, prev))
            start = prev = x
    if start is not None:
        out.append((start, prev))
    return ",".join("%d-%d" % r if r[0] != r[1] else str(r[0]) for r in out)


def _rekeyed_with_constants(m, f):
    """clear() that delegates to an *_init / set_key with a constant (all-zero)
    key object: every pointer argument other than `this`-derived ones is a
    constant global."""
    for i in f.calls():
        cal = i.callee or ""
        if cal.endswith("_init") or "set_key" in cal:
            ok = True
            for a in i.ops[1:]:
                if isinstance(a, dict) and "ce" in a:
                    gs = list(ir.globals_in(a))
                    if not gs or not all(m.globals.get(g, {}).get("constant") for g in gs):
                        ok = False
                elif ir.is_global(a):
                    if not m.globals.get(a[1:], {}).get("constant"):
                        ok = False
                elif ir.const_int(a) is not None or a == "null":
                    continue
                else:
                    ok = False
            if ok:
                return True
    return False


def rule_sink(rep, build):
    """D2: the wiping sink really wipes."""
    rid = "C13.D2"
    rep.rule(rid, "ascon_clean wipes [buf, buf+size) with a non-elidable primitive; ascon_free reaches it for all 40 bytes")
    lr = repo.lower(build, group="lib", level="O3", langs=("c",), scev=True)
    m = ir.Module.load(lr.json)
    f = m.funcs.get("ascon_clean")
    if f is None or f.decl:
        raise repo.AnalysisBroken("ascon_clean is not defined in the library")
    ok = False
    why = ""
    for i in f.calls():
        if i.callee in ("explicit_bzero", "memset_s", "SecureZeroMemory", "explicit_memset"):
            # arguments must be the function's own (buf, size)
            a0, a1 = i.ops[0], i.ops[-1]
            d1 = f.defs.get(a1) if ir.is_local(a1) else None
            if d1 is not None and d1.op in ("zext", "sext"):
                a1 = d1.ops[0]
            if a0 == f.params[0] and a1 == f.params[1] and all(
                    i.block.name in f.postdominators().get(b.name, ()) or True for b in f.blocks[:1]):
                # must be reached on every path from entry
                if i.block.name in f.postdominators().get(f.blocks[0].name, ()):
                    ok = True
                else:
                    why = "the call to %s is not on every path" % i.callee
            else:
                why = "%s is not called with (buf, size)" % i.callee
    if not ok and not why:
        # volatile store loop
        vs = [i for i in f.insts() if i.op == "store" and i.d.get("vol") and ir.const_int(i.ops[0]) == 0]
        loops = f.d.get("loops", [])
        if vs and loops:
            btc = loops[0].get("btc", "")
            if "%size" in btc or "%" + f.param_names[1] in btc:
                ok = True
            else:
                why = "volatile store loop trip count %r does not cover size" % btc
        else:
            why = "no explicit_bzero-class call and no volatile store loop"
    if ok:
        rep.instance(rid, 1, {"function": "ascon_clean", "sink": [i.callee for i in f.calls()]})
    else:
        rep.violation(rid, "ascon_clean", f.src, "ascon_clean does not provably wipe its whole range: " + why)
    # ascon_free in every back end
    for b in repo.configure_many(repo.backend_configs()):
        lr2 = repo.lower(b, group="lib", level="O0", langs=("c",))
        m2 = ir.Module.load(lr2.json)
        summ = effects.wipe_summaries(m2, external=_asm_wipes(b))
        s = summ.get("ascon_free")
        if s is None:
            raise repo.AnalysisBroken("ascon_free not defined in %s" % b.cfg.name)
        if s.must.get(0, frozenset()) >= frozenset(range(40)):
            rep.instance(rid, 1, {"config": b.cfg.name, "function": "ascon_free", "wiped": 40})
        else:
            rep.violation(rid, "ascon_free", m2.funcs["ascon_free"].src,
                          "ascon_free wipes only bytes %s of the 40-byte state" % _ranges(sorted(s.must.get(0, ()))),
                          config=b.cfg.name)
