"""C14 - session nonces advance by exactly one per packet.

  D1  placement: each *_aead_start consumes the stored nonce and then calls the
      increment exactly once on every path; each C++ do_encrypt increments
      exactly once after the C encryption; each do_decrypt increments only on
      the `result >= 0` branch; no other C++ member touches the increment
  D2  the increment function: one loop over the 16 bytes from index 15 down
      to 0 (scalar evolution), and the per-byte transfer function
      (byte, carry) -> (byte', carry') equals (b + c) mod 256, (b + c) div 256
      for all 512 inputs (value-set interpretation of the loop body), with
      carry initialised to 1 - by induction the function adds one to the
      128-bit big-endian integer with full carry and wrap-around
  D3  set_counter stores 0 in bytes 0..7 and n big-endian in bytes 8..15;
      the 12 C++ set_nonce methods copy the first 16 bytes of a long nonce and
      left-pad a short one with zeros (the two ranges tile [0,16))
Undecided: "packet i equals the one-shot result under nonce N+i" as a
functional statement about the cipher.
"""
import re

from . import ceval, effects, facts, ir, ptr, repo
from .rules_c17 import demangle_method, class_algorithm

LEVEL = "other"
MANIFEST = {
    "text": "decides D1 (exactly-once, correctly placed increment in the 3 incremental start functions and the 24 "
            "C++ do_encrypt/do_decrypt methods, never on a failed decryption), D2 (the increment function adds "
            "one to the 128-bit big-endian integer: loop coverage from scalar evolution plus an exhaustive check "
            "of the per-byte carry transfer function), D3 (set_counter and the 12 set_nonce methods store the "
            "documented 16 bytes for a symbolic counter / symbolic nonces of length 0..40, decided by "
            "interpreting the helper over bit expressions) and D4 (bounded shapes, all key/data values: in a "
            "receiver session packet i is accepted under nonce+i also after a forged packet was rejected; the "
            "sender side is C01.M multipacket)",
    "note": "trusted: clang lowering, irdump and LLVM scalar evolution for the loop's index recurrence; the "
            "induction from the per-byte transfer function to the 128-bit addition is the usual ripple-carry "
            "argument",
    "technique": "path counting / dominance on the CFG, scalar-evolution facts, value-set abstract "
                 "interpretation of a loop body over a finite domain, block-operation tiling algebra",
    "engines": ["irdump", "asconfacts", "av"],
}


def run(rep, tier):
    rep.explanation = (
        "Linked -O0+SROA IR of the C and C++ units (64-bit C back end); call counting over the acyclic CFG, "
        "dominance of the nonce-consuming call over the increment, branch-edge dominance for decrypt; the "
        "increment loop is characterised by LLVM's scalar evolution and its body is evaluated for all "
        "(byte, carry) pairs.")
    rep.undecided = "session packet i equals the one-shot result under nonce N+i (functional)"
    b = repo.configure(repo.Config("c64"))
    lr = repo.lower(b, group="lib", level="O0", scev=True,
                    tolerate=tuple(u.rel for u in b.group("lib", ("c++",))))
    m = ir.Module.load(lr.json)
    rep.configs.append(b.cfg.name)
    rep.units.update(lr.units)
    # placement rules look at each public function with its file-local helpers inlined (what a function does must not
    # depend on how it is split into helpers)
    lri = repo.lower(b, group="lib", level="O0", scev=True, inline_internal=True,
                     tolerate=tuple(u.rel for u in b.group("lib", ("c++",))))
    mi = ir.Module.load(lri.json)
    rule_placement_c(rep, mi)
    rule_placement_cpp(rep, mi)
    rule_increment(rep, m)
    rule_helpers(rep, m)
    rule_sessions(rep, tier)
    rep.floor("C14.D1", 3 + 24)
    rep.floor("C14.D2", 1)
    rep.floor("C14.D3", 13)


INC = "ascon_aead_increment_nonce"


def call_count_range(f, callee):
    """(min, max) number of calls to callee over all entry->ret paths (max = inf if in a loop)"""
    backs = set((a.name, b.name) for a, b in f.back_edges())
    inloop = set()
    for a, b2 in f.back_edges():
        # blocks of the natural loop
        body = {b2.name}
        work = [a]
        while work:
            x = work.pop()
            if x.name in body:
                continue
            body.add(x.name)
            work.extend(x.preds)
        inloop |= body
    cnt = {b.name: sum(1 for c in b.insts if c.op in ("call", "invoke") and c.callee == callee) for b in f.blocks}
    if any(cnt[n] for n in inloop):
        return (0, float("inf"))
    memo = {}

    def rng(b):
        if b.name in memo:
            return memo[b.name]
        memo[b.name] = (0, 0)
        succs = [s for s in b.succs if (b.name, s.name) not in backs]
        if not succs:
            r = (cnt[b.name], cnt[b.name]) if b.term.op == "ret" else None
        else:
            rs = [rng(s) for s in succs]
            rs = [x for x in rs if x is not None]
            r = (cnt[b.name] + min(x[0] for x in rs), cnt[b.name] + max(x[1] for x in rs)) if rs else None
        memo[b.name] = r
        return r
    return rng(f.blocks[0]) or (0, 0)


def _member(m, f, pv, lay):
    root = pv.single()
    if root is None or root[0] != "param" or pv.offset is None:
        return None
    sn = effects.Layouts.pointee_struct(f.param_ty[f.params.index(root[1])])
    if sn is None:
        return None
    return lay.member_name(sn, pv.offset)


def rule_placement_c(rep, m):
    rid = "C14.D1"
    rep.rule(rid, "the nonce is incremented exactly once, after it was consumed, on every path")
    lay = effects.Layouts(m)
    for alg in ("128", "128a", "80pq"):
        name = "ascon%s_aead_start" % alg
        f = m.funcs.get(name)
        if f is None or f.decl:
            raise repo.AnalysisBroken("%s not defined" % name)
        rep.functions += 1
        R = ptr.resolver(f)
        lo, hi = call_count_range(f, INC)
        incs = [c for c in f.calls(INC)]
        if (lo, hi) != (1, 1):
            rep.violation(rid, name + ":count", f.src, "%s increments the stored nonce between %s and %s times "
                          "depending on the path, expected exactly once" % (name, lo, hi))
            continue
        inc = incs[0]
        nm = _member(m, f, R.resolve(inc.ops[0]), lay)
        if nm is None or "nonce" not in nm:
            rep.violation(rid, name + ":target", inc.where(), "%s increments %s, not the state's nonce" % (name, nm))
            continue
        # the nonce must have been consumed (read by an earlier call) before
        consumed = False
        for c in f.calls():
            if c is inc or c.callee == INC:
                continue
            for a in c.ops:
                if isinstance(a, str) and a.startswith("%"):
                    nm2 = _member(m, f, R.resolve(a), lay)
                    if nm2 and "nonce" in nm2 and f.dominates(c, inc):
                        consumed = True
        if not consumed:
            # the state object itself handed to a helper of the same unit before the increment: the helper may be what
            # feeds the nonce into the cipher state; whether it does is decided behaviourally (C14.D4, C01.M sessions)
            via_helper = any(c is not inc and f.dominates(c, inc) and (c.callee or "") in m.funcs and
                             not m.funcs[c.callee].decl and m.funcs[c.callee].internal and
                             any(isinstance(a, str) and R.resolve(a).single() == ("param", f.params[0]) for a in c.ops)
                             for c in f.calls())
            if via_helper:
                rep.unproved_item(rid, "%s: the nonce is not passed to a callee directly before the increment; a helper "
                                  "receives the state object (decided by C14.D4 / C01.M sessions)" % name)
                continue
            rep.violation(rid, name + ":order", inc.where(), "%s increments the nonce before (or without) feeding it "
                          "into the cipher state, so the packet is not encrypted under the stored nonce" % name)
        else:
            rep.instance(rid, 1, {"function": name, "increments": 1, "after": "nonce absorbed"})


def rule_placement_cpp(rep, m):
    rid = "C14.D1"
    lay = effects.Layouts(m)
    nfound = 0
    for f in m.defined():
        dm = demangle_method(f.name)
        if dm is None:
            continue
        cls, meth = dm
        if class_algorithm(cls) is None:
            continue
        R = ptr.resolver(f)
        incs = [c for c in f.calls(INC)]
        if meth not in ("do_encrypt", "do_decrypt"):
            if incs:
                rep.violation(rid, "%s::%s:stray-increment" % (cls, meth), incs[0].where(),
                              "%s::%s advances the nonce; only do_encrypt / do_decrypt may" % (cls, meth))
            continue
        nfound += 1
        rep.functions += 1
        inst = "%s::%s" % (cls, meth)
        ccalls = [c for c in f.calls() if re.search(r"_(encrypt|decrypt)$", c.callee or "") and (c.callee or "").startswith("ascon")]
        if len(ccalls) != 1:
            rep.violation(rid, inst + ":shape", f.src, "%s has %d cipher calls" % (inst, len(ccalls)))
            continue
        cc = ccalls[0]
        lo, hi = call_count_range(f, INC)
        for inc in incs:
            nm = _member(m, f, R.resolve(inc.ops[0]), lay)
            if nm is None or "nonce" not in nm:
                rep.violation(rid, inst + ":target", inc.where(), "%s increments %s, not the object's nonce" % (inst, nm))
        if meth == "do_encrypt":
            if (lo, hi) != (1, 1):
                rep.violation(rid, inst + ":count", f.src, "%s advances the nonce between %s and %s times depending on "
                              "the path, expected exactly once per encryption" % (inst, lo, hi))
            elif not f.dominates(cc, incs[0]):
                rep.violation(rid, inst + ":order", incs[0].where(), "%s advances the nonce before the packet is encrypted "
                              "under it" % inst)
            else:
                rep.instance(rid, 1, {"method": inst, "increments": 1, "after": cc.callee})
            continue
        # do_decrypt
        if hi > 1 or hi == 0:
            rep.violation(rid, inst + ":count", f.src, "%s advances the nonce up to %s times" % (inst, hi))
            continue
        inc = incs[0]
        ok = False
        why = "the increment is not guarded by the decryption result"
        for bn in f.dominators()[inc.block.name]:
            t = f.bmap[bn].term
            if t.op != "br" or not t.ops or len(t.succs) != 2:
                continue
            c = f.defs.get(t.ops[0]) if ir.is_local(t.ops[0]) else None
            if c is None or c.op != "icmp" or c.ops[0] != cc.id:
                continue
            k = ir.const_int(c.ops[1])
            p = c.d["pred"]
            # successor taken when the result is a failure (-1)
            fail_true = ceval.step(c, {cc.id: -1})
            okv = ceval.step(c, {cc.id: 0})
            if fail_true is None or okv is None or fail_true == okv:
                why = "the guard `%s %s` does not separate success (0) from failure (-1)" % (p, k)
                continue
            ok_succ = t.succs[0] if okv else t.succs[1]
            fail_succ = t.succs[0] if fail_true else t.succs[1]
            if (ok_succ == inc.block.name or ok_succ in f.dominators()[inc.block.name]) and \
                    inc.block.name not in f.reachable_from(f.bmap[fail_succ]):
                ok = True
            else:
                why = "the increment is reachable after a failed decryption"
        if ok:
            rep.instance(rid, 1, {"method": inst, "increment": "only when result >= 0"})
        else:
            rep.violation(rid, inst + ":failed-decrypt", inc.where(), "%s: %s" % (inst, why))
    if nfound < 24:
        rep.broken.append("C14.D1: only %d C++ do_encrypt/do_decrypt methods found" % nfound)


def rule_increment(rep, m):
    """D2.  The shape proof (_increment_shape: one loop from byte 15 down to 0,
    carry transfer function checked for all 512 (carry, byte) pairs) is exact
    for every nonce but knows one shape of the function.  Its findings are
    therefore confirmed by evaluating the function (constant propagation through
    the IR, helpers included) on nonces that exercise every carry length: a
    wrong result is a violation with its witness; if all agree, the shape is
    simply not the known one and the clause is left unproved."""
    from . import report as _report
    from .affine import Machine, Unsupported, const_bits, to_int, is_const
    from .sponge import cbytes
    import hashlib
    rid = "C14.D2"
    rep.rule(rid, "ascon_aead_increment_nonce adds one to the 128-bit big-endian integer (loop coverage + carry transfer function)")
    probe = _report.Report("C14", "quick")
    probe._known = []
    _increment_shape(probe, m)
    if not probe.violations:
        rep.merge(probe.export())
        return
    f = m.funcs[INC]
    nonces = [bytes([0xff] * 16), bytes(16)]
    for k in range(16):
        for v in (0x00, 0x7f, 0xfe):
            hi = hashlib.sha256(b"c14-%d-%d" % (k, v)).digest()[:15 - k]
            nonces.append(hi + bytes([v]) + bytes([0xff] * k))
    bad = None
    try:
        for nb in nonces:
            mc = Machine(m)
            ob = mc.new_obj("N", 16, symbolic=False)
            mc.store(ob, cbytes(nb))
            mc.call(INC, [ob])
            got = mc.load(ob, 16)
            if not is_const(got):
                raise Unsupported("evaluation on a constant nonce did not give a constant")
            gb = bytes(to_int(got[8 * k:8 * k + 8]) for k in range(16))
            want = ((int.from_bytes(nb, "big") + 1) % (1 << 128)).to_bytes(16, "big")
            if gb != want:
                bad = (nb, gb, want)
                break
    except Unsupported as e:
        rep.unproved_item(rid, "shape proof inconclusive (%s) and the function is not evaluable: %s" % (probe.violations[0]["message"][:100], e))
        return
    if bad:
        rep.violation(rid, "increment:value", f.src, "ascon_aead_increment_nonce(%s) gives %s, the 128-bit big-endian successor is %s "
                      "(shape proof: %s)" % (bad[0].hex(), bad[1].hex(), bad[2].hex(), probe.violations[0]["message"][:120]))
    else:
        rep.unproved_item(rid, "shape proof of the increment inconclusive (%s); %d evaluated nonces covering every carry length agree "
                          "with the big-endian successor" % (probe.violations[0]["message"][:120], len(nonces)))


def _increment_shape(rep, m):
    rid = "C14.D2"
    f = m.funcs.get(INC)
    if f is None or f.decl:
        raise repo.AnalysisBroken(INC + " not defined")
    rep.functions += 1
    loops = f.d.get("loops", [])
    if len(loops) != 1:
        rep.violation(rid, "increment:loop", f.src, "the increment has %d loops, expected one" % len(loops))
        return
    lp = loops[0]
    blocks = set(lp["blocks"])
    R = ptr.resolver(f)
    npub = f.params[0]
    lds = [i for i in f.insts() if i.op == "load" and i.block.name in blocks and
           any(r == ("param", npub) for r in R.resolve(i.ops[0]).roots)]
    sts = [i for i in f.insts() if i.op == "store" and i.block.name in blocks and
           any(r == ("param", npub) for r in R.resolve(i.ops[1]).roots)]
    if len(lds) != 1 or len(sts) != 1:
        rep.violation(rid, "increment:body", f.src, "loop body has %d loads and %d stores of the nonce" % (len(lds), len(sts)))
        return
    ld, st = lds[0], sts[0]
    if ld.ops[0] != st.ops[1]:
        rep.violation(rid, "increment:address", st.where(), "the byte stored is not at the address that was loaded")
        return
    # index recurrence from scalar evolution: {14 or 15,+,-1}
    recs = [r for r in lp.get("scev", []) if r[0] == ld.id]
    se = recs[0][2] if recs else ""
    mrec = re.search(r"\{\(?(\d+)(?: \+ %\w+\))?(?:<\w+>)*,\+,(-?\d+)\}", se) if ("%" + f.param_names[0]) in se or "%npub" in se else None
    btc = lp.get("btc_const")
    body_in_header = ld.block.name == lp["header"]
    if btc is not None and lp.get("exiting") == [lp["header"]] and not body_in_header:
        iters = btc
    elif btc is not None:
        iters = btc + 1
    else:
        iters = None
    if not mrec or iters is None:
        rep.unproved_item(rid, "scalar evolution of the nonce index not recognised (%r, trip %r)" % (se, lp.get("btc")))
    else:
        start, step = int(mrec.group(1)), int(mrec.group(2))
        if (start, step, iters) != (15, -1, 16):
            rep.violation(rid, "increment:coverage", ld.where(),
                          "the loop visits %s byte(s) starting at index %d with stride %d; expected 16 bytes from "
                          "index 15 down to 0" % (iters, start, step))
        else:
            rep.instance(rid, 1, {"index_recurrence": se, "iterations": iters})
    # carry transfer function
    hdr = f.bmap[lp["header"]]
    carry_phis = [i for i in hdr.insts if i.op == "phi" and i.ty.startswith("i") and
                  any(ir.const_int(v) is not None for v, _ in i.d["inc"]) and i.id != None]
    cphi = None
    for p in carry_phis:
        init = [ir.const_int(v) for v, pr in p.d["inc"] if pr not in blocks]
        if init and init[0] == 1:
            cphi = p
    if cphi is None:
        rep.violation(rid, "increment:carry-init", f.src, "no loop-carried value initialised to 1 (the amount added)")
        return
    latch_val = [v for v, pr in cphi.d["inc"] if pr in blocks][0]
    cw = ceval.width(cphi.ty)
    bad = None
    order = [bb for bb in f.rpo() if bb.name in blocks]
    for c_in in (0, 1):
        for bt in range(256):
            env = {cphi.id: c_in, ld.id: bt}
            for bb in order:
                for i in bb.insts:
                    if i.id and i.id not in env and i.op not in ("phi", "load", "call", "getelementptr"):
                        v = ceval.step(i, env)
                        if v is not None:
                            env[i.id] = v
            out_b = ceval.value(env, st.ops[0])
            out_c = ceval.value(env, latch_val)
            if out_b is None or out_c is None:
                rep.unproved_item(rid, "carry transfer function could not be evaluated")
                return
            want_b, want_c = (bt + c_in) & 0xff, (bt + c_in) >> 8
            if (out_b & 0xff, out_c) != (want_b, want_c) and bad is None:
                bad = (bt, c_in, out_b & 0xff, out_c, want_b, want_c)
    if bad:
        rep.violation(rid, "increment:carry", st.where(),
                      "for byte %d with carry-in %d the loop body produces (byte %d, carry %d), expected (%d, %d): the "
                      "carry is not propagated correctly" % bad)
    else:
        rep.instance(rid, 2, {"transfer_function_cases": 512, "carry_width": cw})


def rule_helpers(rep, m, rid="C14.D3"):
    """D3, decided by interpreting the helper's IR over bit expressions
    (av/affine.py): the counter / the nonce bytes are symbols, the length is a
    constant per case, and the 16 stored bytes are compared with the documented
    layout - independent of how the helper is written (inline copies, shared
    sub-helpers, loops).  A helper the interpreter cannot follow is unproved."""
    from .affine import Machine, Unsupported, const_bits
    from .sponge import cbytes, sym_bytes
    from . import affine
    rep.rule(rid, "set_counter / set_nonce byte layout")
    f = m.funcs.get("ascon_aead_set_counter")
    if f is None or f.decl:
        raise repo.AnalysisBroken("ascon_aead_set_counter not defined")
    try:
        mc = Machine(m)
        buf = mc.new_obj("npub", 16, symbolic=True)
        n = affine.sym_bits("n", 64) if hasattr(affine, "sym_bits") else None
        if n is None:
            cnt = mc.new_obj("n", 8, symbolic=True)
            n = tuple(mc.load(cnt, 8))           # 64 bits, little-endian bit order of the machine
        mc.call("ascon_aead_set_counter", [buf, n])
        got = tuple(mc.load(buf, 16))
        # expected: 8 zero bytes, then the counter most significant byte first
        want = list(cbytes(bytes(8)))
        for k in range(8):
            want += list(n[8 * (7 - k):8 * (7 - k) + 8])
        if got != tuple(want):
            diff = [k for k in range(16) if got[8 * k:8 * k + 8] != tuple(want[8 * k:8 * k + 8])]
            rep.violation(rid, "set_counter:layout", f.src,
                          "ascon_aead_set_counter does not store zeros in bytes 0..7 and the counter big-endian in bytes "
                          "8..15: nonce byte(s) %s differ for some counter value" % diff)
        else:
            rep.instance(rid, 1, {"function": "ascon_aead_set_counter", "layout": "0^8 || BE64(n)"})
    except Unsupported as e:
        rep.unproved_item(rid, "ascon_aead_set_counter: %s" % e)
    # C++ set_nonce
    lay = effects.Layouts(m)
    nset = 0
    for g in m.defined():
        dm = demangle_method(g.name)
        if dm is None or dm[1] != "set_nonce" or class_algorithm(dm[0]) is None:
            continue
        nset += 1
        rep.functions += 1
        _check_set_nonce(rep, rid, m, g, dm[0], lay)
    if nset < 12:
        rep.broken.append("%s: only %d set_nonce methods found" % (rid, nset))


def _check_set_nonce(rep, rid, m, g, cls, lay):
    from .affine import Machine, Unsupported, const_bits
    from .sponge import cbytes, sym_bytes
    inst = "%s::set_nonce" % cls
    sn = effects.Layouts.pointee_struct(g.param_ty[0])
    nonce_off = None
    if sn:
        for (off, size, key, ty) in lay.leaves(sn):
            if "nonce" in lay.member_name(sn, off) and size == 16:
                nonce_off = off
    size = (m.structs.get(sn) or {}).get("size") if sn else None
    if nonce_off is None or not size:
        raise repo.AnalysisBroken("%s: no 16-byte nonce member found in %s" % (rid, sn))
    try:
        for ln in (0, 1, 7, 15, 16, 17, 24, 40):
            mc = Machine(m)
            obj = mc.new_obj("this", size, symbolic=True)
            nb = mc.new_obj("N", max(ln, 1), symbolic=True)
            mc.call(g.name, [obj, nb, const_bits(ln, 64)])
            got = tuple(mc.load(affine_ptr(obj, nonce_off), 16))
            N = sym_bytes("N", ln)
            want = tuple(N[:128]) if ln >= 16 else tuple(cbytes(bytes(16 - ln))) + tuple(N)
            if got != want:
                diff = [k for k in range(16) if got[8 * k:8 * k + 8] != want[8 * k:8 * k + 8]]
                rep.violation(rid, inst + ":layout", g.src,
                              "%s with a nonce of %d byte(s) does not store %s: stored nonce byte(s) %s differ" % (
                                  inst, ln, "its first 16 bytes" if ln >= 16 else "%d zero byte(s) followed by the nonce" % (16 - ln), diff))
                return
        rep.instance(rid, 1, {"method": inst, "lengths": [0, 1, 7, 15, 16, 17, 24, 40]})
    except Unsupported as e:
        rep.unproved_item(rid, "%s: %s" % (inst, e))


def affine_ptr(p, off):
    from .affine import Ptr
    return Ptr(p.obj, p.off + off) if hasattr(p, "off") else Ptr(p.obj, off)


def rule_sessions(rep, tier):
    """D4 (mode level, bounded shapes, all key / data values): in a session
    that keeps one incremental state, packet i is processed under nonce + i -
    for a sender (C01.M multipacket) and for a receiver, also when a packet in
    the middle is forged and rejected: the stored nonce is advanced by start()
    and by nothing else."""
    from . import modecheck, modes
    rid = "C14.D4"
    rep.rule(rid, "receiver sessions: packet i is accepted under nonce + i, a rejected packet does not disturb the following ones")
    prep = modes.prepare(tier, cfgs=[repo.Config("c64")] if tier == "quick" else None)
    cases = []
    for js, cname, layout, maxs, units in prep:
        for alg in ("128", "128a", "80pq"):
            for (a, n) in ([(1, 3)] if tier == "quick" else [(0, 0), (1, 3), (8, 17), (5, 33)]):
                cases.append((js, cname, layout, "case_aead_decrypt_session", (alg, a, n),
                              "%s session first packet ad %d message %d" % (alg, a, n), "ascon%s_aead_decrypt_finalize" % alg))
    for d in modecheck.run_cases("C14", rid, tier, cases, None):
        rep.merge(d)
    rep.floor_discharged(rid, len(cases))
