"""C15 - PRNG determinism, forward security, reseed limit, status results.

  D1  re-key is the last thing that happens to the generator state in
      init / fetch / feed / reseed / save_seed / load_seed (must-analysis with
      summaries), and the re-key step itself is pad, then 4 x (zero the rate,
      permute with all 12 rounds)
  D2  the seed drawn from the system and the data fed by the caller are
      absorbed whole; the PRNG call tree reaches no other data source
  D3  fetch reseeds before producing output once 16384 bytes were produced
  D4  status results: init/reseed/ascon_random propagate the system source's
      status; save_seed/load_seed return 0 / -1 exactly as documented
  D5  the TRNG mixer zeroes the rate before permuting when it reseeds
Undecided: that every entropy byte influences all later output (a property
of the permutation) and one-wayness of the re-key.
"""
from . import facts, ir, ptr, repo

LEVEL = "other"
MANIFEST = {
    "text": "decides ordering (re-key post-dominates every use of the generator state on all non-null paths), D1r "
            "the re-key step maps the sponge state S to (P12 . zero-the-rate)^4 (S) for every state in each state "
            "layout (interpretation over bit expressions), whole-buffer absorption of system seed and fed data "
            "(followed through helper functions of the unit), absence of other data sources in the PRNG call "
            "tree, the 16384-byte reseed guard dominating the squeeze of fetch and of every other public function that "
            "hands out generator output, the produced-bytes counter reset only "
            "where fresh system entropy is drawn, and the documented status values; diffusion of entropy into all "
            "later output and one-wayness are cryptographic properties of the permutation and are not decided",
    "note": "trusted: clang lowering, irdump (incl. LLVM scalar evolution for the loop trip count), the "
            "documented contract in src/ascon/random.h transcribed into the status table",
    "technique": "must-typestate dataflow with call summaries (re-keyed / dirty), call-argument matching, "
                 "guard dominance, return value-set extraction against a documented contract table",
    "engines": ["irdump", "asconfacts", "av"],
}

OBLIGATIONS = ("ascon_random_init", "ascon_random_fetch", "ascon_random_feed", "ascon_random_reseed",
               "ascon_random_save_seed", "ascon_random_load_seed")
RESEED_LIMIT = 16384
ALLOWED_CALLEES = {
    "ascon_xof_init_custom", "ascon_xof_absorb", "ascon_xof_squeeze", "ascon_xof_pad", "ascon_xof_free",
    "ascon_xof_init_fixed", "ascon_xof_init", "ascon_trng_generate", "ascon_clean", "ascon_acquire",
    "ascon_release", "ascon_permute", "ascon_overwrite_with_zeroes", "ascon_random", "ascon_random_fetch",
    "ascon_random_feed", "ascon_random_reseed", "ascon_random_rekey", "ascon_random_init",
}


def run(rep, tier):
    rep.explanation = (
        "Analysed on the linked -O0+SROA IR of the library: must-analysis of a two-point generator-state "
        "lattice (clean-or-rekeyed / dirty) with callee summaries; loop trip count of the re-key loop from "
        "LLVM scalar evolution; argument matching (same buffer, same folded length) between "
        "ascon_trng_generate and ascon_xof_absorb; dominance of the reseed guard; extraction of the set of "
        "values each status function can return, compared with the contract documented in random.h.")
    rep.undecided = "diffusion (every entropy byte influences all later output) and one-wayness of the re-key"
    cfgs = [repo.Config("c64")] if tier == "quick" else [repo.Config(b) for b in ("c64", "asm", "c32", "direct")]
    builds = repo.configure_many(cfgs)
    shape_probes = []
    for b in builds:
        lr = repo.lower(b, group="lib", level="O0", langs=("c",), scev=True)
        m = ir.Module.load(lr.json)
        rep.configs.append(b.cfg.name)
        rep.units.update(lr.units)
        rule_rekey_last(rep, m, b.cfg.name)
        # the shape clause of the re-key step is tried on a scratch report: the behaviour is decided by D1r (semantic);
        # a shape finding that D1r does not confirm is "unproved"
        from . import report as _report
        probe = _report.Report("C15", tier)
        probe._known = []
        rule_rekey_shape(probe, m, b.cfg.name)
        shape_probes.append((b.cfg.name, probe))
        # data sources, reseed limit and status propagation are judged on each public function with its file-local
        # helpers inlined
        lri = repo.lower(b, group="lib", level="O0", langs=("c",), scev=True, inline_internal=True)
        mi = ir.Module.load(lri.json)
        rule_inputs(rep, mi, b.cfg.name)
        rule_reseed_limit(rep, mi, b.cfg.name)
        rule_status(rep, mi, b.cfg.name)
        rule_mixer(rep, mi, b.cfg.name)
    nv = len(rep.violations)
    rule_rekey_semantic(rep, tier)
    sem_bad = len(rep.violations) > nv
    rep.rule("C15.D1s", "re-key = pad, then (40-8)/8 iterations of zero-the-rate followed by a 12-round permutation")
    for cname, probe in shape_probes:
        if probe.violations and not sem_bad:
            rep.unproved_item("C15.D1s", "%s: loop shape of the re-key step not recognised (%s); D1r decides" % (
                cname, probe.violations[0]["message"][:120]))
            probe.violations = []
        rep.merge(probe.export())
    n = len(builds)
    rep.floor("C15.D1", 6 * n)
    rep.floor("C15.D1s", 2 * n)      # shape clause; the behaviour of the re-key step is decided by D1r
    rep.floor("C15.D1r", 4)
    rep.floor("C15.D2", 4 * n)
    rep.floor("C15.D3", 3 * n)
    rep.floor("C15.D4", 5 * n)


def _state_param(f):
    for k, t in enumerate(f.param_ty):
        if "ascon_random_state_t" in t:
            return k
    return None


# ---------------------------------------------------------------------------
def rule_rekey_last(rep, m, cname):
    rid = "C15.D1"
    rep.rule(rid, "on every non-null path the last operation on the generator state is the re-key")
    rk = m.funcs.get("ascon_random_rekey")
    if rk is None or rk.decl:
        raise repo.AnalysisBroken("ascon_random_rekey not found")
    summ = {"ascon_random_rekey": "rekeyed"}
    for f in m.bottom_up():
        if f.name in summ:
            continue
        k = _state_param(f)
        if k is None:
            continue
        summ[f.name] = _rekey_summary(m, f, k, summ)
    for name in OBLIGATIONS:
        f = m.funcs.get(name)
        if f is None or f.decl:
            raise repo.AnalysisBroken("%s is not defined" % name)
        rep.functions += 1
        s, where, what = summ[name]
        if s == "dirty":
            rep.violation(rid, name, where,
                          "%s returns with the generator state used but not re-keyed afterwards: %s" % (name, what),
                          config=cname)
        elif s == "clean":
            rep.violation(rid, name + ":never", f.src, "%s never re-keys the generator state" % name, config=cname)
        else:
            rep.instance(rid, 1, {"config": cname, "function": name, "summary": s})


def _rekey_summary(m, f, k, summ):
    R = ptr.resolver(f)
    sp = f.params[k]
    CLEAN, REKEYED, DIRTY = 0, 1, 2
    IN = {f.blocks[0].name: (CLEAN, None)}
    OUT = {}
    order = f.rpo()
    # null-state edges are exempt
    skip = set()
    for b in f.blocks:
        t = b.term
        if t.op == "br" and t.ops and len(t.succs) == 2:
            c = f.defs.get(t.ops[0]) if ir.is_local(t.ops[0]) else None
            if c is not None and c.op == "icmp" and c.d["pred"] in ("eq", "ne"):
                x, y = c.ops
                if (x == sp and y == "null") or (y == sp and x == "null"):
                    skip.add((b.name, t.succs[0] if c.d["pred"] == "eq" else t.succs[1]))
    changed = True
    n = 0
    while changed:
        changed = False
        n += 1
        if n > 100:
            raise RuntimeError("rekey fixpoint did not converge in " + f.name)
        for b in order:
            if b is not f.blocks[0]:
                vals = [OUT[p.name] for p in b.preds if p.name in OUT and (p.name, b.name) not in skip]
                if not vals:
                    continue
                IN[b.name] = max(vals, key=lambda v: v[0])
            st = IN[b.name]
            for i in b.insts:
                if i.op == "store":
                    pv = R.resolve(i.ops[1])
                    if any(r == ("param", sp) for r in pv.roots) and (pv.offset is None or pv.offset < 48):
                        st = (DIRTY, (i.where(), "direct store into the sponge state"))
                    continue
                if i.op not in ("call", "invoke") or i.d.get("intrinsic"):
                    continue
                cal = i.callee or ""
                touches = False
                whole = False
                argty = i.d.get("argty", [])
                for an, a in enumerate(i.ops):
                    if an >= len(argty) or not argty[an].endswith("*"):
                        continue
                    pv = R.resolve(a)
                    if any(r == ("param", sp) for r in pv.roots):
                        if "ascon_random_state_t" in argty[an]:
                            whole = True
                        elif pv.offset is None or pv.offset < 48:
                            touches = True
                if whole and cal in summ:
                    s = summ[cal]
                    s0 = s if isinstance(s, str) else s[0]
                    if s0 == "rekeyed":
                        st = (REKEYED, None)
                    elif s0 == "dirty":
                        st = (DIRTY, (i.where(), "call to %s, which leaves the state un-rekeyed" % cal))
                elif whole or touches:
                    st = (DIRTY, (i.where(), "call to %s" % (cal or "an indirect callee")))
            if OUT.get(b.name) != st:
                OUT[b.name] = st
                changed = True
    worst = (CLEAN, None)
    for b in f.blocks:
        if b.term.op == "ret" and b.name in OUT:
            if OUT[b.name][0] > worst[0]:
                worst = OUT[b.name]
    if worst[0] == DIRTY:
        return ("dirty", worst[1][0], worst[1][1])
    return ("rekeyed" if worst[0] == REKEYED else "clean", f.src, "")


def rule_rekey_shape(rep, m, cname):
    rid = "C15.D1s"
    rep.rule(rid, "re-key = pad, then (40-8)/8 iterations of zero-the-rate followed by a 12-round permutation")
    f = m.funcs["ascon_random_rekey"]
    calls = [c for c in f.calls() if c.callee]
    # Before the rate is zeroed for the first time, a partially absorbed block
    # must have been permuted into the state (ascon_xof_pad, a permutation, or
    # the knowledge that no byte is pending: count == 0); otherwise the last
    # bytes fed to the generator are wiped without influencing anything.
    from . import effects
    lay = effects.Layouts(m)
    R = ptr.resolver(f)
    sp = f.params[0]
    sn = effects.Layouts.pointee_struct(f.param_ty[0])

    def is_count_load(v):
        d = f.defs.get(v) if ir.is_local(v) else None
        while d is not None and d.op in ("zext", "sext", "trunc"):
            d = f.defs.get(d.ops[0]) if ir.is_local(d.ops[0]) else None
        if d is None or d.op != "load":
            return False
        pv = R.resolve(d.ops[0])
        return pv.single() == ("param", sp) and pv.offset is not None and sn is not None and \
            lay.member_name(sn, pv.offset).endswith("count")
    PEND = {f.blocks[0].name: True}
    OUT = {}
    first_zero = None
    changed = True
    while changed:
        changed = False
        for b in f.rpo():
            if b is not f.blocks[0]:
                vals = []
                for pb in b.preds:
                    if pb.name not in OUT:
                        continue
                    v = OUT[pb.name]
                    t = pb.term
                    if v and t.op == "br" and t.ops and len(t.succs) == 2:
                        c = f.defs.get(t.ops[0]) if ir.is_local(t.ops[0]) else None
                        if c is not None and c.op == "icmp" and c.d["pred"] in ("eq", "ne") and \
                                ir.const_int(c.ops[1]) == 0 and is_count_load(c.ops[0]):
                            zero_succ = t.succs[0] if c.d["pred"] == "eq" else t.succs[1]
                            if b.name == zero_succ and t.succs[0] != t.succs[1]:
                                v = False
                    vals.append(v)
                if not vals:
                    continue
                PEND[b.name] = any(vals)
            st = PEND[b.name]
            for i in b.insts:
                if i.op == "call" and i.callee in ("ascon_xof_pad", "ascon_permute"):
                    st = False
                if i.op == "call" and i.callee == "ascon_overwrite_with_zeroes" and st and first_zero is None:
                    first_zero = i
            if OUT.get(b.name) != st:
                OUT[b.name] = st
                changed = True
    if first_zero is not None:
        rep.violation(rid, "rekey:pending-block", first_zero.where(),
                      "the re-key step can zero the rate while bytes absorbed into a partial block are still pending "
                      "(no ascon_xof_pad / permutation / count == 0 check on some path before it): those bytes never "
                      "influence later output", config=cname)
    else:
        rep.instance(rid, 1, {"config": cname, "pending_block": "flushed before the rate is zeroed"})
    loops = f.d.get("loops", [])
    if len(loops) != 1:
        rep.violation(rid, "rekey:loop", f.src, "the re-key step has %d loops, expected one" % len(loops), config=cname)
        return
    lp = loops[0]
    blocks = set(lp["blocks"])
    inloop = [c for c in calls if c.block.name in blocks and c.callee in ("ascon_overwrite_with_zeroes", "ascon_permute")]
    z = [c for c in inloop if c.callee == "ascon_overwrite_with_zeroes"]
    p = [c for c in inloop if c.callee == "ascon_permute"]
    if len(z) != 1 or len(p) != 1:
        rep.unproved_item(rid, "%s: the re-key loop body has %d zeroing and %d permutation calls (shape not recognised; the "
                          "behaviour is decided by C15.D1r)" % (cname, len(z), len(p)))
        return
        rep.violation(rid, "rekey:body", f.src, "loop body has %d zeroing and %d permutation calls" % (len(z), len(p)),
                      config=cname)
        return
    z, p = z[0], p[0]
    if not f.dominates(z, p):
        rep.violation(rid, "rekey:order", p.where(), "the permutation does not follow the zeroing of the rate", config=cname)
    elif (ir.const_int(z.ops[1]), ir.const_int(z.ops[2])) != (0, 8):
        rep.violation(rid, "rekey:zero-range", z.where(), "the rate is zeroed as (offset %s, size %s), expected (0, 8)" % (
            ir.const_int(z.ops[1]), ir.const_int(z.ops[2])), config=cname)
    elif ir.const_int(p.ops[1]) != 0:
        rep.violation(rid, "rekey:rounds", p.where(), "re-key permutes from round %s, expected all 12 rounds" % (
            ir.const_int(p.ops[1])), config=cname)
    else:
        rep.instance(rid, 2, {"config": cname, "zero": [0, 8], "first_round": 0})
    btc = lp.get("btc_const")
    if btc is not None and lp.get("exiting") == [lp["header"]] and z.block.name != lp["header"]:
        btc -= 1        # exit test in the header: the body runs once per back edge
    if btc is None:
        rep.unproved_item(rid, "scalar evolution gives no constant trip count for the re-key loop (%s)" % lp.get("btc"))
    elif btc + 1 != 4:
        rep.violation(rid, "rekey:trip-count", f.src, "the re-key loop runs %d time(s), expected ceil((40-8)/8) = 4" % (btc + 1),
                      config=cname)
    else:
        rep.instance(rid, 1, {"config": cname, "trip_count": btc + 1})


# ---------------------------------------------------------------------------
def _unit_helpers(m):
    """functions with internal linkage defined in the PRNG source file: calls to
    them are followed (their bodies are part of the caller for these rules)"""
    prng_file = m.funcs["ascon_random_fetch"].srcfile
    return {g.name for g in m.defined() if g.srcfile == prng_file and g.internal}


def reach_calls(m, f, target, helpers, depth=0):
    """calls to `target` made by f directly or through helper functions of the
    unit: [(call site in f, operands expressed as values of f or None)]"""
    out = []
    if depth > 6:
        raise repo.AnalysisBroken("helper call depth exceeded in " + f.name)
    for c in f.calls():
        if c.callee == target:
            out.append((c, list(c.ops)))
        elif c.callee in helpers:
            g = m.funcs[c.callee]
            for (_site, ops) in reach_calls(m, g, target, helpers, depth + 1):
                mapped = []
                for o in ops:
                    if o in g.params:
                        mapped.append(c.ops[g.params.index(o)])
                    elif o is not None and ir.const_int(o) is not None:
                        mapped.append(o)
                    else:
                        mapped.append(None)
                out.append((c, mapped))
    return out


def rule_inputs(rep, m, cname):
    rid = "C15.D2"
    rep.rule(rid, "system seed and fed data are absorbed whole; no other data source in the PRNG call tree")
    helpers = _unit_helpers(m)
    for name in ("ascon_random_init", "ascon_random_reseed", "ascon_random"):
        f = m.funcs.get(name)
        if f is None or f.decl:
            raise repo.AnalysisBroken("%s not defined" % name)
        R = ptr.resolver(f)
        gen = reach_calls(m, f, "ascon_trng_generate", helpers)
        ab = reach_calls(m, f, "ascon_xof_absorb", helpers)
        if len(gen) != 1 or len(ab) != 1:
            if not gen or not ab:
                rep.violation(rid, name + ":shape", f.src, "%s has %d entropy draws and %d absorbs" % (name, len(gen), len(ab)),
                              config=cname)
            else:
                rep.unproved_item(rid, "%s (%s): %d entropy draws and %d absorbs; matching not decided" % (name, cname, len(gen), len(ab)))
            continue
        (g, gops), (a, aops) = gen[0], ab[0]
        if gops[0] is None or aops[1] is None or gops[1] is None or aops[2] is None:
            rep.unproved_item(rid, "%s (%s): seed buffer or length is computed inside a helper" % (name, cname))
            continue
        rg, ra = R.resolve(gops[0]), R.resolve(aops[1])
        ng, na = ir.const_int(gops[1]), ir.const_int(aops[2])
        if rg.single() != ra.single() or rg.offset != ra.offset or rg.single() is None:
            rep.violation(rid, name + ":buffer", a.where(), "%s absorbs a different buffer than the one filled by "
                          "ascon_trng_generate" % name, config=cname)
        elif ng is None or ng != na:
            rep.violation(rid, name + ":length", a.where(), "%s draws %s byte(s) from the system but absorbs %s" % (name, ng, na),
                          config=cname)
        elif not f.dominates(g, a):
            rep.violation(rid, name + ":order", a.where(), "%s absorbs the seed buffer before it is filled" % name, config=cname)
        else:
            rep.instance(rid, 1, {"config": cname, "function": name, "seed_bytes": ng})
    f = m.funcs.get("ascon_random_feed")
    ab = reach_calls(m, f, "ascon_xof_absorb", helpers)
    ie, isz = f.param_index("entropy"), f.param_index("size")
    if ie is None or isz is None:
        ie, isz = 1, 2        # ascon_random_feed(state, entropy, size): positional when the names are not in the debug info
    pe, ps = f.params[ie], f.params[isz]
    if any(ops[1] == pe and ops[2] == ps for _c, ops in ab):
        rep.instance(rid, 1, {"config": cname, "function": "ascon_random_feed"})
    elif any(ops[1] is None or ops[2] is None for _c, ops in ab):
        rep.unproved_item(rid, "ascon_random_feed (%s): absorbed buffer or length is computed inside a helper" % cname)
    else:
        rep.violation(rid, "ascon_random_feed:absorb", f.src, "ascon_random_feed does not absorb (entropy, size) unchanged",
                      config=cname)
    # callee census of the PRNG unit
    prng_file = m.funcs["ascon_random_fetch"].srcfile
    for g in m.defined():
        if g.srcfile != prng_file and g.name != "ascon_random":
            continue
        for c in g.calls():
            if c.callee is None:
                continue     # storage callbacks
            if c.callee not in ALLOWED_CALLEES and c.callee not in helpers:
                rep.violation(rid, "%s:callee:%s" % (g.name, c.callee), c.where(),
                              "%s calls %s, which is not one of the sponge / system-entropy primitives the "
                              "generator's output may depend on" % (g.name, c.callee), config=cname)
            else:
                rep.instance(rid, 1)


# ---------------------------------------------------------------------------
def rule_reseed_limit(rep, m, cname):
    rid = "C15.D3"
    rep.rule(rid, "fetch draws fresh entropy before squeezing once 16384 bytes were produced; counter bookkeeping")
    f = m.funcs["ascon_random_fetch"]
    R = ptr.resolver(f)
    sp = f.params[_state_param(f)]
    sq = [c for c in f.calls("ascon_xof_squeeze")]
    rs = [c for c in f.calls("ascon_random_reseed")]
    if len(sq) != 1:
        raise repo.AnalysisBroken("ascon_random_fetch has %d squeeze calls" % len(sq))
    guard = None
    for i in f.insts():
        if i.op != "icmp":
            continue
        x, y = i.ops
        c = ir.const_int(y)
        ld = f.defs.get(x) if ir.is_local(x) else None
        if c is None or ld is None or ld.op != "load":
            continue
        pv = R.resolve(ld.ops[0])
        if pv.single() == ("param", sp) and pv.offset == _counter_offset(m):
            guard = (i, c)
    if guard is None or not rs:
        rep.violation(rid, "fetch:no-guard", f.src, "ascon_random_fetch has no reseed guard on the byte counter", config=cname)
        return
    gi, c = guard
    p = gi.d["pred"]
    thr = c if p in ("uge", "ult") else c + 1 if p in ("ugt", "ule") else None
    if thr != RESEED_LIMIT:
        rep.violation(rid, "fetch:limit", gi.where(), "reseed guard triggers at counter %s %s, expected >= %d" % (p, c, RESEED_LIMIT),
                      config=cname)
    else:
        rep.instance(rid, 1, {"config": cname, "limit": thr})
    br = [u for u in f.uses().get(gi.id, []) if u.op == "br"]
    ok = False
    if br:
        t = br[0]
        true_succ = t.succs[0] if p in ("uge", "ugt") else t.succs[1]
        ok = any(c2.block.name == true_succ or true_succ in f.dominators()[c2.block.name] for c2 in rs)
        ok = ok and gi.block.name in f.dominators()[sq[0].block.name]
    if not ok:
        rep.violation(rid, "fetch:guard-placement", gi.where(), "the reseed guard does not dominate the squeeze or does not "
                      "lead to ascon_random_reseed", config=cname)
    else:
        rep.instance(rid, 1)
    # the produced-bytes counter is reset only where fresh system entropy is drawn: in every function with
    # external linkage, a reset (a store of 0 to the counter, made directly or inside a helper of the unit) is
    # dominated or post-dominated by an entropy draw of that function; ascon_random_free destroys the object
    helpers = _unit_helpers(m)
    coff = _counter_offset(m)

    def resets(g, depth=0):
        k = _state_param(g)
        out = []
        if k is None:
            return out
        Rg = ptr.resolver(g)
        for i in g.insts():
            if i.op == "store":
                pv = Rg.resolve(i.ops[1])
                if pv.single() == ("param", g.params[k]) and pv.offset == coff and ir.const_int(i.ops[0]) == 0:
                    out.append(i)
            elif i.op == "call" and i.callee in helpers and depth < 6:
                h = m.funcs[i.callee]
                hk = _state_param(h)
                if hk is not None and resets(h, depth + 1):
                    pv = Rg.resolve(i.ops[hk])
                    if pv.single() == ("param", g.params[k]) and pv.offset == 0:
                        out.append(i)
        return out

    for g in m.defined():
        if g.internal or _state_param(g) is None or g.name == "ascon_random_free":
            continue
        rs_sites = resets(g)
        if not rs_sites:
            continue
        draws = [c for c, _ops in reach_calls(m, g, "ascon_trng_generate", helpers)]
        pdom = g.postdominators()
        for i in rs_sites:
            def always(d):
                if g.dominates(d, i) or d.block.name in pdom.get(i.block.name, ()) or d.block.name == i.block.name:
                    return True
                # a draw in the body of a loop that certainly runs (constant trip count >= 1) whose header is always reached
                for lp in g.d.get("loops", []):
                    if d.block.name in lp["blocks"] and (lp.get("btc_const") or 0) >= 1:
                        h = lp["header"]
                        if h in pdom.get(i.block.name, ()) or h in g.dominators().get(i.block.name, ()):
                            return True
                return False
            ok = any(always(d) for d in draws)
            if ok:
                rep.instance(rid, 1, {"config": cname, "function": g.name, "reset": i.where()})
            else:
                rep.violation(rid, "%s:counter-reset" % g.name, i.where(),
                              "%s resets the produced-bytes counter on a path that draws no fresh system entropy, so the "
                              "16384-byte reseed limit no longer bounds the output of one seed" % g.name, config=cname)
    # the counter is advanced after the squeeze
    adv = False
    for i in f.insts():
        if i.op == "store":
            pv = R.resolve(i.ops[1])
            if pv.single() == ("param", sp) and pv.offset == _counter_offset(m) and f.dominates(sq[0], i):
                adv = True
    if not adv:
        rep.violation(rid, "fetch:counter-advance", f.src, "ascon_random_fetch does not advance the produced-bytes counter after "
                      "squeezing", config=cname)
    else:
        rep.instance(rid, 1)
    # every other public function that hands out generator output (directly or through helpers of the unit; calls to
    # ascon_random_fetch carry their own guard) does so after the same limit test or right after an entropy draw
    for g in m.defined():
        if g.internal or g.name == "ascon_random_fetch" or _state_param(g) is None:
            continue
        sqs = reach_calls(m, g, "ascon_xof_squeeze", helpers)
        if not sqs:
            continue
        Rg = ptr.resolver(g)
        gp = g.params[_state_param(g)]
        draws = [c for c, _o in reach_calls(m, g, "ascon_trng_generate", helpers)] + \
            [c for c, _o in reach_calls(m, g, "ascon_random_reseed", helpers)] + list(g.calls("ascon_random_reseed"))
        guards = []
        for i in g.insts():
            if i.op != "icmp":
                continue
            ld = g.defs.get(i.ops[0]) if ir.is_local(i.ops[0]) else None
            c = ir.const_int(i.ops[1])
            if c is None or ld is None or ld.op != "load":
                continue
            pv = Rg.resolve(ld.ops[0])
            pr = i.d["pred"]
            thr = c if pr in ("uge", "ult") else c + 1 if pr in ("ugt", "ule") else None
            if pv.single() == ("param", gp) and pv.offset == coff and thr == RESEED_LIMIT:
                guards.append(i)
        for site, _ops in sqs:
            ok = any(g.dominates(d, site) for d in draws) or any(g.dominates(gi, site) for gi in guards)
            if ok:
                rep.instance(rid, 1, {"config": cname, "function": g.name, "output_site": site.where()})
            else:
                rep.violation(rid, "%s:unguarded-output" % g.name, site.where(),
                              "%s squeezes generator output without first testing the produced-bytes counter against %d (and "
                              "reseeding) and without a fresh entropy draw on the way: more than %d bytes can be produced from "
                              "one seed" % (g.name, RESEED_LIMIT, RESEED_LIMIT), config=cname)


# ---------------------------------------------------------------------------
def _counter_offset(m):
    t = m.ditype_by_typedef("ascon_random_state_t")
    if t:
        for mem in t["members"]:
            if mem[0] == "counter":
                return mem[1]
    raise repo.AnalysisBroken("member `counter` of ascon_random_state_t not found in the debug info")


def return_values(f):
    """-> list of (description, value set or mapping, where)"""
    out = []
    for b in f.blocks:
        t = b.term
        if t.op != "ret" or not t.ops:
            continue
        v = t.ops[0]
        d = f.defs.get(v) if ir.is_local(v) else None
        contribs = [(v, b.name)]
        if d is not None and d.op == "phi":
            contribs = list(d.d["inc"])
        for val, frm in contribs:
            out.append(_describe(f, val) + (t.where(), frm))
    return out


def _describe(f, v, depth=0):
    c = ir.const_int(v)
    if c is not None:
        return ("const", c)
    d = f.defs.get(v) if ir.is_local(v) else None
    if d is None or depth > 6:
        return ("other", None)
    if d.op in ("zext",) and d.d.get("fromty") == "i1":
        inner = f.defs.get(d.ops[0])
        return ("bool", inner)
    if d.op == "select":
        a, b = ir.const_int(d.ops[1]), ir.const_int(d.ops[2])
        return ("select", (f.defs.get(d.ops[0]), a, b))
    if d.op in ("call", "invoke"):
        return ("call", d.callee)
    if d.op == "phi":
        return ("phi", [_describe(f, x, depth + 1) for x, _ in d.d["inc"]])
    return ("other", d)


def rule_status(rep, m, cname):
    rid = "C15.D4"
    rep.rule(rid, "status results are reported exactly as documented")
    # (a) health of the system source is propagated
    for name in ("ascon_random_init", "ascon_random_reseed", "ascon_random"):
        f = m.funcs[name]
        gen = [c for c in f.calls("ascon_trng_generate")]
        ok = False
        why = ""
        for kind, val, where, frm in return_values(f):
            if kind == "const":
                if val != 0:
                    why = "returns the constant %d on some path" % val
                    ok = False
                    break
                continue
            if _derives_from(f, kind, val, gen[0].id if gen else None):
                ok = True
            else:
                why = "a return value does not derive from ascon_trng_generate's result"
                ok = False
                break
        # a draw made in a loop reports through a loop-carried status: the value carried round the loop must combine the
        # new result with what was carried so far (ok &= ..., if (!r) ok = 0), else only the last draw is reported
        if ok:
            for c in gen:
                for lp in f.d.get("loops", []):
                    if c.block.name not in lp["blocks"]:
                        continue
                    blocks = set(lp["blocks"])
                    hdr = f.bmap[lp["header"]]
                    acc = False
                    carried = False
                    for p in hdr.insts:
                        if p.op != "phi":
                            continue
                        latch = [v for v, pr in p.d["inc"] if pr in blocks]
                        if not latch or not _traces_to(f, latch[0], c.id):
                            continue
                        carried = True
                        if _traces_to(f, latch[0], p.id):
                            acc = True
                    if carried and not acc:
                        ok = False
                        why = ("the status of the draws made in a loop is overwritten on each iteration (the value carried round "
                               "the loop does not include the earlier results): only the last draw is reported")
            missing = [c for c in gen if not any(k != "const" and _derives_from(f, k, v, c.id) for k, v, _w, _f in return_values(f))]
            if ok and missing:
                ok = False
                why = "the result of the draw at %s never reaches the returned status" % missing[0].where()
        if ok:
            rep.instance(rid, 1, {"config": cname, "function": name, "status": "result of ascon_trng_generate"})
        else:
            rep.violation(rid, name + ":status", f.src, "%s does not report the system source's status: %s" % (name, why or
                          "no return derives from ascon_trng_generate"), config=cname)
    # (b) storage functions: 0 if saved/loaded, -1 if storage failed
    for name in ("ascon_random_save_seed", "ascon_random_load_seed"):
        f = m.funcs[name]
        bad = None
        seen_ok = False
        for kind, val, where, frm in return_values(f):
            if kind == "const":
                if val == -1:
                    continue
                if val == 0:
                    if _guarded_by_count(f, frm):
                        seen_ok = True
                    else:
                        bad = (where, "returns 0 on a path that is not guarded by the transferred byte count == 32")
                else:
                    bad = (where, "returns the constant %d" % val)
            elif kind == "bool":
                bad = (where, "returns the truth value of a comparison (1 when the storage transferred all %s bytes, "
                       "0 otherwise), but the documented contract is 0 on success and -1 on failure" % "32")
            elif kind == "select":
                cmpi, a, b = val
                if cmpi is None or cmpi.op != "icmp" or ir.const_int(cmpi.ops[1]) != 32:
                    bad = (where, "status is selected on something other than the transferred byte count == 32")
                else:
                    succ_val = a if cmpi.d["pred"] == "eq" else b
                    fail_val = b if cmpi.d["pred"] == "eq" else a
                    if (succ_val, fail_val) != (0, -1):
                        bad = (where, "returns %s on success and %s on failure, documented 0 / -1" % (succ_val, fail_val))
                    else:
                        seen_ok = True
            else:
                bad = (where, "returns a value of unrecognised shape")
        if bad:
            rep.violation(rid, name + ":status", bad[0], "%s %s" % (name, bad[1]), config=cname)
        elif not seen_ok:
            rep.violation(rid, name + ":status", f.src, "%s never reports success" % name, config=cname)
        else:
            rep.instance(rid, 1, {"config": cname, "function": name, "status": "0 / -1 by transferred byte count"})
    # (c) load_seed feeds the seed only when all bytes were read
    f = m.funcs["ascon_random_load_seed"]
    fd = [c for c in f.calls("ascon_random_feed")]
    okc = False
    if len(fd) == 1:
        for bn in f.dominators()[fd[0].block.name]:
            t = f.bmap[bn].term
            if t.op == "br" and t.ops:
                c = f.defs.get(t.ops[0]) if ir.is_local(t.ops[0]) else None
                if c is not None and c.op == "icmp" and ir.const_int(c.ops[1]) == 32 and c.d["pred"] in ("eq", "ne"):
                    want = t.succs[0] if c.d["pred"] == "eq" else t.succs[1]
                    if want == fd[0].block.name or want in f.dominators()[fd[0].block.name]:
                        okc = True
    if okc:
        rep.instance(rid, 1)
    else:
        rep.violation(rid, "ascon_random_load_seed:feed-guard", f.src, "ascon_random_load_seed feeds the seed buffer without "
                      "checking that all 32 bytes were read", config=cname)


def _guarded_by_count(f, blockname):
    """is the block only reachable through the `count == 32` edge of a branch?"""
    doms = f.dominators()[blockname] | {blockname}
    for dn in doms:
        t = f.bmap[dn].term
        if t.op != "br" or not t.ops or len(t.succs) != 2:
            continue
        c = f.defs.get(t.ops[0]) if ir.is_local(t.ops[0]) else None
        if c is None or c.op != "icmp" or ir.const_int(c.ops[1]) != 32 or c.d["pred"] not in ("eq", "ne"):
            continue
        src = f.defs.get(c.ops[0]) if ir.is_local(c.ops[0]) else None
        if src is None or src.op != "call" or src.callee is not None:
            continue        # must be the result of the storage callback
        want = t.succs[0] if c.d["pred"] == "eq" else t.succs[1]
        if want != (t.succs[1] if c.d["pred"] == "eq" else t.succs[0]) and (want in doms) and \
                len(f.bmap[want].preds) == 1:
            return True
    return False


def _derives_from(f, kind, val, src, depth=0):
    if src is None:
        return False
    if kind == "call":
        return val == "ascon_trng_generate"
    if kind == "phi":
        return any(_derives_from(f, k, v, src, depth + 1) or (k == "const" and v == 0) for k, v in val) and \
            any(_derives_from(f, k, v, src, depth + 1) for k, v in val)
    if kind in ("bool",):
        i = val
        return i is not None and i.op == "icmp" and any(_traces_to(f, o, src) for o in i.ops)
    if kind == "select":
        cmpi, a, b = val
        return cmpi is not None and cmpi.op == "icmp" and any(_traces_to(f, o, src) for o in cmpi.ops)
    if kind == "other" and val is not None:
        return _traces_to(f, val.id, src)
    return False


def _traces_to(f, v, src, depth=0):
    if v == src:
        return True
    if not ir.is_local(v) or depth > 8:
        return False
    d = f.defs.get(v)
    if d is None:
        return False
    if d.op in ("zext", "sext", "trunc", "icmp", "xor", "and", "or", "select"):
        return any(_traces_to(f, o, src, depth + 1) for o in d.ops)
    if d.op == "phi":
        return any(_traces_to(f, o, src, depth + 1) for o, _ in d.d["inc"])
    return False


def rule_mixer(rep, m, cname):
    rid = "C15.D5"
    rep.rule(rid, "the TRNG mixer absorbs fresh entropy, zeroes the rate, then permutes (forward security)")
    f = m.funcs.get("ascon_trng_reseed")
    if f is None or f.decl:
        rep.notes.append("ascon_trng_reseed not part of this configuration")
        return
    z = [c for c in f.calls("ascon_overwrite_with_zeroes")]
    p = [c for c in f.calls("ascon_permute")]
    a = [c for c in f.calls("ascon_add_bytes")]
    if len(z) == 1 and len(p) == 1 and len(a) == 1 and f.dominates(a[0], z[0]) and f.dominates(z[0], p[0]) and \
            (ir.const_int(z[0].ops[1]), ir.const_int(z[0].ops[2])) == (0, 8) and ir.const_int(p[0].ops[1]) == 0:
        rep.instance(rid, 1, {"config": cname})
    else:
        rep.violation(rid, "ascon_trng_reseed:order", f.src, "the mixer's reseed is not add-entropy, zero rate (0,8), "
                      "permute with 12 rounds in that order", config=cname)


def rule_rekey_semantic(rep, tier):
    """D1r: what the re-key step does to the sponge state, per back end layout:
    interpret ascon_random_rekey over bit expressions with the permutation as a
    function symbol.  From an aligned state S the result must be
    (P12 . Z)^4 (S) where Z zeroes the 64 rate bits of the canonical state; with
    pending absorbed bytes the pending block is permuted in first.  This is
    independent of how the zeroing is written (call, macro, direct stores)."""
    from . import modes, sponge
    from .affine import Unsupported, Ptr, const_bits, ZERO
    rid = "C15.D1r"
    rep.rule(rid, "re-key maps the sponge state S to (P12 . zero-the-rate)^4 (S), for every state, in each state layout")
    cfgs = [repo.Config("c64"), repo.Config("c32")] if tier == "quick" else \
        [repo.Config("c64"), repo.Config("c32"), repo.Config("direct"), repo.Config("generic")]
    for js, cname, layout, maxs, units in modes.prepare(tier, cfgs=cfgs):
        m = modes.load_module(js)
        if cname not in rep.configs:
            rep.configs.append(cname)
        f = m.funcs.get("ascon_random_rekey")
        tx = m.ditype_by_typedef("ascon_xof_state_t")
        tr = m.ditype_by_typedef("ascon_random_state_t")
        if f is None or f.decl or not tx or not tr:
            raise repo.AnalysisBroken("%s: ascon_random_rekey / state types not found in %s" % (rid, cname))
        ox = {mem[0]: mem[1] for mem in tx["members"]}
        oxof = {mem[0]: mem[1] for mem in tr["members"]}.get("xof")
        if oxof is None or not {"state", "count", "mode"} <= set(ox):
            raise repo.AnalysisBroken("%s: unexpected members in %s" % (rid, cname))
        for pending in (0, 5):
            try:
                R = modes.Run(m, layout, maxs)
                st = R.obj(tr["size"])
                S = sponge.sym_bytes("S", 40)
                base = oxof + ox["state"]
                R.mc.store(Ptr(st.obj, base), tuple(sponge.mem_from_canon(tuple(S), layout)))
                R.mc.store(Ptr(st.obj, oxof + ox["count"]), const_bits(pending, 8))
                R.mc.store(Ptr(st.obj, oxof + ox["mode"]), const_bits(0, 8))
                R.call("ascon_random_rekey", st)
                got = sponge.canon_from_mem(R.mc.load(Ptr(st.obj, base), 40), layout)
                want = list(S)
                if pending:
                    want = list(R.spec.P(want, 12))
                for _ in range(4):
                    want = [ZERO] * 64 + list(want[64:])
                    want = list(R.spec.P(want, 12))
            except Unsupported as e:
                rep.unproved_item(rid, "%s (pending %d): %s" % (cname, pending, e))
                continue
            d = modes.first_diff(tuple(got), tuple(want))
            if d:
                rep.violation(rid, "ascon_random_rekey:%s" % ("aligned" if not pending else "pending"), f.src,
                              "ascon_random_rekey does not map the sponge state to (P12 . zero-the-rate)^4%s: the resulting state "
                              "differs at %s - part of the previous rate (and with it of the last output block) survives or the "
                              "permutation count is wrong" % (" after permuting the pending block in" if pending else "", d),
                              config=cname)
            else:
                rep.instance(rid, 1, {"config": cname, "pending_bytes": pending})
