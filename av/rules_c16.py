"""C16 - re-entrancy: no hidden mutable state, race-free on distinct objects.

An effect argument over the linked IR of every analysed configuration:
  D1  every global variable definition is constant or thread-local (the
      checker flag of the CHECK_ACQUIRE_RELEASE build is the one documented
      exception and exists only there);
  D2  every memory access of every library function goes through its own
      stack, the pointees of its parameters, constant globals, thread-local
      storage or memory obtained from an allocator; no pointer is forged from
      an integer, no parameter pointer escapes into a global, no function
      returns a pointer to static storage;
  D3  pointer parameters declared const in the public headers are never
      written through (direct stores, block operations, or callees that write);
  D4  external callees are within a list of re-entrant libc/system functions;
  D5  constant-extent accesses through a caller's byte buffer fit the
      guard-bounded remaining length (the `pointee` of D2 is [buf, buf+len)).
Given D1-D5, two calls on distinct objects touch disjoint mutable memory.
"""
import os

from . import effects, facts, ir, ptr, repo

LEVEL = "proof"
MANIFEST = {
    "text": "proof-level for the stated clause: a finite list of obligations (one per global variable, "
            "per library function footprint, per const pointer parameter of the public API, per external "
            "callee, per constant-extent access through a caller's byte buffer whose remaining length the guards "
            "bound), all discharged by an effect/provenance analysis over the linked LLVM IR of every back "
            "end, the CHECK build, the no-system-TRNG selection and the C++ units; data-race freedom of "
            "operations on distinct objects follows from disjoint mutable footprints",
    "note": "trusted base: clang/LLVM-14 lowering and irdump, the python provenance analysis, the table of "
            "re-entrant libc functions, and (x86-64 assembly units) the footprint rule C18.D3 for what the "
            "hand-generated code writes; concurrent use of the *same* non-const object is outside the claim",
    "technique": "whole-program effect analysis: global-variable census, pointer-provenance footprint, "
                 "const-parameter writer search with may-write summaries, external-call allowlist",
    "engines": ["irdump", "asconfacts", "av"],
}

NO_TRNG = ("-U__linux__", "-U__linux", "-Ulinux", "-U__unix__", "-U__unix", "-Uunix",
           "-U__gnu_linux__")

# global variables that may be mutable, with the reason
ALLOWED_MUTABLE = {
    "acquired": "acquire/release checker flag; exists only in the CHECK_ACQUIRE_RELEASE diagnostic build, "
                "which is documented as a single-threaded debugging aid",
}

REENTRANT_EXTERNALS = {
    # memory / string
    "memcpy", "memmove", "memset", "memcmp", "strlen", "explicit_bzero", "memset_s", "bcmp",
    # system entropy and time
    "getrandom", "getentropy", "open", "read", "close", "clock_gettime", "gettimeofday", "time",
    "syscall", "__errno_location",
    # diagnostics of the CHECK build
    "abort", "fprintf", "fwrite", "fputs",
    # C++ runtime
    "_Znwm", "_Znam", "_ZdlPv", "_ZdaPv", "_ZdlPvm", "_ZdaPvm", "__cxa_begin_catch", "__cxa_end_catch",
    "_ZSt9terminatev", "__clang_call_terminate", "__gxx_personality_v0", "__cxa_pure_virtual",
    "_ZSt17__throw_bad_allocv", "_ZSt20__throw_length_errorPKc", "__cxa_throw", "__cxa_allocate_exception",
    "_ZSt28__throw_bad_array_new_lengthv", "__cxa_rethrow", "_ZSt24__throw_out_of_range_fmtPKcz",
    "_Unwind_Resume", "malloc", "free", "realloc", "calloc", "__stack_chk_fail",
}
ALLOCATORS = {"_Znwm", "_Znam", "malloc", "calloc", "realloc"}


def configs(tier):
    out = [(repo.Config("asm"), ()), (repo.Config("c64"), ()), (repo.Config("asm", check=True), ()),
           (repo.Config("c32"), NO_TRNG)]
    if tier == "thorough":
        out += [(repo.Config("c32"), ()), (repo.Config("direct"), ()), (repo.Config("generic"), ()),
                (repo.Config("asm"), NO_TRNG), (repo.Config("asm", 2, 1, 2), ()),
                (repo.Config("c64", 3, 3, 3), ()), (repo.Config("asm", 4, 4, 4, check=True), ())]
    return out


def run(rep, tier):
    rep.explanation = (
        "Obligations: (D1) each global variable definition of the linked library is constant or "
        "thread_local; (D2) each defined function's loads/stores/block operations have provenance in "
        "{own stack, parameter pointee, constant global, TLS, allocator result, pointer loaded from one of "
        "those}; (D3) each const-qualified pointer parameter of the public C API is never written through, "
        "directly or by a callee; (D4) each external callee is in the re-entrant allowlist.")
    rep.undecided = "concurrent use of one non-const object; hardware memory-model effects"
    rep.trusted_base = ["clang/LLVM 14 IR lowering", "build/irdump", "av/ptr.py provenance", "libc re-entrancy table",
                        "x86-64 assembly footprint rule (C18.D3) for stores made by the assembly units"]
    rep.assumptions = ["callers do not pass overlapping mutable objects to concurrent calls"]
    cfgs = configs(tier)
    builds = repo.configure_many([c for c, _ in cfgs])
    api = facts.public_c_api(builds[0])
    control_fixture(rep)
    for b, (c, extra) in zip(builds, cfgs):
        tol = tuple(u.rel for u in b.group("lib", ("c++",)))
        lr = repo.lower(b, group="lib", level="O0", extra=extra, tolerate=tol)
        m = ir.Module.load(lr.json)
        cname = b.cfg.name + ("/no-trng" if extra else "")
        rep.configs.append(cname)
        rep.units.update(lr.units)
        for u, err in lr.failed:
            rep.notes.append("unit %s not lowered by clang in %s" % (u, cname))
        asm_writes = None
        if b.cfg.backend == "asm":
            from . import asm_x86
            asm_writes = {}
            for rel, af, fa in asm_x86.analyse_build(b):
                for name, a in fa.items():
                    asm_writes[name] = a
        rule_globals(rep, m, cname, b)
        if b.cfg.backend == "asm":
            rule_asm_statics(rep, b, cname)
        W = write_summaries(m, asm_writes, indirect_const(b))
        rule_footprint(rep, m, cname)
        rule_const_params(rep, m, cname, api, W)
        rule_externals(rep, m, cname, asm_writes)
        rule_buffer_extent(rep, m, cname, b)
        rep.functions += len(m.defined())
    rep.floor("C16.D1", 8 * len(cfgs))
    rep.floor("C16.D2", 400 * len(cfgs))
    rep.floor("C16.D3", 150 * len(cfgs))
    rep.floor("C16.D4", 5 * len(cfgs))
    from .rules_c12 import control_d6
    control_d6(rep, "C16.D5")      # today's tree has no such access: the fixture keeps the rule alive


# ---------------------------------------------------------------------------
def rule_globals(rep, m, cname, build):
    rid = "C16.D1"
    rep.rule(rid, "every global variable is constant or thread-local")
    for g in m.globals.values():
        if g.get("decl"):
            continue
        where = "%s:%s" % (m.file_of(g.get("file", -1)), g.get("line", 0))
        name = g.get("srcname") or g["name"]
        if g["constant"] or g["tls"]:
            rep.instance(rid, 1, {"config": cname, "global": g["name"],
                                  "kind": "constant" if g["constant"] else "thread_local"})
            continue
        if g["name"].startswith(("_ZTV", "_ZTS", "_ZTI", ".str", "__const", "switch.table")):
            rep.instance(rid, 1)
            continue
        if name in ALLOWED_MUTABLE and build.cfg.check:
            rep.instance(rid, 1, {"config": cname, "global": g["name"], "kind": "allowed: " + ALLOWED_MUTABLE[name][:60]})
            continue
        rep.violation(rid, "global:" + (g.get("infunc", "") + "." if g.get("infunc") else "") + name, where,
                      "mutable global variable %s (%s, %d bytes) is neither const nor thread-local%s" % (
                          g["name"], g["ty"], g["size"],
                          (" - defined inside function " + g["infunc"]) if g.get("infunc") else ""),
                      config=cname)


def control_fixture(rep):
    """positive control: a fixture unit with a mutable static must be flagged"""
    src = os.path.join(repo.VERIF, "fixtures", "c16_mutable_static.c")
    out = os.path.join(repo.scratch(), "c16fix")
    os.makedirs(out, exist_ok=True)
    ll, js = os.path.join(out, "f.ll"), os.path.join(out, "f.json")
    repo.run(["clang", "-O0", "-g", "-S", "-emit-llvm", src, "-o", ll])
    repo.run([repo.IRDUMP, ll, js])
    m = ir.Module.load(js)
    bad = [g for g in m.globals.values() if not g.get("decl") and not g["constant"] and not g["tls"]]
    if len(bad) != 1:
        rep.broken.append("C16 positive control: the mutable static of the fixture was not recognised")


# ---------------------------------------------------------------------------
_IND = {}


def indirect_const(build):
    """(function, line) -> per-argument 'pointee is const' of the prototype of
    an indirect call (type-checked AST, build/asconfacts).  The library's only
    indirect calls are the ascon_storage_t callbacks."""
    if build.cfg.name in _IND:
        return _IND[build.cfg.name]
    out = {}
    for d in facts.group_facts(build, "lib", ("c",)):
        for c in d["calls"]:
            if not c["callee"] and "proto_pointee_const" in c:
                out[(c["func"], c["loc"][1])] = c["proto_pointee_const"]
    _IND[build.cfg.name] = out
    return out


def write_summaries(m, asm_analyses=None, indirect=None):
    """name -> set of parameter indices whose pointee may be written"""
    W = {}
    indirect = indirect or {}
    for f in m.bottom_up():
        R = ptr.resolver(f)
        pidx = {p: k for k, p in enumerate(f.params)}
        s = set()

        def mark(pv):
            for r in pv.roots:
                if r[0] == "param":
                    s.add(pidx[r[1]])
        for i in f.insts():
            if i.op == "store":
                mark(R.resolve(i.ops[1]))
            elif i.op in ("atomicrmw", "cmpxchg"):
                mark(R.resolve(i.ops[0]))
            elif i.op in ("call", "invoke"):
                cal = i.callee or ""
                if cal.startswith(("llvm.dbg", "llvm.lifetime")):
                    continue
                if ptr.is_memcpy(i) or ptr.is_memset(i):
                    mark(R.resolve(i.ops[0]))
                    continue
                argty = i.d.get("argty", [])
                pc = indirect.get((f.d.get("srcname", f.name), i.line())) if not cal else None
                for an, a in enumerate(i.ops):
                    if an >= len(argty) or not argty[an].endswith("*"):
                        continue
                    if pc is not None and an < len(pc) and pc[an]:
                        continue     # callback prototype declares this pointee const
                    if callee_may_write(m, W, cal, an, asm_analyses):
                        mark(R.resolve(a))
        W[f.name] = s
    return W


EXTERNAL_WRITES = {
    "explicit_bzero": {0}, "memset_s": {0}, "getrandom": {0}, "getentropy": {0}, "read": {1},
    "clock_gettime": {1}, "gettimeofday": {0, 1}, "time": {0}, "memcpy": {0}, "memmove": {0}, "memset": {0},
    "strlen": set(), "memcmp": set(), "open": set(), "close": set(), "abort": set(), "fprintf": {0},
    "_ZdlPv": set(), "_ZdaPv": set(), "free": set(), "_ZdlPvm": set(), "fwrite": {3}, "fputs": {1},
    "bcmp": set(), "syscall": {1, 2, 3},
}


def callee_may_write(m, W, cal, an, asm_analyses):
    if cal in W:
        return an in W[cal]
    if cal in EXTERNAL_WRITES:
        return an in EXTERNAL_WRITES[cal]
    if asm_analyses is not None and cal in asm_analyses:
        return an in asm_analyses[cal].written_args
    cf = m.funcs.get(cal)
    if cf is not None and an < len(cf.param_attrs):
        if "readonly" in cf.param_attrs[an] or "readnone" in cf.param_attrs[an]:
            return False
    return True


def rule_const_params(rep, m, cname, api, W):
    rid = "C16.D3"
    rep.rule(rid, "const pointer parameters of the public API are never written through")
    for name, decl in sorted(api.items()):
        f = m.funcs.get(name)
        if f is None or f.decl:
            continue
        for k, p in enumerate(decl["params"]):
            if not p.get("pointee_const"):
                continue
            if k in W.get(name, ()):
                site = _find_writer(m, f, k, W)
                rep.violation(rid, "%s:%s" % (name, p["name"]), site or f.src,
                              "object behind const parameter '%s' of %s may be written%s" % (
                                  p["name"], name, (" (%s)" % site) if site else ""),
                              config=cname)
            else:
                rep.instance(rid, 1, {"config": cname, "function": name, "param": p["name"], "type": p["ty"]})


def _find_writer(m, f, k, W, depth=0):
    R = ptr.resolver(f)
    want = f.params[k]
    for i in f.insts():
        tgt = None
        if i.op == "store":
            tgt = i.ops[1]
        elif i.op in ("call", "invoke"):
            cal = i.callee or ""
            if ptr.is_memcpy(i) or ptr.is_memset(i):
                tgt = i.ops[0]
            else:
                argty = i.d.get("argty", [])
                for an, a in enumerate(i.ops):
                    if an < len(argty) and argty[an].endswith("*") and callee_may_write(m, W, cal, an, None):
                        if any(r == ("param", want) for r in R.resolve(a).roots):
                            inner = None
                            cf = m.funcs.get(cal)
                            if cf is not None and not cf.decl and depth < 6:
                                inner = _find_writer(m, cf, an, W, depth + 1)
                            return "%s calls %s at %s%s" % (f.name, cal, i.where(), (" -> " + inner) if inner else "")
        if tgt is not None and any(r == ("param", want) for r in R.resolve(tgt).roots):
            return "%s at %s" % (i.op, i.where())
    return None


# ---------------------------------------------------------------------------
def rule_buffer_extent(rep, m, cname, build):
    """D5: the footprint of D2 is `the pointees of the parameters`; for a byte
    buffer passed with its length that pointee is [buf, buf+len).  A load or
    store of constant extent relative to the buffer cursor that cannot fit in
    the guard-bounded remaining length touches the neighbouring object, which
    another thread may own: a read-modify-write there loses that thread's
    update even if the bytes are written back unchanged (same decision
    procedure as C12.D6)."""
    from .rules_c12 import rule_output_range
    rid = "C16.D5"
    rep.rule(rid, "accesses through a caller's byte buffer stay inside [buffer, buffer+length): no touch of a neighbouring object")
    decls = {}
    for d in facts.group_facts(build, "lib", ("c",)):
        for x in d["decls"]:
            if x.get("def"):
                decls.setdefault(x["name"], x)
    for f in m.defined():
        if not f.srcfile.startswith(repo.REPO):
            continue
        dd = decls.get(f.d.get("srcname", f.name))
        if dd is not None:
            rule_output_range(rep, m, f, dd, cname, rid=rid,
                              why="; the bytes beyond the buffer belong to another object, which a concurrent thread may be using")



def rule_asm_statics(rep, build, cname):
    """D1 for the assembly units (they are not in the IR): an assembly file may
    define storage itself - `.lcomm` / `.comm` symbols, or labels in a writable
    section (.data, .bss, ...).  Such a symbol is process-wide mutable state that
    every thread's call shares.  The preprocessed text of every assembly unit
    of the configuration is scanned for these definitions."""
    import re
    from . import asm_x86
    rid = "C16.D1"
    writable = re.compile(r"^\.(data|bss|tbss|tdata|sdata|sbss)\b")
    for u in asm_x86.asm_units(build):
        text = repo.preprocess(u)
        if not text.strip():
            continue
        sect, line, bad = ".text", 0, []
        for raw in text.splitlines():
            mm = re.match(r'#\s*(\d+)\s+"', raw)
            if mm:
                line = int(mm.group(1)) - 1
                continue
            line += 1
            t = raw.split("//")[0].strip()
            if not t or t.startswith("#"):
                continue
            mm = re.match(r"\.(lcomm|comm)\s+([.\w$]+)", t)
            if mm:
                bad.append((mm.group(2), line, "." + mm.group(1)))
                continue
            if re.match(r"\.(text|data|bss)\b", t):
                sect = "." + t[1:].split()[0]
                continue
            mm = re.match(r"\.section\s+([.\w$]+)(?:\s*,\s*\"(\w*)\")?", t)
            if mm:
                flags = mm.group(2) or ""
                sect = mm.group(1) if not ("w" in flags and not writable.match(mm.group(1))) else ".data" + mm.group(1)
                continue
            mm = re.match(r"([.\w$]+):", t)
            if mm and writable.match(sect):
                bad.append((mm.group(1), line, "section " + sect))
        if bad:
            for sym, ln, how in bad:
                rep.violation(rid, "asm-global:%s" % sym, "%s:%d" % (u.file, ln),
                              "assembly unit %s defines the writable symbol %s (%s): hidden mutable state shared by all threads" % (
                                  u.rel, sym, how), config=cname)
        else:
            rep.instance(rid, 1, {"config": cname, "assembly_unit": u.rel, "writable_definitions": 0})


# ---------------------------------------------------------------------------
def rule_footprint(rep, m, cname):
    rid = "C16.D2"
    rep.rule(rid, "function footprint: stack, parameter pointees, constant/TLS globals, allocator results only")
    for f in m.defined():
        R = ptr.resolver(f)
        bad = None
        for i in f.insts():
            ptrs = []
            if i.op == "load":
                ptrs = [(i.ops[0], "load")]
            elif i.op == "store":
                ptrs = [(i.ops[1], "store")]
                # escape of a parameter pointer into global memory
                if i.d.get("vty", "").endswith("*"):
                    src = R.resolve(i.ops[0])
                    dst = R.resolve(i.ops[1])
                    if any(r[0] == "global" for r in dst.roots) and any(r[0] in ("param", "alloca") for r in src.roots):
                        bad = (i, "a pointer to a caller object / stack object is stored into a global variable")
            elif i.op == "inttoptr":
                src = R.resolve(i.ops[0])
                if not any(r[0] in ("param", "alloca", "global", "call", "load") for r in src.roots):
                    bad = (i, "pointer forged from an integer")
            elif i.op in ("call", "invoke") and (ptr.is_memcpy(i) or ptr.is_memset(i)):
                ptrs = [(i.ops[0], "block write")]
                if ptr.is_memcpy(i):
                    ptrs.append((i.ops[1], "block read"))
            elif i.op == "ret" and i.ops and f.d["ret"].endswith("*"):
                pv = R.resolve(i.ops[0])
                for r in pv.roots:
                    if r[0] == "global" and not m.globals.get(r[1], {}).get("constant", True):
                        bad = (i, "returns a pointer to mutable static storage %s" % r[1])
            for p, what in ptrs:
                pv = R.resolve(p)
                for r in pv.roots:
                    if r[0] == "global":
                        g = m.globals.get(r[1])
                        if g is None:
                            continue    # function address
                        if what in ("store", "block write") and g["constant"]:
                            bad = (i, "%s to constant global %s" % (what, r[1]))
                        elif not g["constant"] and not g["tls"] and not g.get("decl") and \
                                (g.get("srcname") or g["name"]) not in ALLOWED_MUTABLE:
                            bad = (i, "%s of mutable global %s" % (what, r[1]))
                    elif r[0] == "unknown" and r[1] in ("inttoptr",):
                        bad = (i, "%s through a pointer forged from an integer" % what)
            if bad:
                break
        if bad:
            rep.violation(rid, f.name, bad[0].where(), "%s: %s" % (f.name, bad[1]), config=cname)
        else:
            rep.instance(rid, 1, {"config": cname, "function": f.name})


def rule_externals(rep, m, cname, asm_analyses):
    rid = "C16.D4"
    rep.rule(rid, "external callees are re-entrant libc / system functions")
    seen = {}
    for f in m.defined():
        for i in f.calls():
            cal = i.callee
            if cal is None or cal == "<asm>":
                continue
            cf = m.funcs.get(cal)
            if cf is not None and not cf.decl:
                continue
            seen.setdefault(cal, (f, i))
    for cal, (f, i) in sorted(seen.items()):
        if cal in REENTRANT_EXTERNALS or (asm_analyses is not None and cal in asm_analyses):
            rep.instance(rid, 1, {"config": cname, "callee": cal})
        elif cal.startswith(("_ZNSt", "_ZNKSt", "_ZSt", "_ZNK9__gnu_cxx", "_ZN9__gnu_cxx")):
            rep.instance(rid, 1)       # libstdc++ templates instantiated elsewhere
        else:
            rep.violation(rid, "extern:" + cal, i.where(),
                          "%s calls external function %s, which is not in the re-entrant allowlist" % (f.name, cal),
                          config=cname)
