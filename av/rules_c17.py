"""C17 - C++ classes compile when used and equal the C API for every keying path.

  D1  compile witness: every public member / constructor / overload /
      default-argument form of every ascon:: class and free function
      type-checks when odr-used; class templates are explicitly instantiated
      for several lengths; cipher objects are not copyable (negative witness).
      Checked with g++ (the repository's compiler) and clang++, with and
      without ASCON_NO_STL.
  D2  forwarding agreement: each wrapper method calls the C functions of its
      own algorithm, with its parameters flowing to the same-named C parameters
      and key/nonce arguments taken from the object's own members.
  D3  keying paths: key constructors define every byte of the key and nonce
      members on every path; the zero-length branch of set_key never uses the
      caller's pointer; block sizes of the key copy equal the member size.
Undecided: run-time equality of outputs (functional).
"""
import glob
import os
import subprocess
import re

from . import effects, facts, ir, ptr, repo, witness

LEVEL = "other"
MANIFEST = {
    "text": "decides D1 (every documented member compiles when used - a type-checking property, discharged by a "
            "generated witness TU under g++ and clang++, STL and ASCON_NO_STL), D2 (wrapper methods forward to "
            "the C functions of their own algorithm with same-role arguments), D2s (members that receive a sized "
            "container forward its bytes together with its own size()), D3 (every keying path defines the whole "
            "key and nonce; the zero-length set_key path never reads the caller's pointer; key copies have the "
            "member's size), D4 (no mutable static state in the C++ units) and D5 (the header-inline hash / XOF "
            "classes, fresh and after reset(), return what the C sequence returns for all data values: witness IR "
            "linked with the library IR in the mode engine); run-time equality for the out-of-line cipher classes "
            "follows from D2/D3 and the C-level checks",
    "note": "trusted: asconfacts member enumeration (type-checked AST), the two compilers as the definition "
            "of 'compiles', irdump; the witness covers the members that exist in the headers on the run",
    "technique": "generated compile-pass/compile-fail witnesses from AST facts; provenance and must-define "
                 "dataflow over the LLVM IR of the C++ units; sibling cross-check of wrapper/callee naming",
    "engines": ["asconfacts", "irdump", "av"],
}

ALGS = ("128a", "128", "80pq")


def run(rep, tier):
    rep.explanation = (
        "D1: a translation unit generated from the AST facts of src/ascon/*.h odr-uses every public member "
        "and is type-checked by g++ and clang++ (-fsyntax-only) in the STL and ASCON_NO_STL configurations; "
        "any diagnostic is a violation naming the member.  D2/D3: provenance analysis of the C++ units' IR.")
    rep.undecided = "run-time equality of the C++ results with the C API for all inputs"
    build = repo.configure(repo.DEFAULT)
    rule_witness(rep, build, tier)
    rule_forwarding_and_keying(rep, build, tier)
    # the byte-array helper functions: the C++ decoder helper returns what the C decoder accepts
    from . import rules_c20
    rules_c20.rule_cpp_helper_semantic(rep, build, rid="C17.D6")
    # set_nonce / set_counter of every cipher class store the nonce the C functions are then given (short nonces are
    # padded on the left): the byte layout is decided by evaluating the members (the rule of C14.D3)
    from . import rules_c14
    lr = repo.lower(build, group="lib", level="O0", scev=True, tolerate=tuple(u.rel for u in build.group("lib", ("c++",))))
    rules_c14.rule_helpers(rep, ir.Module.load(lr.json), rid="C17.D7")


def public_headers():
    return sorted(glob.glob(os.path.join(repo.REPO, "src", "ascon", "*.h")))


def rule_witness(rep, build, tier):
    rid = "C17.D1"
    rep.rule(rid, "every public C++ member compiles when odr-used / instantiated")
    outdir = os.path.join(build.dir, "witness")
    os.makedirs(outdir, exist_ok=True)
    hdrs = public_headers()
    total = 0
    for no_stl in (False, True):
        extra = ("-DASCON_NO_STL",) if no_stl else ()
        hf = facts.header_facts(build, "c++", extra=extra)
        w = witness.generate(hf, hdrs, no_stl=no_stl)
        if w.count < 200:
            rep.broken.append("%s: only %d witness uses generated (%s)" % (rid, w.count, "NO_STL" if no_stl else "STL"))
        for comp in ("g++", "clang++"):
            cname = "%s/%s" % (comp, "NO_STL" if no_stl else "STL")
            rep.configs.append(cname)
            errs, rc, src = witness.compile_witness(w, build, comp, outdir, extra=extra,
                                                    tag="-%s-%d" % (comp.replace("+", "p"), no_stl))
            if rc != 0 and not errs:
                rep.broken.append("%s: %s failed on the witness without a parsable diagnostic" % (rid, comp))
            seen = set()
            for fn, ln, msg, member in errs:
                if member == "?":
                    # error at template definition time: attribute to the enclosing declaration
                    best = None
                    for d in hf["decls"]:
                        if d["loc"][0] == fn and d["loc"][1] <= ln and (best is None or d["loc"][1] > best["loc"][1]):
                            best = d
                    if best is not None:
                        member = "%s(%s)" % (best["qname"], ", ".join(p["ty"] for p in best["params"]))
                key = (member, msg[:80])
                if key in seen:
                    continue
                seen.add(key)
                where = "%s:%d" % (fn if fn.startswith(repo.REPO) else "<witness>", ln)
                rep.violation(rid, _norm_member(member), where,
                              "does not compile when used: %s (%s)" % (msg, member), config=cname)
            if comp == "clang++" and rc == 0:
                rule_container_lengths(rep, build, src, outdir, extra, cname, "-ir-%d" % no_stl)
                if not no_stl:
                    rule_wrapper_semantics(rep, os.path.join(outdir, "witness-ir-0.opt.ll"), outdir)
            bad_members = set(_norm_member(m) for _, _, _, m in errs)
            good = w.count - len(bad_members)
            rep.instance(rid, max(good, 0), {"config": cname, "uses": w.count,
                                             "sample": list(w.where.values())[:3]})
            total += w.count
    rep.floor(rid, 800)
    rep.extra["witness_members"] = total


PTR_ACCESSORS = re.compile(r"::(data|c_str|begin|cbegin|operator\[\]|front)\(")
LEN_ACCESSORS = re.compile(r"::(size|length)\(\) const$")
CONTAINERS = re.compile(r"^(std::(__cxx11::)?basic_string<|std::vector<|ascon::byte_array)")


def rule_container_lengths(rep, build, src, outdir, extra, cname, tag):
    """D2s: a member that receives a sized container (std::string, byte_array)
    and hands its bytes to another function passes the container's own size
    with them.  A pointer obtained from X.data() / X.c_str() that travels to a
    callee without a value derived from X.size() in the same call lets the
    callee measure the data itself (strlen), which truncates at an embedded NUL
    and so differs from the C function called with (data, size)."""
    rid = "C17.D2s"
    rep.rule(rid, "container overloads forward (data, size) of the same container")
    js, err = witness.lower_witness(src, build, outdir, extra=extra, tag=tag)
    if js is None:
        rep.broken.append("%s: the witness did not lower to IR under clang++ (%s)" % (rid, err.strip().splitlines()[-1][:160] if err.strip() else ""))
        return
    n = container_lengths_module(rep, ir.Module.load(js), cname)
    if n < 4:
        rep.broken.append("%s: only %d container-forwarding call(s) found in %s" % (rid, n, cname))


def container_lengths_module(rep, m, cname):
    rid = "C17.D2s"
    names = sorted(set(f.name for f in m.funcs.values() if f.name.startswith("_Z")))
    dem = {}
    if names:
        out = subprocess.run(["llvm-cxxfilt-14"], input="\n".join(names).encode(), stdout=subprocess.PIPE).stdout.decode().splitlines()
        dem = dict(zip(names, out))
    n = 0
    for f in m.defined():
        d = dem.get(f.name, "")
        if not d.startswith("ascon::") or not f.srcfile.startswith(repo.REPO):
            continue
        uses = None
        # accessor results per container object (the `this` argument of the accessor)
        ptrs, lens = {}, {}
        for c in f.calls():
            cd = dem.get(c.callee or "", "")
            if not cd or not CONTAINERS.match(cd) or not c.ops:
                continue
            obj = c.ops[0]
            # only containers the member received from its caller (reference parameters); a container the
            # member builds itself (a result sized from a length argument) is measured by construction
            if obj not in f.params or "sret" in " ".join(f.param_attrs[f.params.index(obj)] or ()):
                continue
            if not _is_const_ref_param(d, f, obj):
                continue          # an output container: sized by the member itself
            if PTR_ACCESSORS.search(cd):
                ptrs.setdefault(obj, []).append(c)
            elif LEN_ACCESSORS.search(cd):
                lens.setdefault(obj, []).append(c)
        if not ptrs:
            continue
        for c in f.calls():
            cd = dem.get(c.callee or "", c.callee or "")
            if CONTAINERS.match(cd) or (c.callee or "").startswith("llvm."):
                continue
            for obj, pcs in ptrs.items():
                passed = [a for a in c.ops if isinstance(a, str) and any(_derived_from(f, a, pc.id) for pc in pcs)]
                if not passed:
                    continue
                n += 1
                sized = any(isinstance(a, str) and any(_derived_from(f, a, lc.id) for lc in lens.get(obj, []))
                            for a in c.ops)
                if sized:
                    rep.instance(rid, 1, {"config": cname, "member": d, "callee": cd})
                else:
                    rep.violation(rid, "%s->%s" % (_norm_member(d), re.sub(r"\(.*$", "", cd)), c.where(),
                                  "%s hands the bytes of its container argument to %s without the container's size(): the "
                                  "callee has to measure the data itself, so a value with an embedded NUL byte is truncated and "
                                  "the result differs from the C function called with (data, size)" % (d, cd), config=cname)
    return n


def _split_params(dem):
    """parameter type strings of a demangled function name"""
    depth, start, k = 0, None, None
    # find the parameter list: the last top-level (...) group
    close = dem.rfind(")")
    if close < 0:
        return []
    depth = 0
    for k in range(close, -1, -1):
        if dem[k] == ")":
            depth += 1
        elif dem[k] == "(":
            depth -= 1
            if depth == 0:
                start = k
                break
    if start is None:
        return []
    inner = dem[start + 1:close]
    out, cur, da = [], "", 0
    for ch in inner:
        if ch in "<(":
            da += 1
        elif ch in ">)":
            da -= 1
        if ch == "," and da == 0:
            out.append(cur.strip())
            cur = ""
        else:
            cur += ch
    if cur.strip():
        out.append(cur.strip())
    return [] if out == ["void"] else out


def _is_const_ref_param(dem, f, obj):
    tys = _split_params(dem)
    k = f.params.index(obj)
    # IR parameters = [sret slot] + [this] + declared parameters
    off = len(f.params) - len(tys)
    if off < 0 or k < off:
        return False
    return tys[k - off].endswith("const&")


def _norm_member(m):
    m = re.sub(r"<\d+(ul|u|l)?>", "<N>", m)
    m = re.sub(r" with \d+ argument\(s\)", "", m)
    return m


# ---------------------------------------------------------------------------
def class_algorithm(cls):
    """'aead128a_masked' -> (alg, family regex for callee names)"""
    for a in ALGS:
        if a in cls:
            alg = a
            break
    else:
        return None
    if cls.startswith("isap"):
        pat = r"^ascon%s_isap_aead_" % alg
    elif cls.startswith("siv"):
        pat = r"^ascon%s_siv_" % alg
    elif cls.endswith("_masked"):
        pat = r"^(ascon%s_masked_aead_|ascon_masked_key_%s_)" % (alg, "160" if alg == "80pq" else "128")
    elif cls.startswith("aead"):
        pat = r"^ascon%s_aead_" % alg
    else:
        return None
    return alg, pat


GENERIC_OK = re.compile(r"^(ascon_clean|ascon_aead_increment_nonce|ascon_aead_set_counter|ascon_bytes_|ascon_free|ascon_init)$|^ascon_bytes_")


def demangle_method(name):
    """_ZN5ascon7aead1287set_keyEPKhm -> ('aead128', 'set_key') ; ctors -> 'C', dtors -> 'D'"""
    m = re.match(r"^_ZNK?5ascon(\d+)", name)
    if not m:
        return None
    n = int(m.group(1))
    rest = name[m.end():]
    cls = rest[:n]
    rest = rest[n:]
    m2 = re.match(r"^(\d+)", rest)
    if m2:
        k = int(m2.group(1))
        return cls, rest[m2.end():m2.end() + k]
    if rest.startswith(("C1", "C2")):
        return cls, "C"
    if rest.startswith(("D0", "D1", "D2")):
        return cls, "D"
    return cls, rest[:2]


def rule_forwarding_and_keying(rep, build, tier):
    rep.rule("C17.D2", "wrapper methods call the C functions of their own algorithm with same-role arguments")
    rep.rule("C17.D3", "keying paths define the whole key/nonce; zero-length set_key never uses the caller's pointer")
    build = repo.configure(repo.Config("c64"))     # everything (incl. masked words) is C code here
    # inlined view with loop facts: a constructor is judged together with the file-local helpers it delegates to
    lr = repo.lower(build, group="lib", level="O0", scev=True, inline_internal=True,
                    tolerate=tuple(u.rel for u in build.group("lib", ("c++",))))
    for u, err in lr.failed:
        rep.notes.append("unit %s not lowered by clang (%s)" % (u, err.strip().splitlines()[-1][:120] if err.strip() else ""))
    m = ir.Module.load(lr.json)
    rep.units.update(lr.units)
    api = facts.public_c_api(build)
    lay = effects.Layouts(m)
    init = effects.wipe_summaries(m, mode="init")
    # ---- D4: the wrapper classes keep no state outside the object: a mutable variable with static storage in the
    # C++ units would make what a member returns depend on which objects were used before (a default-constructed
    # object must equal the C API called with the all-zero key, whatever the history of the process)
    rep.rule("C17.D4", "the C++ units define no mutable variable with static storage (results do not depend on object history)")
    cpp_files = set(os.path.join(repo.REPO, u.rel) for u in build.group("lib", ("c++",)))
    nglob = 0
    for g in m.globals.values():
        if g.get("decl"):
            continue
        gfile = m.file_of(g.get("file", -1))
        if gfile not in cpp_files and not str(gfile).endswith((".cpp", ".hpp")):
            continue
        nglob += 1
        if g["constant"] or g.get("tls") or g["name"].startswith(("_ZTV", "_ZTS", "_ZTI", ".str", "__const", "switch.table")):
            rep.instance("C17.D4", 1)
            continue
        rep.violation("C17.D4", "static:" + (g.get("srcname") or g["name"]), "%s:%s" % (gfile, g.get("line", 0)),
                      "the C++ unit defines the mutable static variable %s (%d bytes%s): objects constructed or keyed later can "
                      "observe what earlier objects left there, so a member no longer returns what the C function returns for the "
                      "same key" % (g.get("srcname") or g["name"], g["size"],
                                    ", inside " + g["infunc"] if g.get("infunc") else ""))
    if nglob == 0:
        rep.instance("C17.D4", 1, {"globals_in_cpp_units": 0})
    if container_lengths_module(rep, m, "lib/" + build.cfg.name) < 6:
        rep.broken.append("C17.D2s: fewer than 6 container-forwarding calls in the library's C++ units")
    for f in m.defined():
        dm = demangle_method(f.name)
        if dm is None:
            continue
        cls, meth = dm
        ca = class_algorithm(cls)
        if ca is None:
            continue
        alg, pat = ca
        rep.functions += 1
        R = ptr.resolver(f)
        # ---- D2: callee naming and argument roles
        for c in f.calls():
            cal = c.callee or ""
            if not cal.startswith("ascon") or cal not in api:
                continue
            if GENERIC_OK.match(cal):
                continue
            if not re.match(pat, cal):
                rep.violation("C17.D2", "%s::%s->%s" % (cls, meth, cal), c.where(),
                              "%s::%s calls %s, which belongs to a different algorithm family (expected %s)" % (
                                  cls, meth, cal, pat))
                continue
            decl = api[cal]
            ok = True
            for k, p in enumerate(decl["params"]):
                if k >= len(c.ops):
                    break
                pn = p["name"]
                a = c.ops[k]
                # same-named wrapper parameter must be passed through
                if pn in f.param_names and pn not in ("state",):
                    want = f.params[f.param_names.index(pn)]
                    got = R.resolve(a) if "*" in p["ty"] else None
                    if got is not None:
                        zero_const = all(r[0] == "global" and m.globals.get(r[1], {}).get("constant")
                                         and m.globals.get(r[1], {}).get("zeroinit") for r in got.roots) and got.roots
                        if not any(r == ("param", want) for r in got.roots) and not zero_const:
                            ok = False
                            rep.violation("C17.D2", "%s::%s->%s:%s" % (cls, meth, cal, pn), c.where(),
                                          "%s::%s passes something other than its own parameter '%s' as '%s' of %s" % (
                                              cls, meth, pn, pn, cal))
                    elif a != want and not _derived_from(f, a, want):
                        ok = False
                        rep.violation("C17.D2", "%s::%s->%s:%s" % (cls, meth, cal, pn), c.where(),
                                      "%s::%s passes something other than its own parameter '%s' as '%s' of %s" % (
                                          cls, meth, pn, pn, cal))
                elif pn in ("npub", "k", "pk") and meth in ("do_encrypt", "do_decrypt"):
                    got = R.resolve(a)
                    root = got.single()
                    nm = None
                    if root and root[0] == "param" and root[1] == f.params[0] and got.offset is not None:
                        sn = effects.Layouts.pointee_struct(f.param_ty[0])
                        nm = lay.member_name(sn, got.offset) if sn else None
                    role = "nonce" if pn == "npub" else "key"
                    if nm is None or role not in nm:
                        ok = False
                        rep.violation("C17.D2", "%s::%s->%s:%s" % (cls, meth, cal, pn), c.where(),
                                      "%s::%s passes %s as '%s' of %s instead of the object's own %s member" % (
                                          cls, meth, nm or "a foreign pointer", pn, cal, role))
            if ok:
                rep.instance("C17.D2", 1, {"class": cls, "method": meth, "callee": cal})
        # ---- D3: keying paths
        if meth == "C" and len(f.params) >= 2:
            check_ctor(rep, m, f, cls, lay, init)
        if meth == "set_key":
            check_set_key(rep, m, f, cls, R)
        if meth in ("set_key", "C"):
            check_key_block_sizes(rep, m, f, cls, R, lay)
    rep.floor("C17.D2", 60)
    rep.floor("C17.D3", 20)


def _derived_from(f, a, want, depth=0):
    if a == want:
        return True
    if not ir.is_local(a) or depth > 6:
        return False
    d = f.defs.get(a)
    if d is None:
        return False
    if d.op in ("zext", "sext", "trunc", "bitcast", "getelementptr"):
        return _derived_from(f, d.ops[0], want, depth + 1)
    return False


def check_ctor(rep, m, f, cls, lay, init):
    """every byte of the key and nonce members is defined on every path"""
    sn = effects.Layouts.pointee_struct(f.param_ty[0])
    if sn is None or sn not in m.structs:
        return
    need = {}
    for (off, size, key, ty) in lay.leaves(sn):
        nm = lay.member_name(sn, off)
        if ty.endswith("*"):
            continue
        if "key" in nm or "nonce" in nm:
            for x in range(off, off + size):
                need[x] = nm
    if not need:
        return
    got = init[f.name].must.get(0, frozenset())
    missing = sorted(x for x in need if x not in got)
    inst = "%s::%s(%s)" % (cls, cls, ",".join(f.param_ty[1:]))
    if missing:
        # the must-init dataflow cannot add up a copy of `len` and a fill of `size - len` bytes; before alarming, the
        # constructor is evaluated over bit expressions with the object's prior contents as symbols: a byte is
        # undefined exactly if it still depends on them
        verdict = _ctor_by_evaluation(m, f, missing)
        if verdict == []:
            rep.instance("C17.D3", 1, {"constructor": inst, "defined_bytes": len(need), "by": "evaluation of the constructor"})
            return
        if verdict is None:
            rep.unproved_item("C17.D3", "constructor %s: the dataflow does not show offsets %s defined and the constructor is "
                              "not evaluable" % (inst, _ranges(missing)))
            return
        missing = verdict
        names = sorted(set(need[x] for x in missing))
        rep.violation("C17.D3", inst + ":init", f.src,
                      "constructor %s leaves %d byte(s) of %s undefined on some path (offsets %s)" % (
                          inst, len(missing), ", ".join(names), _ranges(missing)))
    else:
        rep.instance("C17.D3", 1, {"constructor": inst, "defined_bytes": len(need)})


def _ctor_by_evaluation(m, f, offsets):
    """-> offsets (subset) that still depend on the object's contents before the
    constructor ran, for some argument shape; [] if none; None if not evaluable"""
    from .affine import Machine, Unsupported, const_bits, Ptr
    sn = effects.Layouts.pointee_struct(f.param_ty[0])
    size = m.structs[sn]["size"]
    shapes = [[]]
    for ty in f.param_ty[1:]:
        if ty.endswith("*"):
            shapes = [sh + [x] for sh in shapes for x in ("buf", "null")]
        else:
            shapes = [sh + [x] for sh in shapes for x in (0, 16)]
    bad = set()
    try:
        for sh in shapes[:8]:
            mc = Machine(m)
            mc.nonlinear = True
            this = mc.new_obj("this", size, symbolic=True)
            args = [this]
            for k, x in enumerate(sh):
                if x == "buf":
                    args.append(mc.new_obj("arg%d" % k, max(size, 64), symbolic=True))
                elif x == "null":
                    args.append(Ptr("null", 0))
                else:
                    args.append(const_bits(x, mc.width(f.param_ty[1 + k])))
            mc.call(f.name, args)
            got = mc.load(this, size)
            for off in offsets:
                for bit in got[8 * off:8 * off + 8]:
                    if any(a is not None and a[0] == "this" for mono in bit for a in mono):
                        bad.add(off)
                        break
    except Unsupported:
        return None
    except Exception:
        return None
    return sorted(bad)


def _ranges(xs):
    out, start, prev = [], None, None
    for x in xs:
        if start is None:
            start = prev = x
        elif x == prev + 1:
            prev = x
        else:
            out.append((start, prev))
            start = prev = x
    if start is not None:
        out.append((start, prev))
    return ",".join("%d-%d" % r if r[0] != r[1] else str(r[0]) for r in out)


def check_key_block_sizes(rep, m, f, cls, R, lay):
    """every block copy / fill that starts at the object's key member covers
    exactly that member (constructor, set_key full-length and zero-length
    branches must agree on one size: sizeof(key))"""
    sn = effects.Layouts.pointee_struct(f.param_ty[0])
    if sn is None or sn not in m.structs:
        return
    members = {}
    for (off, size, key, ty) in lay.leaves(sn):
        nm = lay.member_name(sn, off)
        if nm.split(".")[-1] in ("key",) and not ty.endswith("*"):
            members[off] = (size, nm)
    if not members:
        return
    for i in f.insts():
        if i.op != "call" or not (ptr.is_memcpy(i) or ptr.is_memset(i)):
            continue
        pv = R.resolve(i.ops[0])
        if pv.single() != ("param", f.params[0]) or pv.offset not in members or pv.variable:
            continue
        n = ir.const_int(i.ops[2])
        size, nm = members[pv.offset]
        inst = "%s::%s:key-size" % (cls, demangle_method(f.name)[1])
        if n is None:
            continue
        if n < size:
            rep.violation("C17.D3", inst, i.where(),
                          "%s::%s %s %d byte(s) of the %d-byte key member %s, so this keying path leaves %d byte(s) of a "
                          "previous key in place / differs from the other keying paths" % (
                              cls, demangle_method(f.name)[1], "clears" if ptr.is_memset(i) else "copies", n, size, nm,
                              abs(size - n)))
        else:
            rep.instance("C17.D3", 1, {"method": "%s::%s" % (cls, demangle_method(f.name)[1]), "key_bytes": n})


def check_set_key(rep, m, f, cls, R):
    """on the path where len == 0 nothing may read through the key parameter"""
    if len(f.params) < 3:
        return
    keyp, lenp = f.params[1], f.params[2]
    zero_blocks = None
    for b in f.blocks:
        t = b.term
        if t.op != "br" or not t.ops or len(t.succs) != 2:
            continue
        c = f.defs.get(t.ops[0]) if ir.is_local(t.ops[0]) else None
        if c is None or c.op != "icmp" or c.d["pred"] not in ("eq", "ne"):
            continue
        x, y = c.ops
        if x == lenp and ir.const_int(y) == 0:
            succ = t.succs[0] if c.d["pred"] == "eq" else t.succs[1]
            other = t.succs[1] if c.d["pred"] == "eq" else t.succs[0]
            region = f.reachable_from(f.bmap[succ]) - f.reachable_from(f.bmap[other])
            zero_blocks = region
    inst = "%s::set_key:zero-length" % cls
    if zero_blocks is None:
        rep.unproved_item("C17.D3", "%s::set_key has no recognisable len == 0 branch" % cls)
        return
    bad = None
    for bn in zero_blocks:
        for i in f.bmap[bn].insts:
            ops = []
            if i.op == "load":
                ops = [i.ops[0]]
            elif i.op in ("call", "invoke"):
                argty = i.d.get("argty", [])
                ops = [a for k, a in enumerate(i.ops) if k < len(argty) and argty[k].endswith("*")]
            for o in ops:
                if any(r == ("param", keyp) for r in R.resolve(o).roots):
                    bad = i
    if bad is not None:
        rep.violation("C17.D3", inst, bad.where(),
                      "%s::set_key(key, 0) uses the caller's key pointer (%s) on the zero-length path, which is "
                      "documented to select the all-zero key" % (cls, (bad.callee or bad.op)))
    else:
        rep.instance("C17.D3", 1, {"method": "%s::set_key" % cls, "zero_length_blocks": len(zero_blocks)})


def rule_wrapper_semantics(rep, witness_ll, outdir):
    """D5 (mode level, bounded shape, all data values): the header-inline hash /
    XOF classes give what the C API gives.  The IR of the instantiation witness
    is linked with the library's IR (64-bit C back end) and interpreted over bit
    expressions with the permutation uninterpreted: for each class a fresh
    object and the same object after reset() must produce, for a symbolic
    9-byte input, exactly the output of the C sequence init(_fixed) / absorb /
    squeeze (hash: update / finalize)."""
    from . import modes, sponge
    from .affine import Unsupported, Ptr, const_bits
    rid = "C17.D5"
    rep.rule(rid, "header-inline hash / XOF classes (fresh and after reset()) return what the C functions return")
    b = repo.configure(repo.Config("c64"))
    lr = repo.lower(b, group="lib", level="O0", tolerate=tuple(u.rel for u in b.group("lib", ("c++",))))
    both = os.path.join(outdir, "witness-plus-lib.ll")
    js = os.path.join(outdir, "witness-plus-lib.json")
    try:
        repo.run(["llvm-link-14", "-S", "-o", both, witness_ll, lr.path])
        repo.run([repo.IRDUMP, both, js])
    except repo.AnalysisBroken as e:
        rep.unproved_item(rid, "witness and library IR do not link: %s" % str(e)[-200:])
        return
    m = ir.Module.load(js)
    layout = sponge.layout_of(b)
    names = sorted(f.name for f in m.defined() if f.name.startswith("_ZN") and "5ascon" in f.name)
    out = subprocess.run(["llvm-cxxfilt-14"], input="\n".join(names).encode(), stdout=subprocess.PIPE).stdout.decode().splitlines()
    by_dem = {}
    for n, d in zip(names, out):
        by_dem.setdefault(d, n)

    def find(cls, sig):
        return by_dem.get("ascon::%s::%s" % (cls, sig))
    classes = []
    for d in by_dem:
        mm = re.match(r"^ascon::(xofa?_with_output_length<(\d+)ul>)::reset\(\)$", d)
        if mm:
            classes.append((mm.group(1), "xofa" if mm.group(1).startswith("xofa") else "xof", int(mm.group(2))))
    for cls, fam in (("hash", "hash"), ("hasha", "hasha")):
        if find(cls, "reset()"):
            classes.append((cls, fam, None))
    if len(classes) < 4:
        rep.unproved_item(rid, "only %d header-inline classes found in the witness IR" % len(classes))
        return
    for cls, fam, n in sorted(classes):
        short = cls.split("<")[0]
        ctor = find(cls, "%s()" % short)
        reset = find(cls, "reset()")
        if fam.startswith("xof"):
            absorb = find(cls, "absorb(unsigned char const*, unsigned long)")
            squeeze = find(cls, "squeeze(unsigned char*, unsigned long)")
        else:
            absorb = find(cls, "update(unsigned char const*, unsigned long)")
            squeeze = find(cls, "finalize(unsigned char*)")
        if not all((ctor, reset, absorb, squeeze)):
            rep.unproved_item(rid, "%s: constructor / reset / absorb / squeeze not all emitted in the witness" % cls)
            continue
        try:
            R = modes.Run(m, layout)
            M = R.buf("M", 9)
            # reference: the C API
            st = R.obj(R.struct_size("ascon_%s_state_t" % fam))
            ref = R.out(32)
            if fam.startswith("xof"):
                R.call("ascon_%s_init_fixed" % fam, st, n)
                R.call("ascon_%s_absorb" % fam, st, M, 9)
                R.call("ascon_%s_squeeze" % fam, st, ref, 32)
            else:
                R.call("ascon_%s_init" % fam, st)
                R.call("ascon_%s_update" % fam, st, M, 9)
                R.call("ascon_%s_finalize" % fam, st, ref)
            want = R.read(ref, 32)
            fct = m.funcs[ctor]
            sn = effects.Layouts.pointee_struct(fct.param_ty[0])
            size = (m.structs.get(sn) or {}).get("size")
            if not size:
                raise Unsupported("size of %s unknown" % cls)
            obj = R.obj(size)
            R.call(ctor, obj)
            for phase in ("a fresh object", "the object after reset()", "the object after a second reset()"):
                if phase != "a fresh object":
                    R.call(reset, obj)
                o = R.out(32)
                R.call(absorb, obj, M, 9)
                if fam.startswith("xof"):
                    R.call(squeeze, obj, o, 32)
                else:
                    R.call(squeeze, obj, o)
                d = modes.first_diff(R.read(o, 32), want)
                if d:
                    f = m.funcs[reset if phase != "a fresh object" else ctor]
                    rep.violation(rid, "%s:%s" % (re.sub(r"<\d+ul>", "<N>", cls), "reset" if phase != "a fresh object" else "constructor"), f.src,
                                  "ascon::%s: %s gives output that differs from the C sequence ascon_%s_init%s / absorb / squeeze at %s "
                                  "(for every input value)" % (cls, phase, fam, "_fixed(%d)" % n if n is not None else "", d))
                    break
            else:
                rep.instance(rid, 1, {"class": cls})
        except Unsupported as e:
            rep.unproved_item(rid, "%s: %s" % (cls, e))
