"""C18 - assembly back ends: generators, ABI, stack, executable-stack note.

  D1  every checked-in assembly file is byte-for-byte what the generator
      programs under tools/ emit (the `generate:` recipes of tools/*/Makefile
      are parsed, the generators are built and run *as build tools* in a
      scratch copy and their output is compared with the files in src/)
  D2  no assembly object forces an executable stack on ELF: every .S unit of
      the compilation database, assembled with the repository's own flags,
      carries a .note.GNU-stack section without the X flag
  D3  x86-64 ABI and footprint (abstract interpretation, av/asm_x86.py): stack
      height 0 and callee-saved registers restored at every return, stack
      accesses inside the own frame, every other access inside the
      state / masked-word / masked-state argument
  D4  x86-64 ascon_permute: 12-entry jump table in round order, each round
      block starts by XORing the specification's round constant
Undecided: that each back end computes the permutation for every state; ABI
of the ARM/AVR/m68k/RISC-V/Xtensa files (no decoder for those ISAs here).
"""
import os
import re
import shutil
import subprocess

from . import asm_x86, oracle, repo

LEVEL = "other"
MANIFEST = {
    "text": "decides D1 (all checked-in .S files regenerate byte-identically from tools/), D2 (non-executable "
            ".note.GNU-stack on every assembly object under the flags of a gcc and of a clang configuration), D3 (x86-64: stack balance, callee-saved registers, memory "
            "footprint, every path, every share configuration), D4 (x86-64 jump table and round constants), D4i "
            "(i386: every first_round value reaches the block of that round, blocks in order with the "
            "specification's constants) and D5 (x86-64 ascon_permute: every round block is the specification's "
            "round as a polynomial identity over GF(2) in the 320 state bits, prologue and epilogue are inverse "
            "mappings, so ascon_permute(first_round) is rounds first_round..11 for every state; the masked x86-64 "
            "permutations are proved under C10.D5), D5i the same for i386 and D5r for RISC-V 32E/32I/64I, AArch64, ARMv6, "
            "ARMv6-M, ARMv7-M, Xtensa, m68k, ColdFire and AVR5 (dispatch / loop control, prologue/epilogue inverse, every round block = "
            "specification round under the shared C layout, callee-saved registers / stack pointer / return address "
            "restored, accesses inside the state and the own frame); the masked AVR code is decided only by D1/D2",
    "note": "D1 executes the generator programs (code generators, not code under verification) exactly as "
            "`make generate` does and compares text; D2 inspects assembler output with llvm-readelf; D3/D4 "
            "trust the AT&T-syntax model of the ~30 instruction forms the generators emit (anything else is "
            "exit 2)",
    "technique": "artefact/generator diff, ELF section inspection, abstract interpretation of x86-64 assembly "
                 "(stack height, register provenance, memory footprint)",
    "engines": ["av"],
}


def run(rep, tier):
    _run(rep, tier)
    rule_i386_dispatch(rep)
    rule_x86_rounds(rep, tier)
    rule_i386_rounds(rep, tier)
    rule_m68k_frame(rep)
    rule_risc_rounds(rep, tier)


def rule_risc_rounds(rep, tier):
    """D5r: the ascon_permute of every other ISA (RISC-V 32E / 32I / 64I, AArch64,
    ARMv6, ARMv6-M, ARMv7-M, Xtensa, m68k and ColdFire) computes the
    specification's rounds first_round..11 under the layout it shares with the C
    helpers - see av/asm_risc.py for the four obligations per back end - and
    restores the callee-saved registers, the stack pointer and the return
    address.  Nothing is assembled or run: the text is preprocessed with the
    target's predefined macros and interpreted over bit polynomials."""
    from . import asm_risc
    rid = "C18.D5r"
    rep.rule(rid, "RISC-V / AArch64 / ARM / Xtensa / m68k ascon_permute: every round block is the specification's round "
                  "under the shared C layout (polynomial identity); dispatch, prologue/epilogue and ABI registers")
    for name in asm_risc.BACKENDS:
        asm_risc.rule_rounds(rep, rid, name)
    asm_risc.rule_avr_rounds(rep, rid)
    rep.floor_discharged(rid, 17 * len(asm_risc.BACKENDS) + 14)


def _run(rep, tier):
    rep.explanation = (
        "D1: generators rebuilt from tools/ in a scratch copy, `generate:` recipes replayed with stdout "
        "captured and compared to the checked-in files.  D2: each .S unit of the compilation database "
        "assembled with its real flags, sections listed by llvm-readelf.  D3/D4: abstract interpretation of "
        "the preprocessed x86-64 assembly for every MAX_SHARES variant.")
    rep.undecided = ("the masked AVR assembly beyond D1/D2; functions of the non-x86 files other than ascon_permute")
    rule_generators(rep)
    rule_execstack(rep)
    asm_x86._report(rep, "C18.D3a", tier, "abi",
                    "x86-64: stack pointer and callee-saved registers restored on every path",
                    15 * (3 if tier == "quick" else 27))
    asm_x86._report(rep, "C18.D3f", tier, "footprint",
                    "x86-64: memory accesses stay inside the argument objects and the own stack frame",
                    15 * (3 if tier == "quick" else 27))
    rule_rounds(rep, tier)


# ---------------------------------------------------------------------------
def parse_generate_recipes(tooldir):
    """-> list of (subdir, command argv, output path relative to the repo)"""
    out = []
    for mk in sorted(os.listdir(tooldir)):
        p = os.path.join(tooldir, mk, "Makefile")
        if not os.path.isfile(p):
            continue
        lines = open(p).read().splitlines()
        in_gen = False
        for ln in lines:
            if re.match(r"^generate\s*:", ln):
                in_gen = True
                continue
            if in_gen:
                if ln.startswith("\t"):
                    m = re.match(r"^\t\s*(.+?)\s*>\s*(\S+)\s*$", ln)
                    if m:
                        cmd = m.group(1).replace("$(TARGET)", _make_var(lines, "TARGET"))
                        target = os.path.normpath(os.path.join("tools", mk, m.group(2)))
                        out.append((mk, cmd.split(), target))
                elif ln.strip() == "":
                    continue
                else:
                    in_gen = False
    return out


def _make_var(lines, name):
    for ln in lines:
        m = re.match(r"^%s\s*=\s*(\S+)" % re.escape(name), ln)
        if m:
            return m.group(1)
    return ""


def rule_generators(rep):
    rid = "C18.D1"
    rep.rule(rid, "checked-in assembly equals the generator output byte for byte")
    src_tools = os.path.join(repo.REPO, "tools")
    work = os.path.join(repo.scratch(), "gen")
    os.makedirs(work, exist_ok=True)
    dst = os.path.join(work, "tools")
    shutil.copytree(src_tools, dst, ignore=shutil.ignore_patterns("bin", "*.o"))
    recipes = parse_generate_recipes(dst)
    if len(recipes) < 15:
        raise repo.AnalysisBroken("%s: only %d generate recipes found under tools/" % (rid, len(recipes)))
    dirs = sorted(set(r[0] for r in recipes))
    procs = [(d, subprocess.Popen(["make", "-C", os.path.join(dst, d), "-j4", "all"], stdout=subprocess.PIPE,
                                  stderr=subprocess.STDOUT)) for d in dirs]
    for d, p in procs:
        out, _ = p.communicate(timeout=600)
        if p.returncode != 0:
            raise repo.AnalysisBroken("%s: building the generators in tools/%s failed:\n%s" % (
                rid, d, out.decode(errors="replace")[-800:]))
    covered = set()
    for d, argv, target in recipes:
        rel = target                      # e.g. src/core/ascon-asm-x86-64.S
        covered.add(rel)
        p = subprocess.run(argv, cwd=os.path.join(dst, d), stdout=subprocess.PIPE, stderr=subprocess.PIPE, timeout=300)
        if p.returncode != 0:
            raise repo.AnalysisBroken("%s: generator %s failed: %s" % (rid, " ".join(argv), p.stderr.decode()[-300:]))
        path = os.path.join(repo.REPO, rel)
        try:
            have = open(path, "rb").read()
        except FileNotFoundError:
            rep.violation(rid, rel, path, "the generate recipe `%s` writes %s, which is not checked in" % (" ".join(argv), rel))
            continue
        rep.units.add(rel)
        if have != p.stdout:
            a, b = have.decode(errors="replace").splitlines(), p.stdout.decode(errors="replace").splitlines()
            k = 0
            while k < min(len(a), len(b)) and a[k] == b[k]:
                k += 1
            rep.violation(rid, rel, "%s:%d" % (path, k + 1),
                          "%s differs from the output of `%s` (tools/%s) from line %d: checked in %r, generator emits %r" % (
                              rel, " ".join(argv), d, k + 1, a[k] if k < len(a) else "<eof>", b[k] if k < len(b) else "<eof>"))
        else:
            rep.instance(rid, 1, {"file": rel, "generator": "tools/%s: %s" % (d, " ".join(argv)), "bytes": len(have)})
    # every .S in the source tree must have a generator
    for root in ("src/core", "src/masking"):
        for fn in sorted(os.listdir(os.path.join(repo.REPO, root))):
            if fn.endswith(".S"):
                rel = os.path.join(root, fn)
                if rel not in covered:
                    rep.violation(rid, rel + ":no-generator", os.path.join(repo.REPO, rel),
                                  "%s is checked in but no `generate:` recipe under tools/ produces it" % rel)
    rep.floor(rid, 15)


# ---------------------------------------------------------------------------
def rule_execstack(rep):
    """every assembly unit of the library, assembled with exactly the flags the
    build system gives it, carries a non-executable .note.GNU-stack.  The flags
    are taken from the compilation database of a gcc and of a clang
    configuration: the ELF toolchains the build supports must both get the
    marking (it comes from a configure-time decision in CMakeLists.txt, not
    from the .S files)."""
    rid = "C18.D2"
    rep.rule(rid, "every assembly object carries a non-executable .note.GNU-stack (gcc and clang configurations)")
    for cc in ("gcc", "clang"):
        build = repo.configure(repo.Config("asm", cc=cc))
        units = [u for u in build.units if u.group in ("lib", "libshared") and u.lang == "asm"]
        if len(units) < 30:
            raise repo.AnalysisBroken("%s: only %d assembly units in the compilation database (%s)" % (rid, len(units), cc))
        outdir = os.path.join(build.dir, "asmobj")
        os.makedirs(outdir, exist_ok=True)
        seen = set()
        for u in units:
            if u.rel in seen:
                continue
            seen.add(u.rel)
            obj = os.path.join(outdir, os.path.basename(u.file) + ".o")
            args = [a for a in u.args]
            # replace the output of the real command
            if "-o" in args:
                args[args.index("-o") + 1] = obj
            p = subprocess.run(args, cwd=u.directory, stdout=subprocess.PIPE, stderr=subprocess.PIPE)
            if p.returncode != 0:
                raise repo.AnalysisBroken("%s: cannot assemble %s with the repository's flags (%s): %s" % (
                    rid, u.rel, cc, p.stderr.decode(errors="replace")[-300:]))
            r = repo.run(["llvm-readelf-14", "-S", "-W", obj])
            note = None
            for line in r.stdout.decode().splitlines():
                if ".note.GNU-stack" in line:
                    note = line
            flagsrc = [a for a in u.args if "noexecstack" in a]
            if note is None:
                rep.violation(rid, u.rel, u.file,
                              "object assembled from %s with the flags of the %s configuration has no .note.GNU-stack "
                              "section, so linking it makes the stack executable (the file has no such directive and "
                              "the ASM flags of that configuration contain no --noexecstack)" % (u.rel, cc), config=cc)
            else:
                # flags column: contains X when executable stack is requested
                xflag = bool(re.search(r"PROGBITS\s+\S+\s+\S+\s+\S+\s+\S+\s+\S*X", note))
                if xflag:
                    rep.violation(rid, u.rel, u.file, "%s requests an executable stack (.note.GNU-stack has flag X, %s "
                                  "configuration)" % (u.rel, cc), config=cc)
                else:
                    rep.instance(rid, 1, {"unit": u.rel, "toolchain": cc, "reason": flagsrc or "directive in the file"})
    rep.floor(rid, 30)


# ---------------------------------------------------------------------------
def rule_rounds(rep, tier):
    rid = "C18.D4"
    rep.rule(rid, "x86-64 ascon_permute: jump table of 12 round entries in order, specification round constants")
    n = 0
    for b, res in asm_x86.analyse_all(tier):
        for rel, af, fa in res:
            a = fa.get("ascon_permute")
            if a is None:
                continue
            n += 1
            tabs = [t for t in af.tables.values() if len(t) >= 2]
            if len(tabs) != 1 or len(tabs[0]) != 12:
                rep.violation(rid, "ascon_permute:table", os.path.join(repo.REPO, rel),
                              "ascon_permute has %s jump table(s) with %s entries, expected one with 12" % (
                                  len(tabs), [len(t) for t in tabs]), config=b.cfg.name)
                continue
            table = tabs[0]
            fn = af.funcs["ascon_permute"]
            order = sorted(table, key=lambda l: fn.labels[l])
            if order != table:
                rep.violation(rid, "ascon_permute:table-order", os.path.join(repo.REPO, rel),
                              "jump table entries are not in the order of the round blocks: %s" % table, config=b.cfg.name)
                continue
            bad = []
            for r, lab in enumerate(table):
                rc = a.round_constants.get(lab)
                want = (~oracle.round_constant(r)) & ((1 << 64) - 1)   # x2 is kept inverted
                if rc is None or rc[1] != want:
                    bad.append((r, lab, rc, want))
            if bad:
                r, lab, rc, want = bad[0]
                rep.violation(rid, "ascon_permute:round-constant", os.path.join(repo.REPO, rel),
                              "round %d (label %s) XORs %s, the specification's constant (inverted x2 form) is %#x" % (
                                  r, lab, ("%#x into %%%s" % (rc[1], rc[0])) if rc else "nothing", want), config=b.cfg.name)
            else:
                rep.instance(rid, 12, {"config": b.cfg.name, "rounds": 12})
    if n == 0:
        rep.broken.append("%s: ascon_permute not found in the x86-64 assembly" % rid)


# ---------------------------------------------------------------------------
JCC = {"je": lambda a, b: a == b, "jz": lambda a, b: a == b, "jne": lambda a, b: a != b, "jnz": lambda a, b: a != b,
       "ja": lambda a, b: a > b, "jae": lambda a, b: a >= b, "jnb": lambda a, b: a >= b, "jb": lambda a, b: a < b,
       "jbe": lambda a, b: a <= b, "jna": lambda a, b: a <= b, "jnc": lambda a, b: a >= b, "jc": lambda a, b: a < b}


def rule_i386_dispatch(rep):
    """D4i: the i386 ascon_permute starts at the requested round for *every*
    first_round value.  The dispatch prologue (loads of the stack arguments,
    cmpl $imm / jcc chains, jmp) is interpreted for first_round = 0..13 and 255
    with the register that holds the argument tracked through the stack
    pointer adjustments; the label reached must be the block of that round
    (values >= 12: the exit).  The round blocks must follow each other in
    ascending order without any branch, each beginning with the XOR of that
    round's (bit-interleaved, possibly complemented) constant."""
    rid = "C18.D4i"
    rep.rule(rid, "i386 ascon_permute: every first_round value reaches the block of that round; blocks in order with the specification's constants")
    rel = "src/core/ascon-asm-i386.S"
    path = os.path.join(repo.REPO, rel)
    if not os.path.exists(path):
        rep.broken.append("%s: %s not found" % (rid, rel))
        return
    p = repo.run(["clang", "-E", "-P", "-m32", "-U__CYGWIN32__", "-U_WIN32",
                  "-I", os.path.join(repo.REPO, "src"), "-I", os.path.join(repo.REPO, "src", "core"), "-x", "assembler-with-cpp", path])
    lines = [l.strip() for l in p.stdout.decode(errors="replace").splitlines()]
    lines = [l for l in lines if l and not l.startswith(("#", ".p2align", ".text", ".globl", ".type", ".size", ".section", ".def"))]
    try:
        start = lines.index("ascon_permute:")
    except ValueError:
        rep.broken.append("%s: ascon_permute not found in the preprocessed i386 assembly" % rid)
        return
    body = lines[start + 1:]
    end = next((k for k, l in enumerate(body) if l == "ret"), None)
    if end is None:
        rep.broken.append("%s: no ret in ascon_permute" % rid)
        return
    body = body[:end + 1]
    labels = {l[:-1]: k for k, l in enumerate(body) if l.endswith(":")}
    rlab = {}
    for lab in labels:
        mm = re.fullmatch(r"\.L(\d+)", lab)
        if mm:
            rlab[int(mm.group(1))] = lab
    if sorted(rlab) != list(range(13)):
        rep.violation(rid, "ascon_permute:labels", path, "round labels present: %s, expected .L0 .. .L12" % sorted(rlab))
        return

    def run_dispatch(v):
        esp = 0                 # bytes pushed since entry
        regs = {}               # reg -> ("arg", k) | int
        flags = None
        pc = 0
        steps = 0
        while pc < len(body) and steps < 400:
            steps += 1
            l = body[pc]
            if l.endswith(":"):
                return l[:-1]
            parts = l.split(None, 1)
            op = parts[0]
            args = [a.strip() for a in parts[1].split(",")] if len(parts) > 1 else []
            if op == "pushl":
                esp += 4
            elif op == "subl" and len(args) == 2 and args[1] == "%esp" and args[0].startswith("$"):
                esp += int(args[0][1:], 0)
            elif op == "movl" and len(args) == 2 and re.fullmatch(r"(\d+)\(%esp\)", args[0]) and args[1].startswith("%"):
                off = int(re.fullmatch(r"(\d+)\(%esp\)", args[0]).group(1)) - esp
                regs[args[1]] = ("arg", (off - 4) // 4) if off >= 4 and off % 4 == 0 else None
            elif op == "cmpl" and len(args) == 2 and args[0].startswith("$") and regs.get(args[1]) == ("arg", 1):
                flags = (v, int(args[0][1:], 0) & 0xffffffff)
            elif op in JCC:
                if flags is None:
                    raise ValueError("conditional jump %r without a preceding compare of first_round" % l)
                if JCC[op](flags[0], flags[1]):
                    pc = labels[args[0]]
                    continue
            elif op == "jmp":
                if args[0] not in labels:
                    raise ValueError("jump to unknown label in %r" % l)
                pc = labels[args[0]]
                continue
            else:
                # anything else: must not clobber the register holding first_round or the flags before a jcc
                if len(args) == 2 and regs.get(args[1]) == ("arg", 1) and op not in ("cmpl", "testl"):
                    regs[args[1]] = None
                if op not in ("movl", "notl", "pushl", "leal") and not op.startswith("mov"):
                    flags = None
            pc += 1
        raise ValueError("dispatch did not reach a round label")
    bad = []
    try:
        for v in list(range(14)) + [255, 0x80000000, 0xffffffff]:
            got = run_dispatch(v)
            want = rlab[min(v, 12)]
            if got != want:
                bad.append((v, got, want))
    except ValueError as e:
        rep.unproved_item(rid, "i386 dispatch not interpretable: %s" % e)
        return
    if bad:
        rep.violation(rid, "ascon_permute:dispatch", path,
                      "ascon_permute (i386) with first_round = %s starts at %s; the block of that round is %s" % (
                          ", ".join(str(b[0]) for b in bad[:6]), ", ".join(b[1] for b in bad[:6]), ", ".join(b[2] for b in bad[:6])))
    else:
        rep.instance(rid, 17, {"unit": rel, "first_round_values": "0..13, 255, 2^31, 2^32-1"})
    # order and straight-line fallthrough of the round blocks
    pos = [labels[rlab[r]] for r in range(13)]
    if pos != sorted(pos):
        rep.violation(rid, "ascon_permute:block-order", path, "the round blocks .L0 .. .L12 are not laid out in ascending order")
        return
    for k in range(pos[0], pos[12]):
        op = body[k].split(None, 1)[0]
        if op in JCC or op in ("jmp", "ret", "call") or op.startswith("j"):
            rep.violation(rid, "ascon_permute:block-branch", path, "branch %r between the round blocks (rounds must fall through)" % body[k])
            return
    rep.instance(rid, 1, {"unit": rel, "layout": "ascending, fall-through"})
    # round constants (bit-interleaved halves; x2 kept inverted so either polarity of the constant is the same XOR)
    for r in range(12):
        rc = oracle.round_constant(r)
        ev = sum(((rc >> (2 * i)) & 1) << i for i in range(4))
        od = sum(((rc >> (2 * i + 1)) & 1) << i for i in range(4))
        blk = body[pos[r] + 1:pos[r + 1]]
        imms = [int(re.match(r"xorl\s+\$(-?\d+|0x[0-9a-fA-F]+)", l).group(1), 0) & 0xffffffff for l in blk
                if re.match(r"xorl\s+\$(-?\d+|0x[0-9a-fA-F]+)\s*,", l)]
        okc = len(imms) == 2 and imms[0] in (ev, ~ev & 0xffffffff) and imms[1] in (od, ~od & 0xffffffff)
        if not okc:
            rep.violation(rid, "ascon_permute:round-constant:%d" % r, path,
                          "round %d of the i386 ascon_permute XORs the immediates %s; the specification's constant %#x has "
                          "bit-interleaved halves %#x / %#x" % (r, [hex(x) for x in imms], rc, ev, od))
        else:
            rep.instance(rid, 1)


# ---------------------------------------------------------------------------
def rule_x86_rounds(rep, tier):
    """D5: the x86-64 ascon_permute computes the specification's rounds.

    (a) prologue: the five state words are loaded from 0,8,..,32(%rdi) into
        five registers (one of them complemented); (b) every round block,
        entered with those registers holding prologue(X) and every other
        register unknown, leaves prologue(round_r(X)) in them - a polynomial
        identity over GF(2) in the 320 state bits, exact for all states;
        (c) the epilogue stores the registers back so that epilogue(prologue(X))
        = X and restores the callee-saved registers and the stack pointer;
        (d) first_round >= 12 goes straight to the epilogue.  With the jump
        table of D4 (entry r -> block r, blocks laid out in order and falling
        through) this gives ascon_permute(first_round) = rounds first_round..11."""
    from . import asm_anf
    from .affine import Unsupported, const_bits
    from .rules_c08 import spec_round
    rid = "C18.D5"
    rep.rule(rid, "x86-64 ascon_permute: every round block is the specification's round (polynomial identity), prologue/epilogue are inverse")
    b = repo.configure(repo.Config("asm"))
    target = None
    for u in asm_x86.asm_units(b):
        af = asm_x86.AsmFile(repo.preprocess(u), u.file)
        if "ascon_permute" in af.funcs:
            target = (u, af)
    if target is None:
        rep.broken.append("%s: ascon_permute not found in the x86-64 assembly units" % rid)
        return
    u, af = target
    fn = af.funcs["ascon_permute"]
    tabs = [t for t in af.tables.values() if len(t) == 12]
    if len(tabs) != 1:
        rep.unproved_item(rid, "no unique 12-entry jump table (see C18.D4)")
        return
    table = tabs[0]
    order = sorted(fn.labels, key=lambda l: fn.labels[l])
    after = [l for l in order if fn.labels[l] > fn.labels[table[11]]]
    if not after:
        rep.unproved_item(rid, "no label after the last round block")
        return
    end_label = after[0]
    cmp_idx = next((i.idx for i in fn.insns if i.op == "cmpq"), None)
    if cmp_idx is None:
        rep.unproved_item(rid, "no comparison of first_round in the prologue")
        return
    X = [asm_anf.sym_word("x%d" % k) for k in range(5)]
    saved = {r: asm_anf.sym_word("saved_" + r) for r in ("rbx", "rbp", "r12", "r13", "r14", "r15")}

    def prologue(words, first_round=0):
        mc = asm_anf.Machine(fn)
        mc.regs = dict(saved)
        mc.regs.update({"rdi": asm_anf.PtrVal("state", 0), "rsp": asm_anf.PtrVal("stack", 0), "rsi": const_bits(first_round, 64)})
        mc.written = set(mc.regs)
        for k in range(5):
            mc.mem[("state", 8 * k)] = tuple(words[k])
        mc.run(0, stop_idx=cmp_idx)
        return mc
    try:
        p0 = prologue(X)
        atoms_x = set(("x%d" % k, j) for k in range(5) for j in range(64))

        def depends_on_state(v):
            return not isinstance(v, asm_anf.PtrVal) and any(a in atoms_x for bit in v for mono in bit for a in mono)
        state_regs = sorted(r for r, v in p0.regs.items() if depends_on_state(v))
        if len(state_regs) != 5:
            rep.unproved_item(rid, "the prologue leaves the state in %d registers" % len(state_regs))
            return
        rep.instance(rid, 1, {"prologue_registers": state_regs})
        # (c) epilogue
        ep = asm_anf.Machine(fn)
        ep.regs = {r: p0.regs[r] for r in state_regs + ["rdi", "rsp"]}
        ep.written = set(ep.regs)
        ep.mem = {k: v for k, v in p0.mem.items() if k[0] == "stack"}
        got = ep.run(fn.labels[end_label])
        okc = got == "ret" and all(ep.mem.get(("state", 8 * k)) == tuple(X[k]) for k in range(5)) and \
            ep.regs.get("rsp") == asm_anf.PtrVal("stack", 0) and \
            all(ep.regs.get(r) == saved[r] for r in saved if ("stack", 0) != 0 and any(v == saved[r] for v in p0.mem.values()))
        if not okc:
            bad = [k for k in range(5) if ep.mem.get(("state", 8 * k)) != tuple(X[k])]
            rep.violation(rid, "ascon_permute:epilogue", "%s:%d" % (u.file, fn.insns[fn.labels[end_label]].line),
                          "the epilogue of ascon_permute does not store back what the prologue loaded (state word(s) %s differ, or "
                          "the stack pointer / a callee-saved register is not restored)" % bad, config=b.cfg.name)
        else:
            rep.instance(rid, 1, {"epilogue": "stores the five words back, restores %s" % sorted(
                r for r in saved if any(v == saved[r] for v in p0.mem.values()))})
        # (d) first_round >= 12
        d = prologue(X, 12)
        r = d.run(cmp_idx, stop_labels={end_label} | set(table))
        if r != end_label:
            rep.violation(rid, "ascon_permute:first-round-12", "%s:%d" % (u.file, fn.insns[cmp_idx].line),
                          "first_round = 12 does not go straight to the epilogue (reaches %s)" % r, config=b.cfg.name)
        else:
            rep.instance(rid, 1)
    except Unsupported as e:
        rep.unproved_item(rid, "prologue / epilogue not interpretable: %s" % e)
        return
    # (b) the rounds
    for r in range(12):
        nxt = table[r + 1] if r < 11 else end_label
        try:
            mc = asm_anf.Machine(fn)
            mc.regs = {x: p0.regs[x] for x in state_regs + ["rdi", "rsp"]}
            mc.written = set(mc.regs)
            mc.mem = {k: v for k, v in p0.mem.items() if k[0] == "stack"}
            got = mc.run(fn.labels[table[r]], stop_labels={nxt})
            if got != nxt:
                rep.violation(rid, "ascon_permute:round%d:flow" % r, "%s:%d" % (u.file, fn.insns[fn.labels[table[r]]].line),
                              "round block %d does not fall through to %s (reaches %s)" % (r, nxt, got), config=b.cfg.name)
                continue
            want = prologue(spec_round(X, r))
            bad = [x for x in state_regs if mc.regs.get(x) != want.regs[x]]
            stack_ok = all(mc.mem.get(k) == v for k, v in p0.mem.items() if k[0] == "stack") and mc.regs.get("rsp") == p0.regs["rsp"]
            if bad or not stack_ok:
                rep.violation(rid, "ascon_permute:round%d" % r, "%s:%d" % (u.file, fn.insns[fn.labels[table[r]]].line),
                              "round block %d (label %s) of the x86-64 ascon_permute is not the specification's round %d: register(s) "
                              "%s differ as polynomials in the state bits%s" % (
                                  r, table[r], r, ", ".join("%" + x for x in bad), "" if stack_ok else "; saved registers on the stack are overwritten"),
                              config=b.cfg.name)
            else:
                rep.instance(rid, 1, {"round": r, "label": table[r]})
        except Unsupported as e:
            rep.unproved_item(rid, "round %d: %s" % (r, e))
    rep.floor_discharged(rid, 12)


# ---------------------------------------------------------------------------
def rule_i386_rounds(rep, tier):
    """D5i: the i386 ascon_permute computes the specification's rounds.  The
    state is held bit-interleaved (the layout of the 32-bit C helpers that this
    back end shares with BACKEND_C32); what a memory image stands for is defined
    by those helpers: ascon_extract_bytes of the C32 configuration, interpreted
    over the same bit polynomials (its own correctness is C08.D2).  Decided:
    (a) epilogue(prologue(M)) = M for every memory image M, and the saved
    registers / stack pointer are restored; (b) for every round r:
    decode(epilogue(block_r(prologue(M)))) = round_r(decode(M)) as polynomials
    in the 320 state bits, with every register outside the carried state
    removed before the block runs; (c) prologue(epilogue(R)) = R for a symbolic
    carried state R (five registers + five stack slots), so the blocks compose."""
    from . import asm_anf, affine, modes
    from .affine import Unsupported, const_bits, Ptr
    from .rules_c08 import spec_round, bytes_to_words, words_to_bytes
    rid = "C18.D5i"
    rep.rule(rid, "i386 ascon_permute: every round block is the specification's round on the bit-interleaved state (polynomial identity)")
    rel = "src/core/ascon-asm-i386.S"
    path = os.path.join(repo.REPO, rel)
    p = repo.run(["clang", "-E", "-m32", "-U__CYGWIN32__", "-U_WIN32", "-I", os.path.join(repo.REPO, "src"),
                  "-I", os.path.join(repo.REPO, "src", "core"), "-x", "assembler-with-cpp", path])
    af = asm_x86.AsmFile(p.stdout.decode(errors="replace"), path)
    fn = af.funcs.get("ascon_permute")
    if fn is None:
        rep.broken.append("%s: ascon_permute not found in the preprocessed i386 assembly" % rid)
        return
    labs = {}
    for lab in fn.labels:
        mm = re.fullmatch(r"\.L(\d+)", lab)
        if mm:
            labs[int(mm.group(1))] = lab
    if sorted(labs) != list(range(13)):
        rep.unproved_item(rid, "round labels .L0 .. .L12 not all present (see C18.D4i)")
        return
    cmp_idx = next((i.idx for i in fn.insns if i.op == "cmpl"), None)
    # decoder: the C32 configuration's ascon_extract_bytes
    b = repo.configure(repo.Config("c32"))
    lr = repo.lower(b, group="lib", level="O0", langs=("c",))
    m = modes.load_module(lr.json)

    def cell(off):
        # 4 little-endian bytes of the object "S" at byte offset off -> 32 bit polynomials
        return tuple(affine.atom_bit(("S", off + k // 8, k % 8)) for k in range(32))

    def decode(cells):
        """cells: offset -> 32 polys; -> 320 canonical bits (big-endian bytes as extract_bytes delivers them)"""
        mc = affine.Machine(m)
        st = mc.new_obj("S", 40, symbolic=False)
        for off, v in cells.items():
            mc.store(Ptr("S", off), tuple(v))
        out = mc.new_obj("out", 40, symbolic=False)
        mc.call("ascon_extract_bytes", [st, out, const_bits(0, 32), const_bits(40, 32)])
        return list(mc.load(out, 40))
    saved = {r: asm_anf.sym_word("saved_" + r)[:32] for r in ("rbx", "rbp", "rsi", "rdi")}

    def entry(cells, first_round=0):
        mc = asm_anf.Machine(fn, w=32)
        mc.regs = dict(saved)
        mc.regs["rsp"] = asm_anf.PtrVal("stack", 0)
        mc.written = set(mc.regs)
        mc.mem[("stack", 4)] = asm_anf.PtrVal("state", 0)
        mc.mem[("stack", 8)] = const_bits(first_round, 32)
        for off, v in cells.items():
            mc.mem[("state", off)] = tuple(v)
        return mc
    M = {4 * k: cell(4 * k) for k in range(10)}
    atoms = set(("S", k, j) for k in range(40) for j in range(8))

    def dep(v):
        return not isinstance(v, asm_anf.PtrVal) and any(a in atoms for bit in v for mono in bit for a in mono)
    try:
        p0 = entry(M)
        p0.run(0, stop_idx=cmp_idx)
        sregs = sorted(r for r, v in p0.regs.items() if dep(v))
        sslots = sorted(k for k, v in p0.mem.items() if k[0] == "stack" and dep(v))
        if len(sregs) + len(sslots) != 10:
            rep.unproved_item(rid, "the prologue leaves the state in %d registers and %d stack slots" % (len(sregs), len(sslots)))
            return
        rep.instance(rid, 1, {"carried_registers": sregs, "carried_stack_slots": [k[1] for k in sslots]})

        def carried_machine(src):
            mc = asm_anf.Machine(fn, w=32)
            mc.regs = {r: src.regs[r] for r in sregs + ["rsp"]}
            mc.written = set(mc.regs)
            mc.mem = {k: v for k, v in src.mem.items() if k[0] == "stack"}
            return mc
        # (a)
        ep = carried_machine(p0)
        okc = ep.run(fn.labels[labs[12]]) == "ret" and all(ep.mem.get(("state", off)) == M[off] for off in M) and \
            ep.regs.get("rsp") == asm_anf.PtrVal("stack", 0) and all(ep.regs.get(r) == saved[r] for r in saved)
        if not okc:
            rep.violation(rid, "ascon_permute:epilogue", path, "the i386 epilogue does not store back what the prologue loaded, or does "
                          "not restore %ebx/%ebp/%esi/%edi/%esp")
        else:
            rep.instance(rid, 1, {"epilogue": "inverse of the prologue, saved registers restored"})
        # (c) prologue(epilogue(R)) = R
        R = carried_machine(p0)
        for r in sregs:
            R.regs[r] = asm_anf.sym_word("R_" + r)[:32]
        for k in sslots:
            R.mem[k] = asm_anf.sym_word("R_%d" % k[1])[:32]
        want_regs = {r: R.regs[r] for r in sregs}
        want_mem = {k: R.mem[k] for k in sslots}
        if R.run(fn.labels[labs[12]]) != "ret":
            raise Unsupported("epilogue did not return")
        back = entry({off: R.mem[("state", off)] for off in M})
        back.run(0, stop_idx=cmp_idx)
        if any(back.regs.get(r) != want_regs[r] for r in sregs) or any(back.mem.get(k) != want_mem[k] for k in sslots):
            rep.violation(rid, "ascon_permute:carried-state", path, "prologue(epilogue(R)) differs from R: the round blocks do not compose")
        else:
            rep.instance(rid, 1, {"carried_state": "prologue and epilogue are mutually inverse"})
        before = bytes_to_words(decode(M))
    except Unsupported as e:
        rep.unproved_item(rid, "prologue / epilogue not interpretable: %s" % e)
        return
    for r in range(12):
        try:
            mc = carried_machine(p0)
            nxt = labs[r + 1]
            got = mc.run(fn.labels[labs[r]], stop_labels={nxt})
            if got != nxt:
                rep.violation(rid, "ascon_permute:round%d:flow" % r, path, "round block %d does not fall through to %s" % (r, nxt))
                continue
            if mc.run(fn.labels[labs[12]]) != "ret":
                raise Unsupported("epilogue did not return")
            after = decode({off: mc.mem[("state", off)] for off in M})
            want = words_to_bytes(spec_round(before, r))
            diff = [k for k in range(320) if after[k] != want[k]]
            if diff:
                rep.violation(rid, "ascon_permute:round%d" % r, path,
                              "round block %d (label %s) of the i386 ascon_permute is not the specification's round %d: %d of 320 decoded "
                              "state bits differ as polynomials (first in word %d)" % (r, labs[r], r, len(diff), diff[0] // 64))
            else:
                rep.instance(rid, 1, {"round": r})
        except Unsupported as e:
            rep.unproved_item(rid, "round %d: %s" % (r, e))
    rep.floor_discharged(rid, 12)


# ---------------------------------------------------------------------------
def rule_m68k_frame(rep):
    """D3m: m68k / ColdFire ascon_permute keeps its spills inside the frame it
    allocates: every `-N(%fp)` operand (N bytes below the frame pointer, 4-byte
    accesses) lies within the `link.w %fp, #-F` allocation, and positive
    offsets only address the return linkage and the two arguments.  Checked on
    the text preprocessed for classic 68k and for ColdFire (the two variants
    spill a different number of words).  Memory below the stack pointer may be
    overwritten by an interrupt at any time."""
    rid = "C18.D3m"
    rep.rule(rid, "m68k / ColdFire ascon_permute: frame-relative accesses stay inside the allocated frame")
    rel = "src/core/ascon-asm-m68k.S"
    path = os.path.join(repo.REPO, rel)
    if not os.path.exists(path):
        rep.broken.append("%s: %s not found" % (rid, rel))
        return
    for variant, defs in (("m68k", []), ("coldfire", ["-D__mcoldfire__=1"])):
        p = repo.run(["clang", "-E", "-P", "-undef", "-D__m68k__=1"] + defs + ["-I", os.path.join(repo.REPO, "src"),
                      "-I", os.path.join(repo.REPO, "src", "core"), "-x", "assembler-with-cpp", path])
        lines = [l.strip() for l in p.stdout.decode(errors="replace").splitlines() if l.strip()]
        links = [l for l in lines if l.startswith("link")]
        if len(links) != 1:
            rep.unproved_item(rid, "%s: %d link instructions" % (variant, len(links)))
            continue
        mm = re.search(r"#-(\d+)", links[0])
        if not mm:
            rep.unproved_item(rid, "%s: frame size not recognised in %r" % (variant, links[0]))
            continue
        frame = int(mm.group(1))
        offs = [int(x) for l in lines for x in re.findall(r"(-?\d+)\(%fp\)", l)]
        if len(offs) < 10:
            rep.broken.append("%s: only %d frame accesses found in the %s variant" % (rid, len(offs), variant))
            continue
        low = min(offs)
        bad_low = sorted(set(o for o in offs if o < -frame))
        bad_mis = sorted(set(o for o in offs if o < 0 and o % 4))
        bad_high = sorted(set(o for o in offs if o > 12))
        # movem / pre-decrement pushes below the frame are stack allocation by the instruction itself: not %fp-relative
        if bad_low or bad_mis or bad_high:
            rep.violation(rid, "ascon_permute:%s:frame" % variant, path,
                          "the %s variant of the m68k ascon_permute allocates a frame of %d bytes (%s) but accesses %s(%%fp): the "
                          "word at or below the stack pointer can be overwritten by an interrupt between the spill and the reload" % (
                              variant, frame, links[0], ", ".join(str(o) for o in (bad_low or bad_mis or bad_high))))
        else:
            rep.instance(rid, 1, {"variant": variant, "frame": frame, "lowest_offset": low, "accesses": len(offs)})
