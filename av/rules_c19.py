"""C19 - command-line tools: error discipline, failure reaches the exit status,
no partial output, writer/reader constants agree.

The tools' control flow is explored as a finite transition system: states are
(basic block, incoming edge, valuation of the function's status-variable web,
first failed call site, output-opened flag, output-deleted flag).  Only the
status web is interpreted (constants, phis, selects, comparisons with
constants); a branch that tests the result of an error-signalling call is
followed both ways, and the successor that the callee's *failure values* select
is marked as "this call failed".  Obligations at every return state:
  D1  the result of every error-signalling call is tested (not discarded)
  D2  if some call failed on the path, the function reports failure
      (helpers return 0; main returns non-zero)
  D3  if the output file was opened and the function reports failure, the path
      passed through safe_file_delete(&output)
  D4  magic / version constants agree between encrypt_file and decrypt_file
The failure values of callees defined in the tools are computed from their
own return statements (constants returned on paths that report an error with
perror / fprintf(stderr)); library callees use their documented contract.
Undecided: round trip, tamper detection for every byte, behaviour under
injected I/O faults at run time.
"""
from . import ceval, ir, ptr, repo

LEVEL = "other"
MANIFEST = {
    "text": "decides the error discipline of asconcrypt and asconsum: no error-signalling result is discarded, "
            "every failure value of every such callee (in-tool functions, documented library contracts, and "
            "read/write/open inside the tools' own I/O wrappers) drives the caller to its failure status (and "
            "main to a non-zero exit) unless the same call is retried, a failing path after the output was opened "
            "passes through the delete-output call, the writer/reader format constants agree, D5 the per-file "
            "code of main's loop does not write a global that the next file's processing reads as it finds it, "
            "D6 the output file is created and truncated when opened and D7 a stream-decrypting function returns "
            "success only along paths through the tag comparison, D8 the library chain behind ascon_random reports a "
            "failing system source, D9 asconsum -c never prints OK for a file whose fopen failed; decided by exhaustive exploration of a "
            "finite abstraction of each function and by effect summaries; asconsum's fopen/ferror error counters "
            "and all run-time behaviours (round trip for every content, tamper detection, real I/O faults) are "
            "not decided",
    "note": "trusted: clang lowering, irdump; documented contracts of ascon_random (0 = failure) and of the "
            "library decrypt functions (negative = failure); libc I/O semantics (fread/fwrite/ferror) are "
            "modelled only through the tools' own wrappers",
    "technique": "finite-state abstract exploration of the CFG (status-variable web with trace partitioning), "
                 "return value-set extraction of callees, call-result usage analysis",
    "engines": ["irdump", "av"],
}

# documented failure values of library / libc callees
EXTERNAL_FAILURE = {
    "ascon_random": {0},
    "ascon80pq_aead_decrypt_finalize": {-1},
    "ascon80pq_siv_decrypt": {-1},
    "ascon128_siv_decrypt": {-1},
    "ascon128a_siv_decrypt": {-1},
}
# system / stdio primitives the tools' own I/O wrappers are built on: value that signals an error.  Their
# results need not be stored (D1 does not apply), but a wrapper that sees the error value must report failure
# itself (D2) unless it retries the same call.
IO_PRIMITIVES = {"read": {-1}, "write": {-1}, "open": {-1}}
# (asconsum's fopen / ferror results flow into error *counters*; the status web does not interpret counters,
#  so those two are not modelled: undecided rather than alarmed)
ERROR_REPORTERS = {"perror", "fprintf", "fputs", "fwrite"}
NOT_STATUS = {"safe_file_close", "safe_file_delete"}


def run(rep, tier):
    rep.explanation = (
        "Both tools are lowered to IR (-O0+SROA) and every function is explored as a finite transition "
        "system over its status-variable web.  Failure values of in-tool callees are computed from their "
        "return statements; each call site's test is evaluated on those values to find the successor taken "
        "on failure.")
    rep.undecided = "file round trip, detection of every modification, behaviour under real I/O faults and crashes"
    rep.rule("C19.D1", "the result of every error-signalling call is tested, not discarded")
    rep.rule("C19.D2", "when a call fails, the function reports failure (wrappers: their own failure value; main: non-zero exit)")
    rep.rule("C19.D3", "a failure after the output file was opened passes through the deletion of that file")
    build = repo.configure(repo.DEFAULT)
    for group in ("asconcrypt", "asconsum"):
        lr = repo.lower(build, group=group, level="O0", scev=True)
        m = ir.Module.load(lr.json)
        rep.configs.append(group)
        rep.units.update(lr.units)
        fail = failure_values(m)
        for f in m.defined():
            if not f.srcfile.startswith(repo.REPO):
                continue
            rep.functions += 1
            explore(rep, m, f, fail, group)
        if group == "asconcrypt":
            # the reader's header test may live in a file-local helper: judge encrypt_file / decrypt_file with their
            # helpers inlined
            lri = repo.lower(build, group=group, level="O0", inline_internal=True)
            rule_format(rep, ir.Module.load(lri.json))
        rule_loop_state(rep, m, group, build)
        if group == "asconsum":
            rule_ok_only_when_read(rep, m)
        if group == "asconcrypt":
            rule_open_flags(rep, m, build)
            rule_tag_before_success(rep, ir.Module.load(lri.json), fail)
    rule_entropy_chain(rep, build)
    rep.floor("C19.D1", 18)      # about half of the call sites of today's tree: refactorings merge and split them
    rep.floor("C19.D2", 10)
    rep.floor("C19.D3", 2)


# ---------------------------------------------------------------------------
def failure_values(m):
    """callee name -> set of failure return constants"""
    out = dict(EXTERNAL_FAILURE)
    out.update(IO_PRIMITIVES)
    for f in m.defined():
        if f.d["ret"] == "void" or f.name == "main":
            continue
        err_blocks = set()
        for b in f.blocks:
            for i in b.insts:
                if i.op == "call" and i.callee in ERROR_REPORTERS:
                    err_blocks.add(b.name)
        if not err_blocks:
            continue
        dom = f.dominators()
        vals = set()
        for b in f.blocks:
            t = b.term
            if t.op != "ret" or not t.ops:
                continue
            # constant leaves of the returned value through nested phis,
            # each with the block it comes from
            leaves, seenv, work = [], set(), [(t.ops[0], b.name)]
            while work:
                v, frm = work.pop()
                c = ir.const_int(v)
                if c is not None:
                    leaves.append((c, frm))
                    continue
                if not ir.is_local(v) or v in seenv:
                    continue
                seenv.add(v)
                d = f.defs.get(v)
                if d is not None and d.op == "phi":
                    work.extend((x, p2) for x, p2 in d.d["inc"])
            for c, frm in leaves:
                # the constant is a failure value if it is produced right after
                # an error was reported
                if frm in err_blocks or dom[frm] & err_blocks or \
                        any(p3.name in err_blocks for p3 in f.bmap[frm].preds):
                    vals.add(c)
        if vals:
            out[f.name] = vals
    return out


def _slice_to_call(f, v, depth=0):
    """if value v is computed only from the result of one call and constants,
    return that call instruction"""
    if not ir.is_local(v) or depth > 8:
        return None
    d = f.defs.get(v)
    if d is None:
        return None
    if d.op in ("call", "invoke"):
        return d
    if d.op in ("icmp", "zext", "sext", "trunc", "xor", "and", "or"):
        found = None
        for o in d.ops:
            if ir.const_int(o) is not None or o == "null":
                continue
            c = _slice_to_call(f, o, depth + 1)
            if c is None:
                return None
            if found is not None and found is not c:
                return None
            found = c
        return found
    return None


def _eval_with(f, v, call, value, depth=0):
    if ir.const_int(v) is not None:
        return ir.const_int(v)
    if v == "null":
        return 0
    d = f.defs.get(v) if ir.is_local(v) else None
    if d is None or depth > 8:
        return None
    if d is call:
        return value
    env = {}
    for o in d.ops:
        if ir.is_local(o):
            x = _eval_with(f, o, call, value, depth + 1)
            if x is None:
                return None
            env[o] = x
    return ceval.step(d, env)


def status_web(f):
    """SSA values that can flow into the return value (for reporting)"""
    web = set()
    work = []
    for b in f.blocks:
        if b.term.op == "ret" and b.term.ops and ir.is_local(b.term.ops[0]):
            work.append(b.term.ops[0])
    while work:
        v = work.pop()
        if v in web:
            continue
        d = f.defs.get(v)
        if d is None:
            continue
        web.add(v)
        if d.op == "phi":
            work.extend(x for x, _ in d.d["inc"] if ir.is_local(x))
        elif d.op in ("select", "zext", "sext", "trunc", "icmp", "and", "or", "xor"):
            work.extend(x for x in d.ops if ir.is_local(x))
    return web


def flag_web(f, seeds=()):
    """integer phis / selects and the comparisons, casts and logic computed
    from them.  Operands outside the web (arithmetic, loads, other calls)
    evaluate to "unknown", so loop counters contribute at most their constant
    initial value and the set of valuations stays finite."""
    web = set(i.id for i in f.insts() if i.op in ("phi", "select") and i.ty.startswith("i"))
    web |= set(seeds)        # results of the checked calls: known on the path where that call is assumed to fail
    changed = True
    while changed:
        changed = False
        for i in f.insts():
            if i.id and i.id not in web and i.op in ("icmp", "zext", "sext", "trunc", "xor", "and", "or"):
                if all(ir.const_int(o) is not None or (ir.is_local(o) and o in web) for o in i.ops):
                    web.add(i.id)
                    changed = True
    return web


def explore(rep, m, f, fail, group):
    is_main = f.name == "main"
    web = flag_web(f)
    R = ptr.resolver(f)
    uses = f.uses()
    # ---- D1: results of error-signalling calls are used
    checked = {}
    for c in f.calls():
        cal = c.callee
        if cal not in fail or cal in NOT_STATUS:
            continue
        if (not c.id or not uses.get(c.id)) and cal in IO_PRIMITIVES:
            continue
        if not c.id or not uses.get(c.id):
            rep.violation("C19.D1", "%s:%s:discarded" % (f.name, cal), c.where(),
                          "%s ignores the result of %s, which signals failure by returning %s" % (
                              f.name, cal, sorted(fail[cal])), config=group)
            continue
        checked[c.id] = c
        rep.instance("C19.D1", 1, {"tool": group, "function": f.name, "callee": cal, "failure_values": sorted(fail[cal])})
    if f.d["ret"] == "void":
        return
    web = flag_web(f, seeds=checked.keys())
    # ---- exploration
    out_alloca = None
    for c in f.calls("safe_file_open_write"):
        root = R.resolve(c.ops[0]).single()
        if root and root[0] == "alloca":
            out_alloca = root[1]
    # branches that test (only) the result of a checked call
    tests = {}
    for b in f.blocks:
        t = b.term
        if t.op == "br" and t.ops and len(t.succs) == 2:
            c = _slice_to_call(f, t.ops[0])
            if c is not None and c.id in checked:
                tests[b.name] = c
    # state: (block, prev, flag valuation, failed call id, its failure value, opened, deleted, start index)
    start = (f.blocks[0].name, None, frozenset(), None, None, False, False, 0)
    seen = {start}
    work = [start]
    reported = set()
    tested_sites = set()
    nstates = 0
    while work:
        bname, prev, envf, failed, fval, opened, deleted, sidx = work.pop()
        nstates += 1
        if nstates > 400000:
            raise repo.AnalysisBroken("C19: state space of %s too large" % f.name)
        env = dict(envf)
        b = f.bmap[bname]
        forked = False
        for i in b.insts[sidx:]:
            if i.op == "phi":
                if i.id in web:
                    val = None
                    for v, p in i.d["inc"]:
                        if p == prev:
                            val = ceval.value(env, v)
                    if val is None:
                        env.pop(i.id, None)
                    else:
                        env[i.id] = val
                continue
            if i.id in web and i.op not in ("call", "invoke", "load"):
                v = ceval.step(i, env)
                if v is None:
                    env.pop(i.id, None)
                else:
                    env[i.id] = v
                continue
            if i.op in ("call", "invoke"):
                if i.callee == "safe_file_delete" and out_alloca and \
                        R.resolve(i.ops[0]).single() == ("alloca", out_alloca):
                    deleted = True
                if i.callee in ("exit", "abort", "_exit"):
                    forked = True       # path ends
                    break
                if i.id in checked and failed == i.id and i.callee in IO_PRIMITIVES:
                    failed, fval = None, None      # the same primitive is attempted again (EINTR / short transfer loop)
                if i.id in checked and failed is None:
                    # single-failure scenarios: this call fails with each of its failure values
                    for fv in sorted(fail[i.callee]):
                        e2 = dict(env)
                        e2[i.id] = fv
                        st = (bname, prev, frozenset(e2.items()), i.id, fv, opened, deleted, i.idx + 1)
                        if st not in seen:
                            seen.add(st)
                            work.append(st)
                if i.id in checked and i.callee == "safe_file_open_write" and failed != i.id:
                    opened = True
        if forked:
            continue
        t = b.term
        if t.op == "ret":
            rv = ceval.value(env, t.ops[0]) if t.ops else None
            if failed is not None:
                c = checked[failed]
                bad = (rv is None) or (rv == 0 if is_main else rv != 0)
                if bad and rv is None and c.callee in IO_PRIMITIVES and t.ops and _returns_parameter(f, t.ops[0], bname, prev):
                    # a shared worker that returns the error value its caller handed in: decided in the callers
                    # (the wrappers are explored on the inlined view below as well)
                    continue
                own = fail.get(f.name)
                if c.callee in IO_PRIMITIVES and not is_main and own:
                    bad = rv is None or rv not in own      # the wrapper's own failure value(s)
                key = ("D2", failed)
                if bad and key not in reported:
                    reported.add(key)
                    rep.violation("C19.D2", "%s:%s@%d" % (f.name, c.callee, _ordinal(f, c)), c.where(),
                                  "when %s fails (returns %d) at %s, %s can still return %s, i.e. the failure is %s" % (
                                      c.callee, fval, c.where(), f.name,
                                      "an undetermined value" if rv is None else rv,
                                      "not turned into a non-zero exit status" if is_main else "reported as success"),
                                  config=group)
            if opened and not deleted and not is_main and rv == 0:
                key = ("D3",)
                if key not in reported:
                    reported.add(key)
                    rep.violation("C19.D3", "%s:partial-output" % f.name, t.where(),
                                  "%s can return failure after the output file was opened without deleting it" % f.name,
                                  config=group)
            continue
        nexts = []
        if t.op == "br" and t.ops and len(t.succs) == 2:
            cv = ceval.value(env, t.ops[0]) if ir.is_local(t.ops[0]) and t.ops[0] in web else None
            tc = tests.get(bname)
            if cv is not None and tc is not None and failed == tc.id:
                tested_sites.add(tc.id)
            if cv is None and tc is not None and failed == tc.id:
                cv = _eval_with(f, t.ops[0], tc, fval)
                tested_sites.add(tc.id)
            if cv is not None:
                nexts = [t.succs[0] if cv & 1 else t.succs[1]]
            elif tc is not None:
                # the call succeeded on this path: follow the successors that
                # representative non-failure results select
                reps = set([0, 1, 2, 3])
                for ii in f.insts():
                    if ii.op == "icmp" and _slice_to_call(f, ii.id) is tc:
                        for o in ii.ops:
                            k = ir.const_int(o)
                            if k is not None:
                                reps |= {k - 1, k, k + 1}
                reps -= set(fail[tc.callee])
                got = set()
                for rv2 in reps:
                    r2 = _eval_with(f, t.ops[0], tc, rv2)
                    if r2 is None:
                        got = set(t.succs)
                        break
                    got.add(t.succs[0] if r2 & 1 else t.succs[1])
                nexts = [x for x in t.succs if x in got]
            else:
                nexts = list(t.succs)
        elif t.op == "switch" and ir.is_local(t.ops[0]) and t.ops[0] in web and ceval.value(env, t.ops[0]) is not None:
            cv = ceval.value(env, t.ops[0])
            nx = t.succs[0]
            for case, sx in zip(t.d["cases"], t.succs[1:]):
                if (case & 0xffffffff) == (cv & 0xffffffff):
                    nx = sx
            nexts = [nx]
        else:
            nexts = list(t.succs)
        for sx in nexts:
            st = (sx, bname, frozenset(env.items()), failed, fval, opened, deleted, 0)
            if st not in seen:
                seen.add(st)
                work.append(st)
    for cid, c in checked.items():
        if ("D2", cid) not in reported:
            tested = cid in tested_sites
            if tested or _returned(f, c):
                rep.instance("C19.D2", 1, {"tool": group, "function": f.name, "callee": c.callee, "site": c.where()})
            else:
                rep.unproved_item("C19.D2", "%s: the test applied to %s at %s has an unrecognised shape" % (
                    f.name, c.callee, c.where()))
    if out_alloca:
        if ("D3",) not in reported:
            rep.instance("C19.D3", 1, {"tool": group, "function": f.name, "states": nstates})


def _returns_parameter(f, v, bname, prev, depth=0):
    """is the returned value, on the path that arrives from `prev`, a parameter of the function (through casts)?"""
    if v in f.params:
        return True
    d = f.defs.get(v) if ir.is_local(v) else None
    if d is None or depth > 6:
        return False
    if d.op in ("zext", "sext", "trunc"):
        return _returns_parameter(f, d.ops[0], bname, prev, depth + 1)
    if d.op == "phi":
        vals = [x for x, p in d.d["inc"]]
        return any(_returns_parameter(f, x, bname, prev, depth + 1) for x in vals)
    return False


def _returned(f, c):
    web = status_web(f)
    return c.id in web


def _ordinal(f, c):
    n = 0
    for x in f.calls(c.callee):
        if x is c:
            return n
        n += 1
    return n


# ---------------------------------------------------------------------------
def rule_format(rep, m):
    rid = "C19.D4"
    rep.rule(rid, "magic and version constants agree between encrypt_file (writer) and decrypt_file (reader)")
    enc, dec = m.funcs.get("encrypt_file"), m.funcs.get("decrypt_file")
    if enc is None or dec is None:
        raise repo.AnalysisBroken("encrypt_file / decrypt_file not found in asconcrypt")

    def header_alloca(f, io):
        """the stack object whose start is handed to the first write (encrypt) / read (decrypt) of the file:
        the header, wherever it lives (its own array, or the first member of a larger record)"""
        R = ptr.resolver(f)
        calls = [c for c in f.calls(io)]
        first = None
        for c in calls:
            if all(f.dominates(c, o) or c is o for o in calls):
                first = c
        if first is None and calls:
            first = sorted(calls, key=lambda c: (c.block.name != f.blocks[0].name, c.idx))[0]
        if first is None:
            return None
        pv = R.resolve(first.ops[1]) if len(first.ops) > 1 else None
        root = pv.single() if pv is not None else None
        if root and root[0] == "alloca" and pv.offset == 0:
            return root[1]
        return None
    he, hd = header_alloca(enc, "safe_file_write"), header_alloca(dec, "safe_file_read")
    if he is None or hd is None:
        rep.unproved_item(rid, "the object written first by encrypt_file / read first by decrypt_file is not a local of the function")
        return
    # writer image: constant bytes stored into the header
    Re = ptr.resolver(enc)
    wimg = {}
    for i in enc.insts():
        if i.op == "store":
            pv = Re.resolve(i.ops[1])
            c = ir.const_uint(i.ops[0])
            if pv.single() == ("alloca", he) and pv.offset is not None and not pv.variable and c is not None:
                for k in range(i.d["sz"]):
                    wimg[pv.offset + k] = (c >> (8 * k)) & 0xff
        elif i.op == "call" and ptr.is_memcpy(i):
            pv = Re.resolve(i.ops[0])
            n = ir.const_int(i.ops[2])
            gs = list(ir.globals_in(i.ops[1]))
            if pv.single() == ("alloca", he) and pv.offset is not None and n is not None and gs:
                gv = m.globals.get(gs[0])
                if gv is not None and gv.get("bytes"):
                    so = Re.resolve(i.ops[1]).offset or 0
                    data = bytes.fromhex(gv["bytes"])[so:so + n]
                    for k, bt in enumerate(data):
                        wimg[pv.offset + k] = bt
    # reader image: what decrypt_file requires of the header
    Rd = ptr.resolver(dec)
    rimg = {}
    for i in dec.insts():
        if i.op == "call" and i.callee in ("memcmp", "bcmp", "strncmp"):
            n = ir.const_int(i.ops[2])
            for a, o in ((i.ops[0], i.ops[1]), (i.ops[1], i.ops[0])):
                pv = Rd.resolve(a)
                gs = list(ir.globals_in(o))
                if pv.single() == ("alloca", hd) and pv.offset is not None and n is not None and gs:
                    gv = m.globals.get(gs[0])
                    if gv is not None and gv.get("bytes"):
                        for k, bt in enumerate(bytes.fromhex(gv["bytes"])[:n]):
                            rimg[pv.offset + k] = bt
        elif i.op == "icmp" and i.d["pred"] in ("eq", "ne"):
            c = ir.const_int(i.ops[1])
            src = i.ops[0]
            d = dec.defs.get(src) if ir.is_local(src) else None
            while d is not None and d.op in ("zext", "sext"):
                src = d.ops[0]
                d = dec.defs.get(src) if ir.is_local(src) else None
            if d is not None and d.op == "load" and c is not None and d.d["sz"] == 1:
                pv = Rd.resolve(d.ops[0])
                if pv.single() == ("alloca", hd) and pv.offset is not None and not pv.variable:
                    rimg[pv.offset] = c & 0xff
    if len(rimg) < 12:
        rep.unproved_item(rid, "only %d constant header byte(s) of the reader recognised in this shape" % len(rimg))
        return
    bad = [k for k in sorted(rimg) if wimg.get(k) != rimg[k]]
    if bad:
        rep.violation(rid, "header-constants", dec.src,
                      "decrypt_file requires header byte(s) %s to be %s but encrypt_file writes %s" % (
                          bad, [rimg[k] for k in bad], [wimg.get(k) for k in bad]))
    else:
        rep.instance(rid, len(rimg), {"header_bytes_checked": len(rimg),
                                      "magic": bytes(rimg[k] for k in sorted(rimg) if k < 10).decode("latin1")})


# ---------------------------------------------------------------------------
# external callees: (argument indices read through, argument indices written through); anything not listed is
# treated as a reader of its pointer arguments (so an unknown callee can never create an alarm here)
EXT_EFFECTS = {
    "memset": ((), (0,)), "memcpy": ((1,), (0,)), "memmove": ((1,), (0,)), "strncpy": ((1,), (0,)), "strcpy": ((1,), (0,)),
    "snprintf": ((2, 3, 4, 5), (0,)), "sprintf": ((1, 2, 3, 4), (0,)), "ascon_clean": ((), (0,)), "explicit_bzero": ((), (0,)),
    "read": ((), (1,)), "fread": ((), (0,)), "fgets": ((), (0,)), "ascon_random": ((), (0,)), "ascon_pbkdf2": ((2, 4), (0,)),
}


def _effects(m):
    """per defined function: list of (instruction, 'R'|'W', root) with root a global or a pointer parameter,
    callee effects mapped through the arguments; plus the derived sets R, W and UR (read before any dominating write)"""
    order = m.bottom_up()
    summ = {}
    for f in order:
        if f.decl or not f.blocks:
            continue
        R = ptr.resolver(f)
        eff = []

        def roots(v):
            if isinstance(v, dict):
                return [("global", g) for g in ir.globals_in(v)]       # constant expression over a global's address
            if not isinstance(v, str):
                return []
            if ir.is_global(v):
                return [("global", v[1:])]
            pv = R.resolve(v)
            return [r for r in pv.roots if r[0] in ("global", "param")]
        for i in f.insts():
            if i.op == "load":
                eff += [(i, "R", r) for r in roots(i.ops[0])]
            elif i.op == "store":
                eff += [(i, "W", r) for r in roots(i.ops[1])]
            elif i.op in ("call", "invoke"):
                cal = i.callee or ""
                if cal.startswith("llvm.dbg") or cal.startswith("llvm.lifetime"):
                    continue
                if ptr.is_memset(i):
                    eff += [(i, "W", r) for r in roots(i.ops[0])]
                elif ptr.is_memcpy(i):
                    eff += [(i, "W", r) for r in roots(i.ops[0])] + [(i, "R", r) for r in roots(i.ops[1])]
                elif cal in summ:
                    g = m.funcs[cal]
                    cs = summ[cal]
                    for kind, key in (("R", "UR"), ("W", "W")):
                        for root in cs[key]:
                            if root[0] == "global":
                                eff.append((i, kind, root))
                            elif root[1] in g.params:
                                k = g.params.index(root[1])
                                if k < len(i.ops):
                                    eff += [(i, kind, r) for r in roots(i.ops[k])]
                else:
                    rd, wr = EXT_EFFECTS.get(cal, (None, ()))
                    for k, a in enumerate(i.ops):
                        rs = roots(a)
                        if not rs:
                            continue
                        if k in wr:
                            eff += [(i, "W", r) for r in rs]
                        elif rd is None or k in rd:
                            eff += [(i, "R", r) for r in rs]
        W = set(r for _i, k, r in eff if k == "W")
        Rd = set(r for _i, k, r in eff if k == "R")
        UR = set()
        for i, k, r in eff:
            if k != "R":
                continue
            covered = any(k2 == "W" and r2 == r and i2 is not i and f.dominates(i2, i) for i2, k2, r2 in eff)
            if not covered:
                UR.add(r)
        summ[f.name] = {"eff": eff, "W": W, "R": Rd, "UR": UR}
    return summ


def rule_loop_state(rep, m, group, build):
    """D5: what main's per-file loop hands from one file to the next.  A global
    that the processing of a file reads as it finds it (password, options) must
    not be written by the processing of a file, unless the loop body itself
    re-initialises it before that read - otherwise the second and later files of
    one invocation are processed with different inputs than the first (for
    example under an empty password)."""
    rid = "C19.D5"
    rep.rule(rid, "per-file processing does not modify the globals that the next file's processing starts from")
    main = m.funcs.get("main")
    if main is None or main.decl:
        raise repo.AnalysisBroken("%s: main not found in %s" % (rid, group))
    summ = _effects(m)
    # natural loops of main: blocks that can reach themselves; calls inside
    reach = {b.name: main.reachable_from(b) for b in main.blocks}
    inloop = set(b.name for b in main.blocks if any(b.name in reach[s.name] for s in b.succs))
    calls = [c for c in main.calls() if c.block.name in inloop and (c.callee or "") in summ]
    if not calls:
        rep.unproved_item(rid, "%s: no call to a tool function inside a loop of main" % group)
        return
    meff = summ["main"]["eff"]
    n = 0
    for c in calls:
        for root in sorted(summ[c.callee]["UR"]):
            if root[0] != "global":
                continue
            writers = [c2 for c2 in calls if root in summ[c2.callee]["W"]] + \
                [i for i, k, r in meff if k == "W" and r == root and i.block.name in inloop and i.op != "call"]
            if not writers:
                n += 1
                continue
            # re-initialised by the loop body before this read?
            reinit = any(w is not c and main.dominates(w, c) and w.block.name in inloop for w in writers)
            if reinit:
                n += 1
                continue
            w = writers[0]
            rep.violation(rid, "%s:%s" % (c.callee, root[1].lstrip("@")), w.where(),
                          "%s reads the global %s as the previous file's processing left it, and %s (called for every file in "
                          "main's loop) writes it: the second and later files of one invocation are processed with a different "
                          "value than the first" % (c.callee, root[1].lstrip("@"),
                                                    w.callee if w.op == "call" else "main"), config=group)
    rep.instance(rid, n, {"tool": group, "loop_calls": sorted(set(c.callee for c in calls))})


def rule_open_flags(rep, m, build):
    """D6: the output file starts empty.  Whatever opens the output for writing
    must create it and truncate an existing file (open(2) with O_CREAT and
    O_TRUNC and a write access mode, or fopen with a "w" mode): otherwise the
    tail of an older, longer file survives behind the new contents - the
    decrypted file is not the original, and an encrypted file is rejected as
    corrupt.  The input is opened read-only.  Flag values are taken from the
    platform's <fcntl.h> through the preprocessor."""
    rid = "C19.D6"
    rep.rule(rid, "the output file is created and truncated when opened; the input is opened read-only")
    us = build.group("asconcrypt", ("c",))
    src = "#include <fcntl.h>\n"
    p = repo.run(["clang", "-E", "-dM", "-x", "c"] + us[0].flags() + ["-"], cwd=us[0].directory, stdin=src.encode())
    mac = {}
    for line in p.stdout.decode(errors="replace").splitlines():
        parts = line.split(None, 2)
        if len(parts) == 3 and parts[0] == "#define" and parts[1] in ("O_TRUNC", "O_CREAT", "O_WRONLY", "O_RDWR", "O_ACCMODE", "O_RDONLY"):
            try:
                v = parts[2].strip()
                mac[parts[1]] = int(v, 8) if (len(v) > 1 and v[0] == "0" and v.isdigit()) else int(v, 0)
            except ValueError:
                pass
    if not {"O_TRUNC", "O_CREAT", "O_WRONLY", "O_ACCMODE"} <= set(mac):
        rep.unproved_item(rid, "open(2) flag macros not available as plain constants")
        return
    for fname, writing in (("safe_file_open_write", True), ("safe_file_open_read", False)):
        f = m.funcs.get(fname)
        if f is None or f.decl:
            rep.unproved_item(rid, "%s not found" % fname)
            continue
        opens = [c for c in f.calls() if c.callee in ("open", "open64", "fopen", "fopen64")]
        if not opens:
            rep.unproved_item(rid, "%s: no open/fopen call" % fname)
            continue
        for c in opens:
            if c.callee.startswith("fopen"):
                gs = list(ir.globals_in(c.ops[1])) if len(c.ops) > 1 else []
                mode = bytes.fromhex(m.globals[gs[0]]["bytes"]).split(b"\0")[0].decode("latin1") if gs and m.globals.get(gs[0], {}).get("bytes") else None
                if mode is None:
                    rep.unproved_item(rid, "%s: fopen mode is not a constant string" % fname)
                elif writing and not mode.startswith("w"):
                    rep.violation(rid, "%s:mode" % fname, c.where(), "%s opens the output with fopen mode %r: an existing file is not "
                                  "truncated, its old tail survives behind the new contents" % (fname, mode), config="asconcrypt")
                elif not writing and not mode.startswith("r"):
                    rep.violation(rid, "%s:mode" % fname, c.where(), "%s opens the input with fopen mode %r" % (fname, mode), config="asconcrypt")
                else:
                    rep.instance(rid, 1, {"function": fname, "fopen_mode": mode})
                continue
            fl = ir.const_int(c.ops[1]) if len(c.ops) > 1 else None
            if fl is None:
                rep.unproved_item(rid, "%s: open flags are not a constant" % fname)
                continue
            acc = fl & mac["O_ACCMODE"]
            if writing:
                missing = [n for n in ("O_CREAT", "O_TRUNC") if not fl & mac[n]]
                if acc not in (mac["O_WRONLY"], mac.get("O_RDWR", -1)):
                    missing.append("a write access mode")
                if missing:
                    rep.violation(rid, "%s:flags" % fname, c.where(),
                                  "%s opens the output with flags %#o, without %s: an existing longer file keeps its old tail behind "
                                  "the new contents, so decrypt(encrypt(x)) is not x and a re-encrypted file is rejected as corrupt" % (
                                      fname, fl, " and ".join(missing)), config="asconcrypt")
                else:
                    rep.instance(rid, 1, {"function": fname, "flags": oct(fl)})
            else:
                if acc != mac.get("O_RDONLY", 0) or fl & (mac["O_TRUNC"] | mac["O_CREAT"]):
                    rep.violation(rid, "%s:flags" % fname, c.where(), "%s opens the input with flags %#o (not read-only)" % (fname, fl),
                                  config="asconcrypt")
                else:
                    rep.instance(rid, 1, {"function": fname, "flags": oct(fl)})

# ---------------------------------------------------------------------------
def rule_tag_before_success(rep, m, fail):
    """D7: a function that decrypts a stream (it calls *_aead_decrypt_block) may
    report success only after the authentication tag was compared: on every
    path from the *_aead_start call to a return that does not pass through
    *_aead_decrypt_finalize, the returned status must be a failure value.
    The paths are explored over the integer phi web (constants only; a branch
    whose condition is known under the path's constants is followed one way).
    That the result of finalize is tested is C19.D1."""
    rid = "C19.D7"
    rep.rule(rid, "a decrypting function returns success only on paths through the tag comparison (*_decrypt_finalize)")
    n = 0
    for f in m.defined():
        if not f.srcfile.startswith(repo.REPO):
            continue
        calls = list(f.calls())
        if not any((i.callee or "").endswith("_aead_decrypt_block") for i in calls):
            continue
        starts = [i for i in calls if (i.callee or "").endswith("_aead_start")]
        fins = set(i.block.name for i in calls if (i.callee or "").endswith("_aead_decrypt_finalize"))
        n += 1
        if not starts:
            rep.unproved_item(rid, "%s: decrypts blocks without a visible *_aead_start" % f.name)
            continue
        if not fins:
            rep.violation(rid, f.name + ":no-finalize", f.src, "%s decrypts a stream but never calls *_aead_decrypt_finalize: the "
                          "authentication tag is not compared" % f.name)
            continue
        rets = [i for b in f.blocks for i in b.insts if i.op == "ret"]
        if f.d["ret"] == "void" or any(not i.ops for i in rets):
            rep.unproved_item(rid, "%s returns no status" % f.name)
            continue
        sb = starts[0].block
        # the status value on arrival at the start call: no failure has happened yet on that path
        good, verdict = _explore_status(f, f.blocks[0].name, {}, stop={sb.name}, avoid=set(), want_ret=False)
        env0 = good.get(sb.name, {})
        hits, _ = _explore_status(f, sb.name, env0, stop=set(), avoid=fins, want_ret=True)
        # value returned on a path that did pass through finalize with every test succeeding is not needed: success is
        # "what the status variable held when decryption started"
        bad = unk = None
        failvals = fail.get(f.name) or set()
        if not failvals:
            rep.unproved_item(rid, "%s: no failure return value known" % f.name)
            continue
        for (retins, val, start_val) in hits:
            if val is None:
                unk = retins
            elif val not in failvals:
                bad = (retins, val)
        if bad:
            rep.violation(rid, f.name + ":unchecked-success", bad[0].where(),
                          "%s can return %d (its failure value is %s) along a path from %s to this return that does not pass "
                          "through *_aead_decrypt_finalize: truncated or modified input is accepted on that path" % (
                              f.name, bad[1], sorted(failvals), starts[0].callee))
        elif unk is not None:
            rep.unproved_item(rid, "%s: a return is reachable without the tag comparison and its status is not a constant on that path" % f.name)
        else:
            rep.instance(rid, 1, {"function": f.name, "finalize_free_returns": len(hits), "all_report_failure": True})
    if n == 0:
        raise repo.AnalysisBroken("%s: no stream-decrypting function found in asconcrypt" % rid)


def _explore_status(f, start, env0, stop, avoid, want_ret, visit=None):
    """walk the CFG from block `start` with the constants env0 (SSA id -> int),
    not entering blocks in `avoid`; returns (arrivals {block in stop: env}, None)
    or, with want_ret, a list of (ret instruction, constant or None, value of the
    same status variable at the start)"""
    hits, arrivals = [], {}
    seen = set()
    rets = {b.name: i for b in f.blocks for i in b.insts if i.op == "ret"}
    # the status variable: the operand of the (single) return, resolved per path
    work = [(start, dict(env0), None)]
    while work and len(seen) < 20000:
        bname, env, pred = work.pop()
        b = f.bmap[bname]
        env = dict(env)
        # phis take the value of the edge we came along
        newv = {}
        for i in b.insts:
            if i.op != "phi":
                break
            if pred is not None:
                for v, pr in i.d["inc"]:
                    if pr == pred:
                        c = ceval.value(env, v)
                        if c is not None:
                            newv[i.id] = c
                        else:
                            newv[i.id] = None
        for k, v in newv.items():
            if v is None:
                env.pop(k, None)
            else:
                env[k] = v
        key = (bname, frozenset(env.items()))
        if key in seen:
            continue
        seen.add(key)
        if bname in stop and pred is not None:
            arrivals.setdefault(bname, env)
            continue
        if visit is not None:
            visit(b, env)
        for i in b.insts:
            if i.op == "phi":
                continue
            if i.op in ("load", "call", "invoke", "store", "alloca", "getelementptr", "br", "ret", "switch"):
                if i.id:
                    env.pop(i.id, None)
                continue
            if i.id:
                v = ceval.step(i, env)
                if v is not None:
                    env[i.id] = v
                else:
                    env.pop(i.id, None)
        if bname in rets and want_ret:
            r = rets[bname]
            val = ceval.value(env, r.ops[0])
            sv = ceval.value(env0, r.ops[0]) if ir.is_local(r.ops[0]) else None
            hits.append((r, val, _start_status(f, r.ops[0], env0)))
            continue
        t = b.insts[-1]
        succs = [x.name for x in b.succs]
        if t.op == "br" and t.ops:
            c = ceval.value(env, t.ops[0])
            if c is not None:
                succs = [t.succs[0] if c & 1 else t.succs[1]]
        for sname in succs:
            if sname in avoid:
                continue
            work.append((sname, env, bname))
    return (hits, None) if want_ret else (arrivals, None)


def _start_status(f, retop, env0):
    """value, at the start of decryption, of the variable that is finally returned: the return operand is a phi web over
    one status variable; its members' constants at the start are in env0"""
    seen, todo = set(), [retop]
    while todo:
        v = todo.pop()
        if not ir.is_local(v) or v in seen:
            continue
        seen.add(v)
        if v in env0:
            return env0[v]
        d = f.defs.get(v)
        if d is not None and d.op == "phi":
            todo += [x for x, _ in d.d["inc"]]
    return None

# ---------------------------------------------------------------------------
LIB_ENTROPY_FAILURE = {"getrandom": {-1}, "getentropy": {-1}, "syscall": {-1}, "ascon_dev_random_read": {0},
                       "ascon_dev_random_open": {-1}, "ascon_trng_generate": {0}}


def rule_entropy_chain(rep, build):
    """D8: the tools refuse to work when ascon_random() reports that the system
    random source failed (the contract behind D2).  That contract is only as
    good as the library chain behind it: ascon_random -> ascon_trng_generate ->
    the system call wrapper.  The same exploration as D2 is applied to those
    library functions: when the system primitive returns its error value and
    the call is not retried, the function returns its own failure value."""
    rid = "C19.D8"
    rep.rule(rid, "library chain behind ascon_random: a failing system random source is reported as failure, not as success")
    lr = repo.lower(build, group="lib", level="O0", langs=("c",))
    m = ir.Module.load(lr.json)
    from . import report as _report
    fail = dict(IO_PRIMITIVES)
    fail.update(LIB_ENTROPY_FAILURE)
    probe = _report.Report("C19", "quick")
    probe._known = []
    for r in ("C19.D1", "C19.D2", "C19.D3"):
        probe.rule(r, "")
    n = 0
    for f in m.defined():
        if "/src/random/ascon-trng" not in f.srcfile and f.name != "ascon_random":
            continue
        if not any((c.callee or "") in fail for c in f.calls()):
            continue
        n += 1
        explore(probe, m, f, fail, "library")
    if n < 2:
        raise repo.AnalysisBroken("%s: the entropy chain of the library was not found (%d functions)" % (rid, n))
    for v in probe.violations:
        rep.violation(rid, v.get("instance", "entropy-chain"), v.get("where", ""), v["message"], config="library")
    if not probe.violations:
        rep.instance(rid, n, {"functions": n, "calls_checked": probe.rules["C19.D1"]["instances"]})

# ---------------------------------------------------------------------------
def rule_ok_only_when_read(rep, m):
    """D9 (asconsum -c): a listed file that cannot be opened is never reported
    as OK.  In every function that opens a file with fopen and, on failure,
    reports it (perror), the paths that continue from that failure branch -
    explored over the integer phi web with the constants known on the path, up
    to the next iteration of the enclosing loop or the return - do not reach a
    printf / puts / fputs whose constant text starts with "OK"."""
    rid = "C19.D9"
    rep.rule(rid, "asconsum: after a failed fopen no path of the same iteration prints OK")
    n = 0
    for f in m.defined():
        if not f.srcfile.startswith(repo.REPO):
            continue
        oks = set()
        for c in f.calls():
            if c.callee in ("printf", "puts", "fputs", "fprintf"):
                for o in c.ops[:2]:
                    for gname in ir.globals_in(o):
                        g = m.globals.get(gname)
                        if g and g.get("bytes") and bytes.fromhex(g["bytes"]).startswith(b"OK"):
                            oks.add(c.block.name)
        if not oks:
            continue
        headers = set(lp["header"] for lp in f.d.get("loops", []))
        for c in f.calls("fopen"):
            # the branch taken when the result is null and that reports the failure
            for b in f.blocks:
                t = b.insts[-1]
                if t.op != "br" or not t.ops:
                    continue
                ci = f.defs.get(t.ops[0]) if ir.is_local(t.ops[0]) else None
                if ci is None or ci.op != "icmp" or ci.d["pred"] not in ("eq", "ne") or "null" not in ci.ops:
                    continue
                other = [o for o in ci.ops if o != "null"][0]
                if not _same_pointer(f, other, c.id):
                    continue
                nullsucc = t.succs[0] if ci.d["pred"] == "eq" else t.succs[1]
                if not any(i.op == "call" and i.callee == "perror" for i in f.bmap[nullsucc].insts):
                    continue
                n += 1
                reached = []

                def visit(bb, env, reached=reached):
                    if bb.name in oks:
                        reached.append(bb.name)
                _explore_status(f, nullsucc, {}, stop=headers, avoid=set(), want_ret=True, visit=visit)
                if reached:
                    okc = [i for i in f.bmap[reached[0]].insts if i.op == "call"][0]
                    rep.violation(rid, "%s:ok-after-failed-open" % f.name, okc.where(),
                                  "%s: after fopen fails at %s (reported with perror) a path of the same iteration still reaches the "
                                  "output of \"OK\": a file that could not be read is reported as verified" % (f.name, c.where()),
                                  config="asconsum")
                else:
                    rep.instance(rid, 1, {"function": f.name, "fopen": c.where()})
    if n == 0:
        rep.unproved_item(rid, "no fopen failure branch with an OK report found in asconsum")


def _same_pointer(f, v, target, depth=0):
    if v == target:
        return True
    d = f.defs.get(v) if ir.is_local(v) else None
    if d is None or depth > 6:
        return False
    if d.op in ("bitcast",):
        return _same_pointer(f, d.ops[0], target, depth + 1)
    if d.op == "phi":
        return any(_same_pointer(f, x, target, depth + 1) for x, _ in d.d["inc"])
    return False
