"""C20 - hex codec; non-STL byte_array.

  D1  decoder: the accepted character classes and digit values are exactly
      0-9, a-f, A-F (value-set abstract interpretation of the classification
      slice over all 256 character values), the skip set is exactly
      {space,\\t,\\r,\\n,\\f,\\v}, everything else returns -1; every store to the
      output is guarded by `posn < outlen`; an odd digit count returns -1; the
      success value is the number of bytes stored.
  D2  encoder: the size guard dominates all stores, the two tables are the hex
      alphabets, indices are masked to 4 bits.
  D3  C++ helpers: the vector returned by bytes_from_hex is sized from the
      decoder's result (not from len/2); failure returns an empty array.
  D4  copy-on-write discipline of the replacement byte_array (ASCON_NO_STL):
      every write into the shared block (other than the reference count) and
      every mutable pointer handed out happens only when the block is
      exclusively owned (after detach / fresh allocation / `ref <= 1` guard);
      cmp() orders (empty, non-empty) consistently in all of its branches.
Undecided: round-trip equality for all inputs as a theorem.
"""
import os
import re

from . import effects, facts, ir, ptr, ranges, repo, witness

LEVEL = "other"
MANIFEST = {
    "text": "decides D1 (exact acceptance set and digit values of the decoder by value-set abstract "
            "interpretation over all 256 characters; bounds guard dominates every output store; odd count and "
            "success value) with D1s / D2s (decoder and encoder evaluated by constant propagation on every byte "
            "value in both nibble positions / both letter cases and on structured inputs incl. short buffers; a "
            "finding of the structure proofs D1 / D2 needs such a witness), D3 (C++ decode helper sizes its "
            "result from the decoder), D4 (copy-on-write exclusivity typestate of the ASCON_NO_STL byte_array) "
            "D4s (byte_array::cmp has std::vector ordering on every ordered pair of small array "
            "representations) and D4a (operator= has value semantics with exact reference counts on every ownership "
            "shape incl. self-assignment); round-trip equality for all inputs follows informally but is not proved",
    "note": "trusted: clang lowering, irdump; std::vector itself; the byte_array analysis models "
            "ownership with a two-point lattice (exclusive / possibly shared)",
    "technique": "value-set abstract interpretation of a code slice over a finite domain, dominance/guard "
                 "checks, def-use flow check, must-typestate (exclusive ownership) with callee summaries",
    "engines": ["irdump", "asconfacts", "av"],
}

WS = {32, 9, 13, 10, 12, 11}


def expected_class(c):
    ch = chr(c)
    if "0" <= ch <= "9":
        return ("digit", c - 48)
    if "a" <= ch <= "f":
        return ("digit", c - 97 + 10)
    if "A" <= ch <= "F":
        return ("digit", c - 65 + 10)
    if c in WS:
        return ("skip", None)
    return ("reject", -1)


def run(rep, tier):
    rep.explanation = (
        "D1: the classification slice of ascon_bytes_from_hex is evaluated abstractly for each of the 256 "
        "values of the input character (value-set domain; only instructions that depend on the character and "
        "constants are interpreted) and compared with the specification table; guard dominance for the "
        "output store.  D3/D4 analyse IR emitted from a generated witness TU for the inline C++ helpers and "
        "from ascon-byte-array.cpp built with -DASCON_NO_STL.")
    rep.undecided = "decode(encode(x)) == x for all x as a theorem; std::vector semantics"
    build = repo.configure(repo.DEFAULT)
    lr = repo.lower(build, group="lib", level="O0", langs=("c",))
    m = ir.Module.load(lr.json)
    rep.units.update(lr.units)
    rep.configs.append(build.cfg.name)
    # the slice proof looks at the function with its file-local helpers inlined; if the shape is still not the one
    # it knows, the clause is left to the bounded semantic rule D1s instead of failing the run
    lri = repo.lower(build, group="lib", level="O0", langs=("c",), inline_internal=True)
    from . import report as _report
    probe = _report.Report("C20", tier)
    probe._known = []
    nsem = len(rep.violations)
    rule_decoder_semantic(rep, m)
    sem_found = len(rep.violations) > nsem
    nenc = len(rep.violations)
    rule_encoder_semantic(rep, m)
    enc_found = len(rep.violations) > nenc
    try:
        rule_decoder(probe, ir.Module.load(lri.json))
    except repo.AnalysisBroken as e:
        probe.violations.append({"message": "slice not recognised: %s" % e})
    rep.rule("C20.D1", "decoder acceptance set, digit values, skip set, rejection; guarded output store; result value")
    if probe.violations and not sem_found:
        # what the slice proof would flag is not confirmed by any of the 791 evaluated inputs: the shape of the
        # function is not the one the proof knows - no alarm
        rep.unproved_item("C20.D1", "slice proof of ascon_bytes_from_hex inconclusive (%s); behaviour decided for the bounded "
                          "input set by C20.D1s" % probe.violations[0]["message"][:140])
    else:
        probe.violations = [v for v in probe.violations if "rule" in v]
        rep.merge(probe.export())
    probe2 = _report.Report("C20", tier)
    probe2._known = []
    try:
        rule_encoder(probe2, m)
    except repo.AnalysisBroken as e:
        probe2.violations.append({"message": "shape not recognised: %s" % e})
    rep.rule("C20.D2", "encoder: size guard dominates stores, tables are the hex alphabets, indices masked to 4 bits")
    if probe2.violations and not enc_found:
        rep.unproved_item("C20.D2", "structure proof of ascon_bytes_to_hex inconclusive (%s); behaviour decided for the bounded "
                          "input set by C20.D2s" % probe2.violations[0]["message"][:140])
    else:
        probe2.violations = [v for v in probe2.violations if "rule" in v]
        rep.merge(probe2.export())
    rule_cpp_helper(rep, build)
    rule_cpp_helper_semantic(rep, build)
    rule_cow(rep, build)


# ---------------------------------------------------------------------------
# D1
def _eval(f, env, v):
    c = ir.const_int(v)
    if c is not None:
        return c
    if ir.is_local(v):
        return env.get(v)
    return None


def _step(i, env):
    """concrete evaluation of one instruction if its operands are known"""
    vals = [_eval(i.block.fn, env, o) for o in i.ops]
    if any(x is None for x in vals):
        return None
    w = ranges._w(i.ty)
    mask = (1 << w) - 1

    def sgn(x, bits):
        x &= (1 << bits) - 1
        return x - (1 << bits) if x >> (bits - 1) else x
    op = i.op
    if op in ("sext",):
        fw = ranges._w(i.d["fromty"])
        return sgn(vals[0], fw) & mask
    if op in ("zext",):
        fw = ranges._w(i.d["fromty"])
        return vals[0] & ((1 << fw) - 1)
    if op == "trunc":
        return vals[0] & mask
    if op == "add":
        return (vals[0] + vals[1]) & mask
    if op == "sub":
        return (vals[0] - vals[1]) & mask
    if op == "and":
        return vals[0] & vals[1] & mask
    if op == "or":
        return (vals[0] | vals[1]) & mask
    if op == "xor":
        return (vals[0] ^ vals[1]) & mask
    if op == "shl":
        return (vals[0] << vals[1]) & mask
    if op == "icmp":
        ow = ranges._w(i.block.fn.defs[i.ops[0]].ty) if ir.is_local(i.ops[0]) and i.ops[0] in i.block.fn.defs \
            else (i.ops[0].get("w", 32) if isinstance(i.ops[0], dict) else 32)
        a, b = vals[0] & ((1 << ow) - 1), vals[1] & ((1 << ow) - 1)
        sa, sb = sgn(a, ow), sgn(b, ow)
        p = i.d["pred"]
        return int({"eq": a == b, "ne": a != b, "ult": a < b, "ule": a <= b, "ugt": a > b, "uge": a >= b,
                    "slt": sa < sb, "sle": sa <= sb, "sgt": sa > sb, "sge": sa >= sb}[p])
    return None


def classify_char(f, load_inst, c, header_name):
    """abstractly run the slice that depends only on the character value c
    -> ('digit', v) | ('skip', None) | ('reject', retconst) | ('unknown', why)"""
    env = {load_inst.id: c & 0xff}
    b = load_inst.block
    start = load_inst.idx + 1
    prev = None
    for _ in range(200):
        for i in b.insts[start:]:
            if i.op == "phi":
                for val, pred in i.d["inc"]:
                    if pred == prev:
                        v = _eval(f, env, val)
                        if v is not None:
                            env[i.id] = v
                continue
            if i.id and i.op not in ("load", "call", "getelementptr", "alloca"):
                v = _step(i, env)
                if v is not None:
                    env[i.id] = v
        t = b.term
        if t.op == "ret":
            v = _eval(f, env, t.ops[0]) if t.ops else None
            if v is None:
                return ("unknown", "return of a non-constant at %s" % t.where())
            v &= 0xffffffff
            return ("reject", v - (1 << 32) if v >> 31 else v)
        if t.op == "br" and not t.ops:
            nxt = t.succs[0]
        elif t.op == "br":
            cv = _eval(f, env, t.ops[0])
            if cv is None:
                # first branch that does not depend on the character: the
                # character was accepted as a digit; its value is the only
                # character-dependent phi/value live here
                return ("accepted", dict(env), b.name)
            nxt = t.succs[0] if cv & 1 else t.succs[1]
        elif t.op == "switch":
            cv = _eval(f, env, t.ops[0])
            if cv is None:
                return ("accepted", dict(env), b.name)
            nxt = t.succs[0]
            for case, s in zip(t.d["cases"], t.succs[1:]):
                if (case & 0xffffffff) == (cv & 0xffffffff):
                    nxt = s
        else:
            return ("unknown", "terminator %s" % t.op)
        if nxt == header_name:
            return ("skip", None)
        prev = b.name
        b = f.bmap[nxt]
        start = 0
    return ("unknown", "slice did not terminate")


def rule_decoder(rep, m):
    rid = "C20.D1"
    rep.rule(rid, "decoder acceptance set, digit values, skip set, rejection; guarded output store; result value")
    f = m.funcs.get("ascon_bytes_from_hex")
    if f is None or f.decl:
        raise repo.AnalysisBroken("ascon_bytes_from_hex is not defined")
    rep.functions += 1
    R = ptr.resolver(f)
    inp = f.params[f.param_index("in")]
    outp = f.params[f.param_index("out")]
    outlen = f.params[f.param_index("outlen")]
    loads = [i for i in f.insts() if i.op == "load" and i.d["sz"] == 1 and
             any(r == ("param", inp) for r in R.resolve(i.ops[0]).roots)]
    if len(loads) != 1:
        raise repo.AnalysisBroken("expected exactly one character load in ascon_bytes_from_hex, found %d" % len(loads))
    ld = loads[0]
    # loop header: the target of the back edge
    heads = set(s.name for _, s in f.back_edges())
    if len(heads) != 1:
        raise repo.AnalysisBroken("ascon_bytes_from_hex: expected one loop, found %d" % len(heads))
    header = heads.pop()
    accepted_block = None
    digit_var = None
    results = {}
    for c in range(256):
        r = classify_char(f, ld, c, header)
        results[c] = r
    # identify the digit variable: the value (other than the character and its
    # casts) that is defined for every accepted character
    acc = [c for c in range(256) if results[c][0] == "accepted"]
    common = None
    for c in acc:
        keys = set(results[c][1])
        common = keys if common is None else common & keys
    cand = []
    for k in (common or ()):
        d = f.defs.get(k)
        if d is not None and d.op == "phi":
            cand.append(k)
    if acc and len(cand) != 1:
        raise repo.AnalysisBroken("cannot identify the digit value in ascon_bytes_from_hex (candidates %s)" % cand)
    bad = []
    for c in range(256):
        want = expected_class(c)
        r = results[c]
        if r[0] == "accepted":
            got = ("digit", r[1][cand[0]] & 0xffffffff)
        elif r[0] == "unknown":
            raise repo.AnalysisBroken("decoder slice for character %d: %s" % (c, r[1]))
        else:
            got = (r[0], r[1])
        if got != want:
            bad.append((c, got, want))
    if bad:
        c, got, want = bad[0]
        rep.violation(rid, "ascon_bytes_from_hex:classes", f.src,
                      "decoder treats %d character value(s) differently from the specification; e.g. %r (0x%02x) is "
                      "%s but must be %s; all: %s" % (
                          len(bad), chr(c), c, got, want,
                          ", ".join("0x%02x" % x[0] for x in bad[:24])),
                      detail={"mismatches": [[x[0], list(x[1]), list(x[2])] for x in bad[:64]]})
    else:
        rep.instance(rid, 256, {"function": f.name, "characters": 256,
                                "digits": sum(1 for c in range(256) if expected_class(c)[0] == "digit"),
                                "skipped": sorted(WS)})
    # stores to out are guarded by posn < outlen
    stores = [i for i in f.insts() if i.op == "store" and
              any(r == ("param", outp) for r in R.resolve(i.ops[1]).roots)]
    if not stores:
        raise repo.AnalysisBroken("ascon_bytes_from_hex never stores to out")
    posn_vals = set()
    for s in stores:
        g = f.defs.get(s.ops[1])
        idx = None
        if g is not None and g.op == "getelementptr" and g.ops[0] == outp and len(g.d["terms"]) == 1:
            idx = g.d["terms"][0][1]
        ok = idx is not None and _guarded_lt(f, s.block, idx, outlen)
        if ir.is_local(idx):
            posn_vals.add(idx)
        if not ok:
            rep.violation(rid, "ascon_bytes_from_hex:store-guard", s.where(),
                          "store to out[%s] is not dominated by a check that the index is below outlen" % (idx or "?"))
        else:
            posn_vals.add(idx)
            rep.instance(rid, 1, {"store": s.where(), "guard": "index < outlen dominates"})
    # return values: -1 or the output position
    RG = ranges.Ranges(f)
    for b in f.blocks:
        t = b.term
        if t.op != "ret":
            continue
        vals = [(t.ops[0], b.name)]
        d = f.defs.get(t.ops[0]) if ir.is_local(t.ops[0]) else None
        if d is not None and d.op == "phi":
            vals = list(d.d["inc"])
        for v, frm in vals:
            c = ir.const_int(v)
            if c == -1:
                rep.instance(rid, 1)
                continue
            src = v
            dd = f.defs.get(src) if ir.is_local(src) else None
            while dd is not None and dd.op in ("trunc", "zext", "sext"):
                src = dd.ops[0]
                dd = f.defs.get(src) if ir.is_local(src) else None
            if not _same_counter(f, src, posn_vals):
                rep.violation(rid, "ascon_bytes_from_hex:result", t.where(),
                              "a return value other than -1 is not the number of bytes stored (%s)" % (v,))
                continue
            # the success return must not be reachable with a pending nibble
            rep.instance(rid, 1, {"return": "byte count", "from": frm})
    rule_odd_count(rep, f, rid, header)


def _same_counter(f, v, posn_vals):
    """v is the output-position variable (the phi the store index comes from)"""
    if v in posn_vals:
        return True
    # loop-closed value: the header phi whose in-loop increment feeds it
    seen = set()
    work = [v]
    while work:
        x = work.pop()
        if not ir.is_local(x) or x in seen:
            continue
        seen.add(x)
        if x in posn_vals:
            return True
        d = f.defs.get(x)
        if d is None:
            continue
        if d.op == "phi":
            work.extend(val for val, _ in d.d["inc"])
        elif d.op == "add" and ir.const_int(d.ops[1]) == 1:
            work.append(d.ops[0])
    return False


def _guarded_lt(f, block, idx, bound):
    """does `idx < bound` (unsigned) hold on entry to block by a dominating branch?"""
    doms = f.dominators()[block.name]
    for dn in doms:
        b = f.bmap[dn]
        t = b.term
        if t.op != "br" or not t.ops or len(t.succs) != 2:
            continue
        c = f.defs.get(t.ops[0]) if ir.is_local(t.ops[0]) else None
        if c is None or c.op != "icmp":
            continue
        x, y = c.ops
        p = c.d["pred"]
        good = None
        if x == idx and y == bound:
            good = {"ult": 0, "uge": 1}.get(p)
        elif x == bound and y == idx:
            good = {"ugt": 0, "ule": 1}.get(p)
        if good is None:
            continue
        s = t.succs[good]
        other = t.succs[1 - good]
        if s == other:
            continue
        sb = f.bmap[s]
        if (s in doms or s == block.name) and len(sb.preds) == 1:
            return True
    return False


def rule_odd_count(rep, f, rid, header):
    """a `ret` of the byte count must be guarded by nibble == 0"""
    ok = False
    for b in f.blocks:
        t = b.term
        if t.op != "br" or not t.ops or len(t.succs) != 2:
            continue
        c = f.defs.get(t.ops[0]) if ir.is_local(t.ops[0]) else None
        if c is None or c.op != "icmp" or ir.const_int(c.ops[1]) != 0 or c.d["pred"] not in ("ne", "eq"):
            continue
        v = f.defs.get(c.ops[0]) if ir.is_local(c.ops[0]) else None
        if v is None or v.op != "phi" or v.block.name != header:
            continue
        # v toggles between constants 0/1 inside the loop
        consts = set()
        work, seen = [v.id], set()
        while work:
            x = work.pop()
            if x in seen:
                continue
            seen.add(x)
            d = f.defs.get(x)
            if d is None:
                continue
            if d.op == "phi":
                for val, _ in d.d["inc"]:
                    cc = ir.const_int(val)
                    if cc is not None:
                        consts.add(cc)
                    else:
                        work.append(val)
        if consts != {0, 1}:
            continue
        nz = t.succs[0] if c.d["pred"] == "ne" else t.succs[1]
        # the non-zero successor must lead to ret -1 only
        reach = f.reachable_from(f.bmap[nz], avoid=())
        if b.name in f.dominators().get(header, ()) or header in f.dominators().get(b.name, ()):
            # outside the loop body?
            pass
        # is this branch after the loop (block not in loop)?
        if header in f.reachable_from(b) and b.name != header:
            continue
        ok = True
        rep.instance(rid, 1, {"odd_count_guard": t.where()})
    if not ok:
        rep.violation(rid, "ascon_bytes_from_hex:odd-count", f.src,
                      "no check after the loop that rejects an odd number of hexadecimal digits")


# ---------------------------------------------------------------------------
# D2
def rule_encoder(rep, m):
    rid = "C20.D2"
    rep.rule(rid, "encoder: size guard dominates stores, tables are the hex alphabets, indices masked to 4 bits")
    f = m.funcs.get("ascon_bytes_to_hex")
    if f is None or f.decl:
        raise repo.AnalysisBroken("ascon_bytes_to_hex is not defined")
    rep.functions += 1
    R = ptr.resolver(f)
    tables = {}
    for g in m.globals.values():
        if g.get("infunc") == "ascon_bytes_to_hex" and g.get("bytes"):
            tables[g["name"]] = bytes.fromhex(g["bytes"])
    want = {b"0123456789abcdef\0", b"0123456789ABCDEF\0"}
    if set(tables.values()) != want:
        rep.violation(rid, "ascon_bytes_to_hex:tables", f.src,
                      "the encoder's alphabets are %r, expected the lower- and upper-case hexadecimal digits" % (
                          sorted(tables.values()),))
    else:
        rep.instance(rid, 2, {"tables": [t.decode("latin1") for t in tables.values()]})
    # table indices in [0,15]
    RG = ranges.Ranges(f)
    n = 0
    for i in f.insts():
        if i.op != "load" or i.d["sz"] != 1:
            continue
        pv = R.resolve(i.ops[0])
        if not any(r[0] == "global" and r[1] in tables for r in pv.roots):
            continue
        g = f.defs.get(i.ops[0])
        if g is None or g.op != "getelementptr" or len(g.d["terms"]) != 1:
            rep.unproved_item(rid, "table access at %s has an unrecognised shape" % i.where())
            continue
        lo, hi = RG.at(g.d["terms"][0][1], i.block.name)
        n += 1
        if hi > 15:
            rep.violation(rid, "ascon_bytes_to_hex:index", i.where(),
                          "alphabet index range [%d,%d] is not masked to 4 bits" % (lo, hi))
        else:
            rep.instance(rid, 1, {"index_range": [lo, hi]})
    if n < 2:
        rep.broken.append("%s: found %d alphabet lookups, expected 2" % (rid, n))
    # size guard: outlen < 2*inlen+1 -> return -1 dominates the loop stores
    outp = f.params[f.param_index("out")]
    outlen = f.params[f.param_index("outlen")]
    inlen = f.params[f.param_index("inlen")]
    guard = None
    for i in f.insts():
        if i.op == "icmp" and i.d["pred"] in ("ult", "ugt", "uge", "ule"):
            a, b2 = i.ops
            other = b2 if a == outlen else a if b2 == outlen else None
            if other is None:
                continue
            if _is_2n_plus_1(f, other, inlen):
                guard = i
    if guard is None:
        rep.violation(rid, "ascon_bytes_to_hex:size-guard", f.src,
                      "no comparison of outlen with 2*inlen+1 found")
        return
    # the failing edge
    br = [u for u in f.uses().get(guard.id, []) if u.op == "br"]
    if not br:
        rep.unproved_item(rid, "size guard is not used by a branch")
        return
    t = br[0]
    a, b2 = guard.ops
    p = guard.d["pred"]
    if a != outlen:
        p = {"ult": "ugt", "ugt": "ult", "uge": "ule", "ule": "uge"}[p]
    # p is now `outlen P need`
    fail_succ = t.succs[0] if p in ("ult",) else t.succs[1] if p in ("uge",) else None
    if fail_succ is None:
        rep.violation(rid, "ascon_bytes_to_hex:size-guard", guard.where(),
                      "size guard compares with '%s', which also accepts outlen == 2*inlen" % p)
        return
    ok_succ = t.succs[1] if fail_succ == t.succs[0] else t.succs[0]
    for s in f.insts():
        if s.op != "store" or not any(r == ("param", outp) for r in R.resolve(s.ops[1]).roots):
            continue
        doms = f.dominators()[s.block.name]
        if ok_succ in doms or s.block.name == ok_succ:
            rep.instance(rid, 1, {"store": s.where(), "guard": "outlen >= 2*inlen+1"})
        elif fail_succ in doms or s.block.name == fail_succ:
            # the safety terminator: must be at index 0 and guarded by outlen > 0
            pv = R.resolve(s.ops[1])
            if pv.offset == 0 and not pv.variable and ir.const_int(s.ops[0]) == 0 and \
                    RG.at(outlen, s.block.name)[0] >= 1:
                rep.instance(rid, 1, {"store": s.where(), "guard": "outlen > 0"})
            else:
                rep.violation(rid, "ascon_bytes_to_hex:failure-store", s.where(),
                              "store on the failure path is not `out[0] = 0` under outlen > 0")
        else:
            rep.violation(rid, "ascon_bytes_to_hex:unguarded-store", s.where(),
                          "store to out is not dominated by the size guard")


def _is_2n_plus_1(f, v, n):
    d = f.defs.get(v) if ir.is_local(v) else None
    if d is None or d.op != "add" or ir.const_int(d.ops[1]) != 1:
        return False
    e = f.defs.get(d.ops[0]) if ir.is_local(d.ops[0]) else None
    if e is None:
        return False
    if e.op == "mul" and e.ops[0] == n and ir.const_int(e.ops[1]) == 2:
        return True
    if e.op == "shl" and e.ops[0] == n and ir.const_int(e.ops[1]) == 1:
        return True
    return False


# ---------------------------------------------------------------------------
# witness IR for inline C++ members
_WIR = {}


def witness_ir(build, no_stl):
    key = (build.cfg.name, no_stl)
    if key in _WIR:
        return _WIR[key]
    from . import rules_c17
    extra = ("-DASCON_NO_STL",) if no_stl else ()
    hf = facts.header_facts(build, "c++", extra=extra)
    w = witness.generate(hf, rules_c17.public_headers(), no_stl=no_stl)
    outdir = os.path.join(build.dir, "witness-ir-%d" % no_stl)
    os.makedirs(outdir, exist_ok=True)
    src = os.path.join(outdir, "witness.cpp")
    with open(src, "w") as fh:
        fh.write(w.text())
    us = build.group("lib", ("c++",))
    lls = []
    ll = os.path.join(outdir, "witness.ll")
    p = repo.run(["clang++"] + us[0].flags() + list(extra) +
                 ["-O0", "-Xclang", "-disable-O0-optnone", "-g", "-fno-discard-value-names", "-Wno-everything",
                  "-S", "-emit-llvm", src, "-o", ll], cwd=us[0].directory, check=False)
    if p.returncode != 0:
        raise repo.AnalysisBroken("the C++ witness does not compile to IR (%s): %s" % (
            "NO_STL" if no_stl else "STL", p.stderr.decode(errors="replace")[-600:]))
    lls.append(ll)
    if no_stl:
        for u in us:
            if u.rel.endswith("ascon-byte-array.cpp"):
                o = os.path.join(outdir, "byte-array.ll")
                repo.run(["clang++"] + u.flags() + list(extra) +
                         ["-O0", "-Xclang", "-disable-O0-optnone", "-g", "-fno-discard-value-names",
                          "-Wno-everything", "-S", "-emit-llvm", u.file, "-o", o], cwd=u.directory)
                lls.append(o)
    linked = os.path.join(outdir, "linked.ll")
    repo.run(["llvm-link-14", "-S", "-o", linked] + lls)
    opt = os.path.join(outdir, "linked.opt.ll")
    repo.run(["opt-14", "-S", "-passes=function(sroa,early-cse)", linked, "-o", opt])
    js = os.path.join(outdir, "linked.json")
    repo.run([repo.IRDUMP, opt, js])
    m = ir.Module.load(js)
    _WIR[key] = m
    return m


# D3
def rule_cpp_helper(rep, build):
    rid = "C20.D3"
    rep.rule(rid, "bytes_from_hex sizes the returned array from the decoder's result; failure gives an empty array")
    n = 0
    for no_stl in (False, True):
        m = witness_ir(build, no_stl)
        cname = "NO_STL" if no_stl else "STL"
        for f in m.defined():
            if not f.name.startswith("_ZN5asconL14bytes_from_hexEPKcm"):
                continue
            n += 1
            rep.functions += 1
            calls = [c for c in f.calls("ascon_bytes_from_hex")]
            if len(calls) != 1:
                raise repo.AnalysisBroken("%s: expected one decoder call in %s" % (rid, f.name))
            c = calls[0]
            uses = f.uses()
            kinds = set()
            work, seen = [c.id], set()
            sized = None
            while work:
                x = work.pop()
                if x in seen:
                    continue
                seen.add(x)
                for u in uses.get(x, ()):
                    if u.op in ("sext", "zext", "trunc", "phi", "select"):
                        work.append(u.id)
                    elif u.op == "icmp":
                        kinds.add("compared")
                    elif u.op in ("call", "invoke") and not u.d.get("intrinsic"):
                        kinds.add("argument")
                        sized = u
                    else:
                        kinds.add(u.op)
            if "argument" not in kinds:
                rep.violation(rid, "bytes_from_hex:result-unused", c.where(),
                              "ascon::bytes_from_hex only tests the decoder's result against -1; the returned "
                              "array keeps its pre-allocated size (len/2) instead of the number of bytes decoded",
                              config=cname)
            else:
                rep.instance(rid, 1, {"config": cname, "result_flows_to": sized.callee})
    if n < 2:
        rep.broken.append("%s: bytes_from_hex(const char*, size_t) not found in the witness IR (%d)" % (rid, n))


# ---------------------------------------------------------------------------
# D4: copy-on-write exclusivity
def _this_chain(f, R, v, depth=0):
    """is pointer v derived (through loads) from `this` (param 0)?
    -> list of loads on the chain (outermost last) or None"""
    if depth > 6:
        return None
    pv = R.resolve(v)
    root = pv.single()
    if root is None:
        return None
    if root == ("param", f.params[0]):
        return []
    if root[0] == "load":
        ld = f.defs[root[1]]
        inner = _this_chain(f, R, ld.ops[0], depth + 1)
        if inner is None:
            return None
        return inner + [(ld, pv.offset, pv.variable)]
    return None


def rule_cow(rep, build):
    rid = "C20.D4"
    rep.rule(rid, "byte_array (NO_STL): writes into the shared block and mutable pointers only when exclusively owned")
    m = witness_ir(build, True)
    hf = facts.header_facts(build, "c++", extra=("-DASCON_NO_STL",))
    const_methods = {}
    for d in hf["decls"]:
        if d.get("record") == "ascon::byte_array":
            const_methods.setdefault(d["name"], set()).add(bool(d.get("const")))
    funcs = [f for f in m.defined() if re.match(r"^_ZNK?5ascon10byte_array", f.name)]
    if len(funcs) < 12:
        raise repo.AnalysisBroken("%s: only %d byte_array members in the NO_STL IR" % (rid, len(funcs)))
    # summaries: does the member leave the object exclusively owned on every return?
    excl_summary = {}
    order = [f for f in m.bottom_up() if f in funcs]
    for f in order:
        excl_summary[f.name] = _cow_function(rep, rid, m, f, excl_summary, report=False)
    for f in order:
        rep.functions += 1
        _cow_function(rep, rid, m, f, excl_summary, report=True)
    rule_cmp(rep, m)
    rule_cmp_semantic(rep, m)
    rule_assign_semantic(rep, m)


def _cow_function(rep, rid, m, f, summ, report):
    R = ptr.resolver(f)
    this = f.params[0]
    is_const = f.name.startswith("_ZNK")
    is_detach = "6detach" in f.name
    is_ctor = bool(re.match(r"^_ZN5ascon10byte_arrayC[12]", f.name))
    is_dtor = bool(re.match(r"^_ZN5ascon10byte_arrayD[012]", f.name))

    def p_loads_of(v):
        ch = _this_chain(f, R, v)
        return ch

    # block-level must analysis: EXCL (True) / possibly shared (False)
    IN = {f.blocks[0].name: False}
    OUT = {}
    viol = []
    order = f.rpo()

    def edge_refine(b, succ, val):
        t = b.term
        if t.op == "br" and t.ops and len(t.succs) == 2:
            c = f.defs.get(t.ops[0]) if ir.is_local(t.ops[0]) else None
            if c is not None and c.op == "icmp":
                x, y = c.ops
                ld = f.defs.get(x) if ir.is_local(x) else None
                if ld is not None and ld.op == "load" and ir.const_int(y) == 1:
                    ch = _this_chain(f, R, ld.ops[0])
                    # ref is field 0 of the private block: this->p->ref
                    if ch is not None and len(ch) == 1 and ch[0][1] == 0:
                        p = c.d["pred"]
                        if p == "ugt" and succ == t.succs[1] and t.succs[0] != t.succs[1]:
                            return True
                        if p == "ule" and succ == t.succs[0] and t.succs[0] != t.succs[1]:
                            return True
        return val

    changed = True
    guard = 0
    while changed:
        changed = False
        guard += 1
        if guard > 100:
            raise RuntimeError("COW fixpoint did not converge in " + f.name)
        for b in order:
            if b is not f.blocks[0]:
                vals = []
                for pb in b.preds:
                    if pb.name in OUT:
                        vals.append(edge_refine(pb, b.name, OUT[pb.name]))
                if not vals:
                    continue
                IN[b.name] = all(vals)
            st = IN[b.name]
            for i in b.insts:
                if i.op in ("call", "invoke"):
                    cal = i.callee or ""
                    if i.ops and i.ops[0] == this or (i.ops and R.resolve(i.ops[0]).single() == ("param", this)):
                        if "byte_array6detach" in cal:
                            st = True
                            continue
                        if cal in summ and summ[cal]:
                            st = True
                            continue
                    if ptr.is_memset(i) or ptr.is_memcpy(i):
                        ch = _this_chain(f, R, i.ops[0])
                        if ch and not st and report and not is_detach:
                            viol.append((i, "block write into the shared buffer"))
                    continue
                if i.op == "store":
                    # store to this->p
                    pv = R.resolve(i.ops[1])
                    if pv.single() == ("param", this) and pv.offset == 0:
                        src = R.resolve(i.ops[0])
                        r0 = src.single()
                        fresh = r0 is not None and r0[0] == "call" and (f.defs[r0[1]].callee or "") in ("_Znwm", "_Znam")
                        st = bool(fresh) or (ir.const_int(i.ops[0]) == 0 or i.ops[0] == "null") and False
                        continue
                    ch = _this_chain(f, R, i.ops[1])
                    if ch:
                        first_off = ch[0][1]
                        is_ref = len(ch) == 1 and first_off == 0 and not ch[0][2]
                        if is_ref:
                            continue          # reference count updates are shared by design
                        if not st and report and not is_detach and not is_dtor:
                            what = "store into the shared block (private field at offset %s)" % first_off \
                                if len(ch) == 1 else "store into the shared data buffer"
                            viol.append((i, what))
                    continue
                if i.op == "ret" and i.ops and not is_const and f.d["ret"].endswith("*"):
                    ch = _this_chain(f, R, i.ops[0])
                    if ch and not st and report:
                        viol.append((i, "returns a mutable pointer into the shared block"))
            if OUT.get(b.name) != st:
                OUT[b.name] = st
                changed = True
    rets = [b for b in f.blocks if b.term.op == "ret"]
    res = bool(rets) and all(OUT.get(b.name, False) for b in rets)
    if report:
        if viol:
            i, what = viol[0]
            rep.violation(rid, "%s:cow" % (f.d.get("srcname") or f.name), i.where(),
                          "byte_array::%s: %s while the block may still be shared with another byte_array "
                          "(no detach / ref<=1 guard on this path)" % (f.d.get("srcname") or f.name, what))
        else:
            rep.instance(rid, 1, {"member": f.d.get("srcname") or f.name, "leaves_exclusive": res})
    return res


def rule_cmp(rep, m):
    """cmp(): the null branches must order (empty, non-empty) the same way as
    the general branch does."""
    rid = "C20.D4c"
    rep.rule(rid, "byte_array::cmp orders an empty and a non-empty array consistently in all branches")
    f = None
    for g in m.defined():
        if re.match(r"^_ZNK5ascon10byte_array3cmpERKS0_$", g.name):
            f = g
    if f is None:
        raise repo.AnalysisBroken("byte_array::cmp not found in the NO_STL IR")
    rep.functions += 1
    R = ptr.resolver(f)
    this, other = f.params[0], f.params[1]
    # classify `ret` contributions by the null tests that dominate them
    signs = {}
    retb = [b for b in f.blocks if b.term.op == "ret"]
    contribs = []
    for b in retb:
        v = b.term.ops[0]
        d = f.defs.get(v) if ir.is_local(v) else None
        if d is not None and d.op == "phi":
            contribs += [(val, pred) for val, pred in d.d["inc"]]
        else:
            contribs.append((v, b.name))

    def null_facts(blockname):
        """which of this->p / other.p are known null at this block"""
        out = {}
        doms = f.dominators()[blockname] | {blockname}
        for dn in doms:
            bb = f.bmap[dn]
            t = bb.term
            if t.op != "br" or not t.ops or len(t.succs) != 2:
                continue
            c = f.defs.get(t.ops[0]) if ir.is_local(t.ops[0]) else None
            if c is None or c.op != "icmp" or c.d["pred"] not in ("eq", "ne"):
                continue
            x, y = c.ops
            if y != "null" and x != "null":
                continue
            pv = x if y == "null" else y
            ld = f.defs.get(pv) if ir.is_local(pv) else None
            if ld is None or ld.op != "load":
                continue
            root = R.resolve(ld.ops[0]).single()
            who = "this" if root == ("param", this) else "other" if root == ("param", other) else None
            if who is None:
                continue
            null_succ = t.succs[0] if c.d["pred"] == "eq" else t.succs[1]
            nn_succ = t.succs[1] if c.d["pred"] == "eq" else t.succs[0]
            for s, val in ((null_succ, True), (nn_succ, False)):
                if (s in doms) and len(f.bmap[s].preds) == 1:
                    out[who] = val
        return out

    def sign_of(val, pred_block):
        """possible non-zero sign of a return contribution when the *other*
        array is non-empty: looks through `select(size > 0, C, 0)`"""
        c = ir.const_int(val)
        if c is not None:
            return c
        d = f.defs.get(val) if ir.is_local(val) else None
        if d is not None and d.op == "select":
            a, b2 = ir.const_int(d.ops[1]), ir.const_int(d.ops[2])
            if a is not None and b2 is not None:
                return a if a != 0 else b2
        if d is not None and d.op == "zext":
            return 1
        return None
    empty_vs_nonempty = None   # sign when this is null, other non-empty
    nonempty_vs_empty = None
    for val, pb in contribs:
        nf = null_facts(pb)
        if nf.get("this") is True and nf.get("other") is not True:
            empty_vs_nonempty = sign_of(val, pb)
        elif nf.get("other") is True and nf.get("this") is False:
            nonempty_vs_empty = sign_of(val, pb)
    if empty_vs_nonempty is None or nonempty_vs_empty is None:
        rep.unproved_item(rid, "could not identify the null branches of byte_array::cmp")
        return
    bad = []
    if not empty_vs_nonempty < 0:
        bad.append("(empty, non-empty) returns %+d, but a shorter array must compare less (the general branch "
                   "returns -1 when this is a proper prefix of other)" % empty_vs_nonempty)
    if not nonempty_vs_empty > 0:
        bad.append("(non-empty, empty) returns %+d, but must be positive" % nonempty_vs_empty)
    if bad:
        rep.violation(rid, "byte_array::cmp:null-branches", f.src, "byte_array::cmp: " + "; ".join(bad))
    else:
        rep.instance(rid, 2, {"empty_vs_nonempty": empty_vs_nonempty, "nonempty_vs_empty": nonempty_vs_empty})


def rule_cmp_semantic(rep, m):
    """D4s: byte_array::cmp has the ordering of std::vector<unsigned char>
    (lexicographic, length as tie-break, all empty arrays equal however they
    came to be empty): the method's IR is evaluated by constant propagation
    (av/affine.Machine, memcmp modelled on constant memory) on every ordered
    pair of a small family of array representations - no storage, storage with
    size 0, one and two bytes with equal / smaller / larger contents, and an
    alias of the same block."""
    from .affine import Machine, Ptr, Unsupported, const_bits, to_int, is_const
    from .sponge import cbytes
    rid = "C20.D4s"
    rep.rule(rid, "byte_array::cmp orders arrays like std::vector (all representations of small arrays, incl. empty ones)")
    f = None
    for g in m.defined():
        if re.match(r"^_ZNK5ascon10byte_array3cmpERKS0_$", g.name):
            f = g
    if f is None:
        raise repo.AnalysisBroken("byte_array::cmp not found in the NO_STL IR")
    t = None
    for dt in m.ditypes:
        if dt["name"] == "byte_array_private":
            t = dt
    if t is None:
        raise repo.AnalysisBroken("%s: no debug type for byte_array_private" % rid)
    off = {mem[0]: mem[1] for mem in t["members"]}
    if not {"ref", "size", "capacity", "data"} <= set(off):
        raise repo.AnalysisBroken("%s: unexpected members of byte_array_private: %s" % (rid, sorted(off)))
    reps = [("no storage", None), ("empty with storage", b""), ("[01]", b"\x01"), ("[02]", b"\x02"), ("[01 01]", b"\x01\x01"),
            ("[01 02]", b"\x01\x02"), ("[00]", b"\x00"), ("[ff]", b"\xff"), ("[01] again", b"\x01")]

    def memcmp_hook(mc, args):
        a, b, n = args
        n = to_int(n)
        if n is None:
            raise Unsupported("memcmp with a non-constant length")
        for k in range(n):
            x, y = mc.load(Ptr(a.obj, a.off + k), 1), mc.load(Ptr(b.obj, b.off + k), 1)
            if not (is_const(x) and is_const(y)):
                raise Unsupported("memcmp on non-constant memory")
            if to_int(x) != to_int(y):
                return const_bits((1 if to_int(x) > to_int(y) else -1) & 0xffffffff, 32)
        return const_bits(0, 32)

    def build(mc, tag, content):
        obj = mc.new_obj("arr_" + tag, 8, symbolic=False)
        if content is None:
            mc.store(obj, const_bits(0, 64))
            return obj
        blk = mc.new_obj("blk_" + tag, t["size"], symbolic=False)
        dat = mc.new_obj("dat_" + tag, max(len(content), 1) + 3, symbolic=False)
        mc.store(dat, cbytes(content + b"\xaa\xbb\xcc"))
        mc.store(Ptr(blk.obj, off["ref"]), const_bits(1, 64))
        mc.store(Ptr(blk.obj, off["size"]), const_bits(len(content), 64))
        mc.store(Ptr(blk.obj, off["capacity"]), const_bits(len(content) + 3, 64))
        mc.store_ptr(Ptr(blk.obj, off["data"]), dat)
        mc.store_ptr(obj, blk)
        return obj
    bad = []
    n = 0
    try:
        for i, (na, ca) in enumerate(reps):
            for j, (nb, cb) in enumerate(reps):
                mc = Machine(m)
                mc.hooks["memcmp"] = memcmp_hook
                a = build(mc, "a", ca)
                b2 = a if (i == j) else build(mc, "b", cb)       # i == j: the same object (alias)
                r = to_int(mc.call(f.name, [a, b2]))
                if r is None:
                    raise Unsupported("result not constant")
                r = r - (1 << 32) if r >> 31 else r
                va, vb = ca or b"", cb or b""
                want = (va > vb) - (va < vb)
                got = (r > 0) - (r < 0)
                n += 1
                if got != want:
                    bad.append("%s vs %s gives %d, std::vector orders them %s" % (
                        na, nb if i != j else "itself", r, {0: "equal", 1: "greater", -1: "less"}[want]))
    except Unsupported as e:
        rep.unproved_item(rid, "byte_array::cmp: %s" % e)
        return
    if bad:
        rep.violation(rid, "byte_array::cmp:ordering", f.src, "byte_array::cmp (ASCON_NO_STL): " + "; ".join(bad[:4]) +
                      (" (and %d more)" % (len(bad) - 4) if len(bad) > 4 else ""))
    else:
        rep.instance(rid, n, {"pairs": n})


def rule_assign_semantic(rep, m):
    """D4a: byte_array::operator= has the value semantics of std::vector: after
    `a = b` the array a holds b's contents and b is unchanged - also when a and b
    are the same object or already share their block - and the reference count
    of every block equals the number of arrays that point to it (a block whose
    count reaches zero is deleted, no other block is).  Evaluated by constant
    propagation on the representations: no storage, sole owner, and a block
    shared by two arrays."""
    from .affine import Machine, Ptr, Unsupported, const_bits, to_int, is_const
    from .sponge import cbytes
    rid = "C20.D4a"
    rep.rule(rid, "byte_array::operator= (NO_STL): a = b gives b's value, leaves b intact, keeps reference counts exact - incl. a = a")
    f = None
    for g in m.defined():
        if re.match(r"^_ZN5ascon10byte_arrayaSERKS0_$", g.name):
            f = g
    if f is None:
        rep.unproved_item(rid, "byte_array::operator=(const byte_array &) is not emitted in the NO_STL witness IR")
        return
    t = None
    for dt in m.ditypes:
        if dt["name"] == "byte_array_private":
            t = dt
    if t is None:
        raise repo.AnalysisBroken("%s: no debug type for byte_array_private" % rid)
    off = {mem[0]: mem[1] for mem in t["members"]}

    def block(mc, tag, content, ref):
        blk = mc.new_obj("blk_" + tag, t["size"], symbolic=False)
        dat = mc.new_obj("dat_" + tag, max(len(content), 1), symbolic=False)
        mc.store(dat, cbytes(content or b"\0"))
        mc.store(Ptr(blk.obj, off["ref"]), const_bits(ref, 64))
        mc.store(Ptr(blk.obj, off["size"]), const_bits(len(content), 64))
        mc.store(Ptr(blk.obj, off["capacity"]), const_bits(max(len(content), 1), 64))
        mc.store_ptr(Ptr(blk.obj, off["data"]), dat)
        return blk

    def arr(mc, tag, blk):
        o = mc.new_obj("arr_" + tag, 8, symbolic=False)
        if blk is None:
            mc.store(o, const_bits(0, 64))
        else:
            mc.store_ptr(o, blk)
        return o
    # scenario: (description, builder) ; builder returns (a, b, arrays {name: obj}, blocks {name: (blk, content)})
    scen = []

    def s_distinct(mc, ca, cb):
        ba = block(mc, "A", ca, 1) if ca is not None else None
        bb = block(mc, "B", cb, 1) if cb is not None else None
        a, b = arr(mc, "a", ba), arr(mc, "b", bb)
        return a, b, {"a": a, "b": b}
    for ca in (None, b"\x01\x02"):
        for cb in (None, b"\x07"):
            scen.append(("a (%s) = b (%s)" % ("no storage" if ca is None else "sole owner", "no storage" if cb is None else "sole owner"),
                         lambda mc, ca=ca, cb=cb: s_distinct(mc, ca, cb)))

    def s_self(mc, shared):
        blk = block(mc, "A", b"\x01\x02\x03", 2 if shared else 1)
        a = arr(mc, "a", blk)
        arrs = {"a": a}
        if shared:
            arrs["c"] = arr(mc, "c", blk)
        return a, a, arrs
    scen.append(("a = a (sole owner)", lambda mc: s_self(mc, False)))
    scen.append(("a = a (block shared with another array)", lambda mc: s_self(mc, True)))

    def s_shared(mc):
        blk = block(mc, "A", b"\x05\x06", 2)
        a, b = arr(mc, "a", blk), arr(mc, "b", blk)
        return a, b, {"a": a, "b": b}
    scen.append(("a = b (already sharing one block)", s_shared))
    scen.append(("a = a (no storage)", lambda mc: (lambda a: (a, a, {"a": a}))(arr(mc, "a", None))))
    bad, n = [], 0
    try:
        for desc, mk in scen:
            mc = Machine(m)
            deleted = []

            def del_hook(mc_, args, deleted=deleted):
                p = args[0]
                if isinstance(p, Ptr) and p.obj != "null":
                    deleted.append(p.obj)
                return None
            for nm in ("_ZdlPv", "_ZdlPvm", "_ZdaPv", "free"):
                mc.hooks[nm] = del_hook
            a, b, arrs = mk(mc)

            def value(o):
                pp = mc.pmem.get((o.obj, o.off))
                if pp is None or pp.obj == "null":
                    return None, b""
                if pp.obj in deleted:
                    return pp, None
                sz = to_int(mc.load(Ptr(pp.obj, off["size"]), 8))
                dp = mc.pmem.get((pp.obj, off["data"]))
                if sz is None or (sz and dp is None):
                    raise Unsupported("array not readable after the assignment")
                data = bytes(to_int(mc.load(Ptr(dp.obj, k), 1)) for k in range(sz)) if sz else b""
                return pp, data
            want = value(b)[1]
            others = {k: value(o)[1] for k, o in arrs.items() if o is not a}
            mc.call(f.name, [a, b])
            n += 1
            got = value(a)[1]
            if got is None:
                bad.append("%s: a points to a deleted block" % desc)
                continue
            if got != want:
                bad.append("%s: a holds %s afterwards, std::vector would hold %s" % (desc, got.hex() or "nothing", want.hex() or "nothing"))
                continue
            for k, o in arrs.items():
                if o is not a and value(o)[1] != others[k]:
                    bad.append("%s: array %s changed from %s to %s" % (desc, k, others[k].hex(), (value(o)[1] or b"").hex() if value(o)[1] is not None else "a deleted block"))
            # reference counts
            cnt = {}
            for k, o in arrs.items():
                pp = value(o)[0]
                if pp is not None:
                    cnt[pp.obj] = cnt.get(pp.obj, 0) + 1
            for blkname, c in cnt.items():
                r = to_int(mc.load(Ptr(blkname, off["ref"]), 8))
                if r != c:
                    bad.append("%s: a block referenced by %d array(s) has reference count %s" % (desc, c, r))
    except Unsupported as e:
        rep.unproved_item(rid, "byte_array::operator=: %s" % e)
        return
    if bad:
        rep.violation(rid, "byte_array::operator=:value", f.src, "byte_array::operator= (ASCON_NO_STL): " + "; ".join(bad[:3]) +
                      (" (and %d more)" % (len(bad) - 3) if len(bad) > 3 else ""))
    else:
        rep.instance(rid, n, {"scenarios": n})


def rule_cpp_helper_semantic(rep, build, rid="C20.D3s"):
    """The C++ helper bytes_from_hex(const char *, size_t) returns exactly what
    the C decoder accepts: its IR (ASCON_NO_STL instantiation, so that the
    returned array is the library's own byte_array) is evaluated by constant
    propagation with ascon_bytes_from_hex replaced by its specification (the
    documented decoder, decided by D1 / D1s) and the allocator by fresh
    objects, on strings with white space, odd and even lengths, invalid
    characters and the empty string."""
    from .affine import Machine, Ptr, Unsupported, const_bits, to_int, is_const
    from .sponge import cbytes
    rep.rule(rid, "C++ bytes_from_hex returns exactly the bytes the C decoder accepts (strings with white space, odd lengths, failures)")
    m = witness_ir(build, True)
    f = None
    for g in m.defined():
        if g.name.startswith("_ZN5asconL14bytes_from_hexEPKcm"):
            f = g
    if f is None:
        rep.unproved_item(rid, "bytes_from_hex(const char *, size_t) is not emitted in the NO_STL witness IR")
        return
    t = None
    for dt in m.ditypes:
        if dt["name"] == "byte_array_private":
            t = dt
    if t is None:
        raise repo.AnalysisBroken("%s: no debug type for byte_array_private" % rid)
    off = {mem[0]: mem[1] for mem in t["members"]}

    def ref(inp, outlen):
        out, nib = [], None
        for ch in inp:
            if ch in b" \t\r\n\f\v":
                continue
            if 48 <= ch <= 57:
                v = ch - 48
            elif 97 <= ch <= 102:
                v = ch - 87
            elif 65 <= ch <= 70:
                v = ch - 55
            else:
                return -1, out
            if nib is None:
                nib = v
            else:
                if len(out) >= outlen:
                    return -1, out
                out.append(nib * 16 + v)
                nib = None
        return (-1, out) if nib is not None else (len(out), out)
    inputs = [b"", b"00", b"00 01", b"de ad be ef", b"0a0b\n", b" 00ff", b"1 2", b"0", b"0g", b"012", b"AbCd", b"\t\n"]
    bad, n = [], 0
    try:
        for inp in inputs:
            mc = Machine(m)
            cnt = [0]

            def alloc(mc_, args, cnt=cnt):
                k = to_int(args[0])
                if k is None:
                    raise Unsupported("allocation of a non-constant size")
                cnt[0] += 1
                o = mc_.new_obj("heap%d" % cnt[0], max(k, 1), symbolic=False)
                mc_.store(o, const_bits(0, 8 * max(k, 1)))
                return o

            def decoder(mc_, args):
                o, ol, ip, il = args
                ol, il = to_int(ol), to_int(il)
                if ol is None or il is None:
                    raise Unsupported("decoder called with non-constant lengths")
                data = bytes(to_int(mc_.load(Ptr(ip.obj, ip.off + k), 1)) for k in range(il))
                r, out = ref(data, ol)
                for k, bt in enumerate(out):
                    mc_.store(Ptr(o.obj, o.off + k), const_bits(bt, 8))
                return const_bits(r & 0xffffffff, 32)
            for nm in ("_Znwm", "_Znam", "malloc"):
                mc.hooks[nm] = alloc
            mc.hooks["calloc"] = lambda mc_, a: alloc(mc_, [const_bits((to_int(a[0]) or 0) * (to_int(a[1]) or 0), 64)])
            for nm in ("_ZdlPv", "_ZdaPv", "free", "_ZdlPvm"):
                mc.hooks[nm] = lambda mc_, a: None
            mc.hooks["ascon_bytes_from_hex"] = decoder
            sobj = mc.new_obj("str", len(inp) + 1, symbolic=False)
            mc.store(sobj, cbytes(inp + b"\0"))
            res = mc.new_obj("res", 8, symbolic=False)
            mc.store(res, const_bits(0, 64))
            mc.call(f.name, [res, sobj, const_bits(len(inp), 64)])
            pp = mc.pmem.get((res.obj, 0))
            if pp is None or pp.obj == "null":
                got = b""
            else:
                sz = to_int(mc.load(Ptr(pp.obj, off["size"]), 8))
                dp = mc.pmem.get((pp.obj, off["data"]))
                if sz is None or (sz and dp is None):
                    raise Unsupported("returned array not readable")
                got = bytes(to_int(mc.load(Ptr(dp.obj, dp.off + k), 1)) for k in range(sz))
            r, out = ref(inp, len(inp) // 2)
            want = bytes(out) if r >= 0 else b""
            n += 1
            if got != want:
                bad.append("%r gives %s, the C decoder gives %s" % (inp, got.hex() or "an empty array", want.hex() or "an empty array"))
    except Unsupported as e:
        rep.unproved_item(rid, "bytes_from_hex: %s" % e)
        return
    if bad:
        rep.violation(rid, "bytes_from_hex:value", f.src, "ascon::bytes_from_hex (C++ helper): " + "; ".join(bad[:3]) +
                      (" (and %d more)" % (len(bad) - 3) if len(bad) > 3 else ""))
    else:
        rep.instance(rid, n, {"inputs": n})


def rule_decoder_semantic(rep, m):
    """D1s (bounded, by constant propagation through the IR): ascon_bytes_from_hex
    returns the documented result and output for every one-character context -
    each of the 256 byte values as first and as second character of a pair -
    and for a set of structured inputs (white space of all six kinds, mixed
    case, odd digit counts, output limits incl. zero, empty input)."""
    from .affine import Machine, Unsupported, const_bits, to_int, is_const
    from .sponge import cbytes
    rid = "C20.D1s"
    rep.rule(rid, "ascon_bytes_from_hex gives the documented result for every byte value in both nibble positions and for structured inputs")
    f = m.funcs.get("ascon_bytes_from_hex")
    if f is None or f.decl:
        raise repo.AnalysisBroken("ascon_bytes_from_hex is not defined")

    def ref(inp, outlen):
        out, nib = [], None
        for ch in inp:
            if ch in b" \t\r\n\f\v":
                continue
            if 48 <= ch <= 57:
                v = ch - 48
            elif 97 <= ch <= 102:
                v = ch - 87
            elif 65 <= ch <= 70:
                v = ch - 55
            else:
                return -1, out
            if nib is None:
                nib = v
            else:
                if len(out) >= outlen:
                    return -1, out
                out.append(nib * 16 + v)
                nib = None
        return (-1, out) if nib is not None else (len(out), out)
    cases = []
    for c in range(256):
        cases.append((bytes([c, 0x37]), 4))
        cases.append((bytes([0x37, c]), 4))
        cases.append((bytes([0x61, 0x42, c, 0x39, 0x30]), 4))
    for inp, ol in ((b"", 4), (b"0", 4), (b"0 1", 4), (b"01 23\t45\n67", 4), (b"012", 4), (b"AbCdEf09", 4), (b"ff", 0), (b"0011", 1),
                    (b" \t\r\n\f\v", 4), (b"\v0\f1\r", 1), (b"00112233", 4), (b"0011223344", 4), (b"G0", 4), (b"0g", 4), (b"@A", 4),
                    (b"`a", 4), (b"/0", 4), (b":9", 4), (b"[F", 4), (b"{f", 4), (b"0\x00", 4), (b"\x80\x81", 4), (b"12 ", 0)):
        cases.append((inp, ol))
    bad = []
    try:
        for inp, ol in cases:
            mc = Machine(m)
            ib = mc.new_obj("in", max(len(inp), 1), symbolic=False)
            mc.store(ib, cbytes(inp + (b"" if inp else b"\0")))
            ob = mc.new_obj("out", 8, symbolic=False)
            mc.store(ob, cbytes(b"\xee" * 8))
            r = to_int(mc.call("ascon_bytes_from_hex", [ob, const_bits(ol, 64), ib, const_bits(len(inp), 64)]))
            if r is None:
                raise Unsupported("result not constant")
            r = r - (1 << 32) if r >> 31 else r
            wr, wout = ref(inp, ol)
            got = mc.load(ob, 8)
            gb = bytes(to_int(got[8 * k:8 * k + 8]) for k in range(8)) if is_const(got) else None
            # the property fixes the result, the decoded bytes on success, and that nothing beyond the
            # `ol` bytes of space is written; what the space holds after a failure is not specified
            okout = gb is not None and gb[ol:] == b"\xee" * (8 - ol) and (wr < 0 or gb[:len(wout)] == bytes(wout))
            if r != wr or not okout:
                over = gb is not None and gb[ol:] != b"\xee" * (8 - ol)
                bad.append("input %r with room for %d byte(s): returned %d and left %s in the buffer%s, documented: %d and %s" % (
                    inp, ol, r, gb.hex() if gb else "?", " (bytes beyond the space given were written)" if over else "",
                    wr, (bytes(wout).hex() or "nothing") if wr >= 0 else "no write beyond the space given"))
    except Unsupported as e:
        rep.unproved_item(rid, "ascon_bytes_from_hex: %s" % e)
        return
    if bad:
        rep.violation(rid, "ascon_bytes_from_hex:semantics", f.src, "ascon_bytes_from_hex: " + "; ".join(bad[:3]) +
                      (" (and %d more)" % (len(bad) - 3) if len(bad) > 3 else ""))
    else:
        rep.instance(rid, len(cases), {"inputs": len(cases)})


def rule_encoder_semantic(rep, m):
    """D2s (bounded, constant propagation through the IR): ascon_bytes_to_hex
    writes the two hex digits of every byte value in both letter cases plus the
    terminator and returns the length; a buffer that is too small gives -1, an
    empty string when there is room for it, and no other write."""
    from .affine import Machine, Unsupported, const_bits, to_int, is_const
    from .sponge import cbytes
    rid = "C20.D2s"
    rep.rule(rid, "ascon_bytes_to_hex gives the documented string for every byte value, both cases, and refuses short buffers without overrun")
    f = m.funcs.get("ascon_bytes_to_hex")
    if f is None or f.decl:
        raise repo.AnalysisBroken("ascon_bytes_to_hex is not defined")
    cases = []
    for upper in (0, 1, 7):
        for v in range(256):
            cases.append((bytes([v]), 8, upper))
        cases.append((bytes([0x01, 0xab, 0xff, 0x00]), 9, upper))
        cases.append((b"", 1, upper))
    for inp, ol in ((b"\x12\x34", 4), (b"\x12\x34", 0), (b"\x12", 2), (b"\x12", 1), (b"", 0), (b"\x12\x34\x56", 6), (b"\x12\x34\x56", 7)):
        cases.append((inp, ol, 0))
    bad = []
    try:
        for inp, ol, upper in cases:
            mc = Machine(m)
            ib = mc.new_obj("in", max(len(inp), 1), symbolic=False)
            mc.store(ib, cbytes(inp + (b"" if inp else b"\0")))
            ob = mc.new_obj("out", 12, symbolic=False)
            mc.store(ob, cbytes(b"\xee" * 12))
            r = to_int(mc.call("ascon_bytes_to_hex", [ob, const_bits(ol, 64), ib, const_bits(len(inp), 64), const_bits(upper, 32)]))
            if r is None:
                raise Unsupported("result not constant")
            r = r - (1 << 32) if r >> 31 else r
            got = mc.load(ob, 12)
            if not is_const(got):
                raise Unsupported("output not constant")
            gb = bytes(to_int(got[8 * k:8 * k + 8]) for k in range(12))
            if ol < 2 * len(inp) + 1:
                wr, wout = -1, (b"\0" if ol > 0 else b"")
            else:
                hx = inp.hex().upper() if upper else inp.hex()
                wr, wout = 2 * len(inp), hx.encode() + b"\0"
            if r != wr or gb != wout + b"\xee" * (12 - len(wout)):
                bad.append("input %s, room %d, upper_case %d: returned %d and wrote %r, documented %d and %r" % (
                    inp.hex() or "(empty)", ol, upper, r, gb.rstrip(b"\xee"), wr, wout))
    except Unsupported as e:
        rep.unproved_item(rid, "ascon_bytes_to_hex: %s" % e)
        return
    if bad:
        rep.violation(rid, "ascon_bytes_to_hex:semantics", f.src, "ascon_bytes_to_hex: " + "; ".join(bad[:3]) +
                      (" (and %d more)" % (len(bad) - 3) if len(bad) > 3 else ""))
    else:
        rep.instance(rid, len(cases), {"inputs": len(cases)})
