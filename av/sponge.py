"""Mode-level conformance with the permutation as an uninterpreted function.

Everything the ASCON modes do around the permutation is GF(2)-linear: XOR of
key / nonce / data bytes into the state, padding, domain separation, output
extraction.  This module interprets the LLVM IR of the library's mode
functions with av/affine.Machine (data symbolic, control flow concrete for a
given public shape, i.e. given lengths), replacing every call of ascon_permute
by a *function symbol*: the canonical 320-bit input expression is looked up in
a memo table and mapped to 320 fresh output atoms (or, if the input is fully
constant, to the real permutation's output computed by av/oracle.py).  The
same memo is used by an independent transcription of the specifications
(this file, class Spec), so the outputs of both can be compared as bit
expressions: equality means the library function equals the specification for
*every* key, nonce and data value of that shape, and for every permutation.

Nothing of the library is executed; no solver is involved.  The shapes
(lengths, chunkings) are enumerated, so the statement is bounded in the
lengths and exact in the values.
"""
import os

from . import affine, ir, oracle, repo
from .affine import (ONEBIT, ZERO, Machine, Ptr, Unsupported, atom_bit, const_bits, is_const, to_int)


# ---------------------------------------------------------------------------
# shared symbolic context

class Ctx:
    def __init__(self):
        self.memo = {}
        self.nperm = 0

    def perm(self, state_bits, first_round):
        """state_bits: 320 bit polynomials, canonical byte order, lsb-first in
        each byte.  -> 320 output bits"""
        key = (first_round, tuple(state_bits))
        r = self.memo.get(key)
        if r is not None:
            return r
        if is_const(state_bits):
            data = bytes(to_int(state_bits[8 * k:8 * k + 8]) for k in range(40))
            out = oracle.words_to_bytes(oracle.permute(oracle.bytes_to_words(data), first_round))
            r = tuple(b for byte in out for b in const_bits(byte, 8))
        else:
            self.nperm += 1
            n = self.nperm
            r = tuple(atom_bit(("P", n, k // 8, k % 8)) for k in range(320))
        self.memo[key] = r
        return r


def sym_bytes(name, n):
    return tuple(atom_bit((name, k // 8, k % 8)) for k in range(n * 8))


def cbytes(data):
    return tuple(b for byte in data for b in const_bits(byte, 8))


def xor(a, b):
    return tuple(x ^ y for x, y in zip(a, b))


# ---------------------------------------------------------------------------
# state layouts of the back ends (checked against the back end's own
# ascon_extract_bytes / ascon_overwrite_bytes by self_check)

def layout_of(build):
    m = repo.macros(build, os.path.join(repo.REPO, "src/core/ascon-select-backend.h"))
    if "ASCON_BACKEND_SLICED64" in m:
        return "sliced64"
    if "ASCON_BACKEND_SLICED32" in m:
        return "sliced32"
    return "bytes"


def canon_from_mem(mem, layout):
    """mem: 320 bits of the state object in memory order -> canonical 320 bits"""
    if layout == "bytes":
        return tuple(mem)
    if layout == "sliced64":
        out = []
        for i in range(5):
            for j in range(8):
                src = i * 8 + (7 - j)
                out.extend(mem[src * 8:src * 8 + 8])
        return tuple(out)
    if layout == "sliced32":
        out = [None] * 320
        for i in range(5):
            ev = mem[(2 * i) * 32:(2 * i) * 32 + 32]        # W[2i]   (little-endian bit order in memory)
            od = mem[(2 * i + 1) * 32:(2 * i + 1) * 32 + 32]  # W[2i+1]
            # word bit 2k = ev bit k, word bit 2k+1 = od bit k ; word bit p lives in canonical byte (7 - p//8), bit p%8
            for k in range(32):
                for p, v in ((2 * k, ev[k]), (2 * k + 1, od[k])):
                    out[(i * 8 + (7 - p // 8)) * 8 + p % 8] = v
        return tuple(out)
    raise ValueError(layout)


def mem_from_canon(can, layout):
    if layout == "bytes":
        return tuple(can)
    if layout == "sliced64":
        out = []
        for i in range(5):
            for j in range(8):
                src = i * 8 + (7 - j)
                out.extend(can[src * 8:src * 8 + 8])
        return tuple(out)
    if layout == "sliced32":
        out = [None] * 320
        for i in range(5):
            for k in range(32):
                for p, base in ((2 * k, (2 * i) * 32), (2 * k + 1, (2 * i + 1) * 32)):
                    out[base + k] = can[(i * 8 + (7 - p // 8)) * 8 + p % 8]
        return tuple(out)
    raise ValueError(layout)


def self_check(m, layout):
    """the native layout maps agree with the back end's own byte interface"""
    mc = Machine(m)
    st = mc.new_obj("S", 40)
    out = mc.new_obj("O", 40, symbolic=False)
    mc.call("ascon_extract_bytes", [st, out, const_bits(0, 32), const_bits(40, 32)])
    a = mc.load(out, 40)
    b = canon_from_mem(mc.load(st, 40), layout)
    if a != b:
        raise repo.AnalysisBroken("state layout model '%s' disagrees with ascon_extract_bytes" % layout)
    if mem_from_canon(b, layout) != mc.load(st, 40):
        raise repo.AnalysisBroken("state layout model '%s' is not invertible" % layout)


def install(mc, ctx, layout, module):
    """replace the permutation (and friends) by function symbols"""
    def h_permute(mach, args):
        st, fr = args[0], to_int(args[1])
        if fr is None:
            raise Unsupported("symbolic first_round")
        can = canon_from_mem(mach.load(st, 40), layout)
        out = ctx.perm(can, fr & 0xff)
        mach.store(st, mem_from_canon(out, layout))
        return None
    mc.hooks["ascon_permute"] = h_permute
    mc.hooks["ascon_backend_init"] = lambda mach, args: None
    mc.hooks["ascon_backend_free"] = lambda mach, args: None
    # masked permutations: decode the shares, permute, re-encode with all
    # randomness zero (a valid value of the random source)
    for K in (2, 3, 4):
        name = "ascon_x%d_permute" % K
        mc.hooks[name] = _masked_hook(ctx, module, K)

    def h_trng_init(mach, args):
        return None
    mc.hooks["ascon_trng_init"] = h_trng_init
    mc.hooks["ascon_trng_free"] = lambda mach, args: None
    mc.hooks["ascon_trng_generate_64"] = lambda mach, args: mach.random_bits(64)
    mc.hooks["ascon_trng_generate_32"] = lambda mach, args: mach.random_bits(32)


def _masked_hook(ctx, module, K):
    def hook(mach, args):
        st, fr = args[0], to_int(args[1])
        W = mach._wordops
        can = []
        for i in range(5):
            v = W.decode(K, mach, Ptr(st.obj, st.off + i * W.wsize))     # 64 value bits, bit 63 = msb
            for j in range(8):
                can.extend(v[(7 - j) * 8:(7 - j) * 8 + 8])
        out = ctx.perm(tuple(can), fr & 0xff)
        # re-encode: share 0 carries the value, the other shares are zero
        for i in range(5):
            tmp = "mperm.%d" % mach.fresh
            mach.fresh += 1
            buf = mach.new_obj(tmp, 8, symbolic=False)
            mach.store(buf, out[i * 64:(i + 1) * 64])
            saved = mach.hooks.get("ascon_trng_generate_64"), mach.hooks.get("ascon_trng_generate_32")
            mach.hooks["ascon_trng_generate_64"] = lambda m2, a2: const_bits(0, 64)
            mach.hooks["ascon_trng_generate_32"] = lambda m2, a2: const_bits(0, 32)
            trng = mach.new_obj(tmp + ".t", 64, symbolic=False)
            mach.call("ascon_masked_word_x%d_load" % K, [Ptr(st.obj, st.off + i * W.wsize), buf, trng])
            mach.hooks["ascon_trng_generate_64"], mach.hooks["ascon_trng_generate_32"] = saved
        return None
    return hook


def hook_check_tag(mach, args):
    """tag comparison on expressions: identical tag expressions mean the tags
    are equal for every value; anything else is treated as a mismatch"""
    pt, plen, t1, t2, size = args
    n = to_int(size)
    pl = to_int(plen)
    if n is None or pl is None:
        raise Unsupported("symbolic sizes in check_tag")
    same = mach.load(t1, n) == mach.load(t2, n)
    mach.tag_checks = getattr(mach, "tag_checks", []) + [same]
    if same:
        return const_bits(0, 32)
    if pl and isinstance(pt, Ptr) and pt.obj != "null":
        mach.store(pt, const_bits(0, 8) * pl)
    return const_bits(0xffffffff, 32)


def machine(m, ctx, layout, maxs=4):
    mc = Machine(m)
    mc._wordops = affine.WordOps(m, maxs)
    install(mc, ctx, layout, m)
    mc.hooks["ascon_aead_check_tag"] = hook_check_tag
    return mc


# ---------------------------------------------------------------------------
# the specifications

class Spec:
    """ASCON v1.2 (AEAD, HASH, XOF), ASCON-PRF/MAC/PrfShort, RFC 2104 HMAC,
    RFC 5869 HKDF, RFC 8018 PBKDF2, ISAP v2.0 (ISAP-A), and the library's
    documented cXOF / KMAC / KDF / SIV constructions, over bit expressions."""

    def __init__(self, ctx):
        self.ctx = ctx

    # -- helpers
    def P(self, S, rounds):
        return list(self.ctx.perm(tuple(S), 12 - rounds))

    @staticmethod
    def zero(nbytes):
        return [ZERO] * (8 * nbytes)

    @staticmethod
    def xor_at(S, off, data):
        S = list(S)
        for k, b in enumerate(data):
            S[off * 8 + k] = S[off * 8 + k] ^ b
        return S

    @staticmethod
    def set_at(S, off, data):
        S = list(S)
        for k, b in enumerate(data):
            S[off * 8 + k] = b
        return S

    @staticmethod
    def pad(data, rate):
        """10* padding to a multiple of rate bytes (always at least one byte)"""
        n = len(data) // 8
        padlen = rate - (n % rate)
        return list(data) + list(cbytes(bytes([0x80] + [0] * (padlen - 1))))

    # -- AEAD -------------------------------------------------------------
    AEAD = {
        "128": dict(iv=bytes.fromhex("80400c0600000000"), klen=16, rate=8, b=6),
        "128a": dict(iv=bytes.fromhex("80800c0800000000"), klen=16, rate=16, b=8),
        "80pq": dict(iv=bytes.fromhex("a0400c06"), klen=20, rate=8, b=6),
    }

    def aead_init(self, alg, K, N, iv=None):
        p = self.AEAD[alg]
        iv = p["iv"] if iv is None else iv
        S = list(cbytes(iv)) + list(K) + list(N)
        assert len(S) == 320
        S = self.P(S, 12)
        S = self.xor_at(S, 40 - p["klen"], K)
        return S

    def aead_ad(self, alg, S, A):
        p = self.AEAD[alg]
        r = p["rate"]
        if len(A) > 0:
            A = self.pad(A, r)
            for k in range(0, len(A) // 8, r):
                S = self.xor_at(S, 0, A[k * 8:(k + r) * 8])
                S = self.P(S, p["b"])
        S = list(S)
        S[39 * 8] = S[39 * 8] ^ ONEBIT          # domain separation: last bit of the state
        return S

    def aead_encrypt(self, alg, K, N, A, M, iv=None):
        p = self.AEAD[alg]
        r = p["rate"]
        S = self.aead_init(alg, K, N, iv)
        S = self.aead_ad(alg, S, A)
        C = []
        mlen = len(M) // 8
        Mp = self.pad(M, r)
        nblocks = len(Mp) // 8 // r
        for k in range(nblocks):
            S = self.xor_at(S, 0, Mp[k * r * 8:(k + 1) * r * 8])
            C += S[:r * 8]
            if k != nblocks - 1:
                S = self.P(S, p["b"])
        C = C[:mlen * 8]
        return tuple(C), self.aead_final(alg, S, K)

    def aead_final(self, alg, S, K):
        p = self.AEAD[alg]
        S = self.xor_at(S, p["rate"], K)
        S = self.P(S, 12)
        T = xor(S[24 * 8:], K[(p["klen"] - 16) * 8:])
        return tuple(T)

    def aead_decrypt_plain(self, alg, K, N, A, C):
        """plaintext and recomputed tag for a ciphertext body C"""
        p = self.AEAD[alg]
        r = p["rate"]
        S = self.aead_init(alg, K, N)
        S = self.aead_ad(alg, S, A)
        M = []
        clen = len(C) // 8
        full = clen // r
        for k in range(full):
            blk = C[k * r * 8:(k + 1) * r * 8]
            M += list(xor(S[:r * 8], blk))
            S = self.set_at(S, 0, blk)
            S = self.P(S, p["b"])
        rem = clen - full * r
        blk = C[full * r * 8:]
        M += list(xor(S[:rem * 8], blk))
        S = self.set_at(S, 0, blk)
        S = self.xor_at(S, rem, cbytes(b"\x80"))
        return tuple(M), self.aead_final(alg, S, K)

    # -- hash / XOF -------------------------------------------------------------
    def xof_init(self, variant_a, outlen_bytes, name=b""):
        blk = oracle.xof_first_block(variant_a, outlen_bytes, name) if isinstance(name, (bytes, bytearray)) else None
        if blk is not None:
            S = list(cbytes(blk))
        else:
            iv = oracle.hash_iv(4 if variant_a else 0, outlen_bytes * 8)
            S = list(cbytes(iv)) + list(name) + [ZERO] * (256 - len(name))
        return self.P(S, 12)

    def xof_absorb(self, S, M, variant_a, finish=True):
        b = 8 if variant_a else 12
        Mp = self.pad(M, 8)
        n = len(Mp) // 64
        for k in range(n):
            S = self.xor_at(S, 0, Mp[k * 64:(k + 1) * 64])
            if k != n - 1:
                S = self.P(S, b)
        return S

    def xof_squeeze(self, S, outlen, variant_a):
        b = 8 if variant_a else 12
        S = self.P(S, 12)
        out = []
        while len(out) < outlen * 8:
            out += S[:64]
            if len(out) < outlen * 8:
                S = self.P(S, b)
        return tuple(out[:outlen * 8])

    def xof(self, variant_a, M, outlen, fixed_len=0):
        S = self.xof_init(variant_a, fixed_len)
        S = self.xof_absorb(S, M, variant_a)
        return self.xof_squeeze(S, outlen, variant_a)

    def hash(self, variant_a, M):
        return self.xof(variant_a, M, 32, fixed_len=32)

    def cxof(self, variant_a, name, custom, M, outlen, fixed_len):
        """library-documented ASCON-cXOF: first block IV || N (N padded with
        zeros to 32 bytes, or HASH(N) if longer); customisation string
        absorbed as a padded message followed by a permutation and the
        inversion of the last state bit; then X."""
        b = 8 if variant_a else 12
        if fixed_len >= (1 << 29):
            fixed_len = 0
        if isinstance(name, (bytes, bytearray)):
            if len(name) > 32:
                hbits = self.hash(variant_a, cbytes(name))
                iv = oracle.hash_iv(4 if variant_a else 0, fixed_len * 8)
                S = self.P(list(cbytes(iv)) + list(hbits), 12)
            else:
                S = self.xof_init(variant_a, fixed_len, bytes(name))
        else:
            S = self.xof_init(variant_a, fixed_len, name)
        if len(custom) > 0:
            S = self.xof_absorb(S, custom, variant_a)
            S = self.P(S, b)          # the customisation string's last block is an intermediate block
            S = list(S)
            S[39 * 8] = S[39 * 8] ^ ONEBIT
        S = self.xof_absorb(S, M, variant_a)
        return self.xof_squeeze(S, outlen, variant_a)

    # -- PRF family ---------------------------------------------------------------
    def prf(self, K, M, outlen, fixed_len=0):
        if fixed_len >= (1 << 29):
            fixed_len = 0
        iv = bytes([0x80, 0x80, 0x8c, 0x00]) + (fixed_len * 8).to_bytes(4, "big")
        S = list(cbytes(iv)) + list(K) + self.zero(16)
        S = self.P(S, 12)
        Mp = self.pad(M, 32)
        n = len(Mp) // 256
        for k in range(n):
            S = self.xor_at(S, 0, Mp[k * 256:(k + 1) * 256])
            if k != n - 1:
                S = self.P(S, 12)
        S = list(S)
        S[39 * 8] = S[39 * 8] ^ ONEBIT
        out = []
        while len(out) < outlen * 8:
            S = self.P(S, 12)
            out += S[:128]
        return tuple(out[:outlen * 8])

    def mac(self, K, M):
        return self.prf(K, M, 16, fixed_len=16)

    def prf_short(self, K, M, outlen):
        inlen = len(M) // 8
        iv = bytes([0x80, inlen * 8, 0x4c, 0x80, 0, 0, 0, 0])
        S = list(cbytes(iv)) + list(K) + list(M) + self.zero(16 - inlen)
        S = self.P(S, 12)
        T = xor(S[24 * 8:], K)
        return tuple(T[:outlen * 8])

    # -- HMAC / HKDF (RFC 2104 / RFC 5869) over ASCON-HASH(A) -----------------
    def hmac(self, variant_a, K, M):
        B = 64
        if len(K) // 8 > B:
            K = self.hash(variant_a, K)
        K0 = list(K) + self.zero(B - len(K) // 8)
        ipad = xor(K0, cbytes(bytes([0x36] * B)))
        opad = xor(K0, cbytes(bytes([0x5c] * B)))
        inner = self.hash(variant_a, tuple(ipad) + tuple(M))
        return self.hash(variant_a, tuple(opad) + tuple(inner))

    def hkdf(self, variant_a, K, salt, info, outlen):
        if len(salt) == 0:
            salt = tuple(self.zero(32))
        prk = self.hmac(variant_a, salt, K)
        out, T, n = [], (), 1
        while len(out) < outlen * 8:
            T = self.hmac(variant_a, prk, tuple(T) + tuple(info) + cbytes(bytes([n])))
            out += list(T)
            n += 1
        return tuple(out[:outlen * 8])

    # -- KMAC / KDF / PBKDF2 (library constructions over cXOF) ------------------
    def kmac(self, variant_a, K, M, custom, outlen):
        return self.cxof(variant_a, b"KMAC", custom, tuple(K) + tuple(M), outlen, outlen)

    def kdf(self, variant_a, K, custom, outlen):
        return self.cxof(variant_a, b"KDF", custom, K, outlen, outlen)

    def pbkdf2(self, password, salt, count, outlen):
        """RFC 8018 PBKDF2 with PRF(P, x) = ASCON-cXOF("PBKDF2", P, x, 32)"""
        return self._pbkdf2(lambda x: self.cxof(False, b"PBKDF2", password, x, 32, 32), salt, count, outlen)

    def pbkdf2_hmac(self, password, salt, count, outlen):
        return self._pbkdf2(lambda x: self.hmac(False, password, x), salt, count, outlen)

    def _pbkdf2(self, prf, salt, count, outlen):
        count = max(count, 1)
        out, i = [], 1
        while len(out) < outlen * 8:
            U = prf(tuple(salt) + cbytes(i.to_bytes(4, "big")))
            T = U
            for _ in range(count - 1):
                U = prf(U)
                T = xor(T, U)
            out += list(T)
            i += 1
        return tuple(out[:outlen * 8])

    # -- SIV -------------------------------------------------------------------------
    def siv_encrypt(self, alg, K, N, A, M):
        p = self.AEAD[alg]
        r = p["rate"]
        iv = bytearray(p["iv"])
        iv1, iv2 = bytes([iv[0] | 0x01]) + bytes(iv[1:]), bytes([iv[0] | 0x02]) + bytes(iv[1:])
        # pass 1: authenticate A and M
        S = self.aead_init(alg, K, N, iv1)
        S = self.aead_ad(alg, S, A)
        Mp = self.pad(M, r)
        n = len(Mp) // 8 // r
        for k in range(n):
            S = self.xor_at(S, 0, Mp[k * r * 8:(k + 1) * r * 8])
            if k != n - 1:
                S = self.P(S, p["b"])
        T = self.aead_final(alg, S, K)
        # pass 2: OFB keystream under nonce T
        S = self.aead_init(alg, K, T, iv2)
        C = []
        mlen = len(M) // 8
        k = 0
        while k < mlen:
            S = self.P(S, p["b"])
            take = min(r, mlen - k)
            C += list(xor(S[:take * 8], M[k * 8:(k + take) * 8]))
            k += take
        return tuple(C), T


# ---------------------------------------------------------------------------
# ISAP-A (ISAP v2.0) - rates and rounds of the ASCON-based instances
ISAP = {
    "128a": dict(sh=12, sb=1, se=6, sk=12, klen=16),
    "128": dict(sh=12, sb=12, se=12, sk=12, klen=16),
    "80pq": dict(sh=12, sb=12, se=12, sk=12, klen=20),
}


def isap_ivs(alg):
    p = ISAP[alg]
    k = p["klen"] * 8
    tail = bytes([k, 64, 1, p["sh"], p["sb"], p["se"], p["sk"]])
    return bytes([1]) + tail, bytes([2]) + tail, bytes([3]) + tail


class SpecIsap(Spec):
    def rekey(self, alg, K, iv, Y, outbytes):
        p = ISAP[alg]
        S = list(K) + list(cbytes(iv)) + [ZERO] * (320 - len(K) - 64)
        S = self.P(S, p["sk"])
        nb = len(Y)
        for i in range(nb - 1):
            byte, bit = i // 8, 7 - (i % 8)
            S = list(S)
            S[7] = S[7] ^ Y[byte * 8 + bit]           # absorb one bit into the msb of the state
            S = self.P(S, p["sb"])
        i = nb - 1
        byte, bit = i // 8, 7 - (i % 8)
        S = list(S)
        S[7] = S[7] ^ Y[byte * 8 + bit]
        S = self.P(S, p["sk"])
        return S[:outbytes * 8]

    def isap_encrypt(self, alg, K, N, A, M):
        p = ISAP[alg]
        iv_a, iv_ka, iv_ke = isap_ivs(alg)
        # encryption
        ke = self.rekey(alg, K, iv_ke, N, 40 - 16)
        S = list(ke) + list(N)
        C = []
        mlen = len(M) // 8
        k = 0
        while k < mlen:
            S = self.P(S, p["se"])
            take = min(8, mlen - k)
            C += list(xor(S[:take * 8], M[k * 8:(k + take) * 8]))
            k += take
        C = tuple(C)
        return C, self.isap_mac(alg, K, N, A, C)

    def isap_mac(self, alg, K, N, A, C):
        p = ISAP[alg]
        iv_a, iv_ka, iv_ke = isap_ivs(alg)
        S = list(N) + list(cbytes(iv_a)) + [ZERO] * (320 - 128 - 64)
        S = self.P(S, p["sh"])
        Ap = self.pad(A, 8)
        for k in range(len(Ap) // 64):
            S = self.xor_at(S, 0, Ap[k * 64:(k + 1) * 64])
            S = self.P(S, p["sh"])
        S = list(S)
        S[39 * 8] = S[39 * 8] ^ ONEBIT
        Cp = self.pad(C, 8)
        for k in range(len(Cp) // 64):
            S = self.xor_at(S, 0, Cp[k * 64:(k + 1) * 64])
            S = self.P(S, p["sh"])
        kb = p["klen"] * 8
        Y = S[:kb]
        ka = self.rekey(alg, K, iv_ka, Y, p["klen"])
        S = list(ka) + list(S[kb:])
        S = self.P(S, p["sh"])
        return tuple(S[:128])
