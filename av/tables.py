"""Pre-computed initial-state tables vs the specification (C03.D1, C04.D5,
C09.D1).

For every back end selection the library compiles one encoding of each
pre-computed state (5x64-bit host words, 10 bit-interleaved 32-bit words, or
40 canonical bytes).  The constant initialisers are read from the IR, decoded
under the layout the back end declares for itself (ASCON_BACKEND_SLICED64 /
SLICED32 / DIRECT_XOR as seen by the preprocessor with the real flags) and
compared with P12(first block) computed by av/oracle.py from the documented
IVs.  The test-suite only ever executes the x86-64 (64-bit word) form.
"""
import os

from . import ir, oracle, ptr, repo

# owner (public function that holds or exclusively reaches the table) -> family
OWNER_FAMILY = {
    "ascon_xof_init": "xof",
    "ascon_xof_init_fixed": "hash",
    "ascon_xofa_init": "xofa",
    "ascon_xofa_init_fixed": "hasha",
    "ascon_hash_init": "hash",
    "ascon_hasha_init": "hasha",
    "ascon_kmac_init": "kmac",
    "ascon_kmaca_init": "kmaca",
}

ELEM_ENCODING = {"[5 x i64]": "sliced64", "[10 x i32]": "sliced32", "[40 x i8]": "bytes"}


def backend_encoding(build):
    m = repo.macros(build, os.path.join(repo.REPO, "src/core/ascon-select-backend.h"))
    if "ASCON_BACKEND_SLICED64" in m:
        return "sliced64"
    if "ASCON_BACKEND_SLICED32" in m:
        return "sliced32"
    if "ASCON_BACKEND_DIRECT_XOR" in m:
        return "bytes"
    raise repo.AnalysisBroken("back end of %s declares no known state layout" % build.cfg.name)


def _owners(module, gname):
    """functions whose body references the global"""
    out = []
    for f in module.defined():
        for i in f.insts():
            ops = list(i.ops)
            if i.op == "phi":
                ops = [v for v, _ in i.d["inc"]]
            if any(gname in ir.globals_in(o) for o in ops):
                out.append(f)
                break
    return out


def _public_owner(module, f):
    """walk up through internal (static) functions to the exported callers"""
    seen, out, work = set(), set(), [f.name]
    callers = {}
    for g in module.defined():
        for c in module.callgraph()[g.name]:
            callers.setdefault(c, set()).add(g.name)
    while work:
        n = work.pop()
        if n in seen:
            continue
        seen.add(n)
        fn = module.funcs[n]
        if not fn.internal:
            out.add(n)
            continue
        work.extend(callers.get(n, ()))
    return out


def rule_tables(rep, tier, rid, families):
    rep.rule(rid, "pre-computed initial state equals P12(IV block) in the back end's own encoding")
    if not oracle.selfcheck():
        raise repo.AnalysisBroken("oracle self-check against the published ASCON-HASH/XOF states failed")
    want = oracle.expected_tables()
    builds = repo.configure_many(repo.backend_configs())
    lowered = repo.lower_many([(b, dict(group="lib", level="O0", langs=("c",))) for b in builds])
    seen_enc = set()
    for b, lr in zip(builds, lowered):
        m = ir.Module.load(lr.json)
        if b.cfg.name not in rep.configs:
            rep.configs.append(b.cfg.name)
        rep.units.update(lr.units)
        enc = backend_encoding(b)
        found = {}
        for g in m.globals.values():
            if g.get("decl") or g["size"] != 40 or not g["constant"] or "bytes" not in g:
                continue
            owners = _owners(m, g["name"])
            pubs = set()
            for o in owners:
                pubs |= _public_owner(m, o)
            fams = set(OWNER_FAMILY[p] for p in pubs if p in OWNER_FAMILY)
            where = "%s:%s" % (m.file_of(g.get("file", -1)), g.get("line", 0))
            if len(fams) != 1:
                rep.notes.append("40-byte constant %s at %s has no unique owner family (owners %s)" % (
                    g["name"], where, sorted(pubs)))
                continue
            fam = fams.pop()
            if fam not in families:
                continue
            elem = ELEM_ENCODING.get(g["ty"])
            owner = sorted(p for p in pubs if p in OWNER_FAMILY)[0]
            inst = "%s:%s" % (owner, enc)
            if elem is None:
                rep.unproved_item(rid, "table %s has element type %s" % (g["name"], g["ty"]))
                continue
            if elem != enc:
                rep.violation(rid, inst, where,
                              "table of %s is encoded as %s but the %s back end keeps the state as %s" % (
                                  owner, elem, b.cfg.backend, enc), config=b.cfg.name)
                continue
            got = oracle.decode_table(bytes.fromhex(g["bytes"]), enc)
            if got != want[fam]:
                bad = [k for k in range(40) if got[k] != want[fam][k]]
                rep.violation(rid, inst, where,
                              "pre-computed %s state differs from P12(IV) at canonical byte(s) %s: "
                              "table decodes to %s, specification gives %s" % (
                                  fam.upper(), bad[:8], got.hex(), want[fam].hex()),
                              config=b.cfg.name,
                              detail={"family": fam, "encoding": enc})
            else:
                rep.instance(rid, 1, {"config": b.cfg.name, "owner": owner, "family": fam,
                                      "encoding": enc, "table": g["name"]})
            found[owner] = fam
            seen_enc.add(enc)
            _check_use(rep, rid, m, g, owners, owner, b)
        missing = [o for o, fam in OWNER_FAMILY.items() if fam in families and o not in found]
        for o in missing:
            # an initialiser without a table of its own: it may delegate to a sibling that has one (hash -> xof with
            # a fixed length) or compute the state with the permutation; the resulting digest is decided by the
            # mode-level rule of the property, so this is no finding - but at least one table per family member
            # that is analysed elsewhere must remain, which the floor of the rule checks
            f = m.funcs.get(o)
            deleg = sorted(set(c.callee for c in f.calls() if c.callee in found)) if f is not None and not f.decl else []
            rep.unproved_item(rid, "%s (%s): no pre-computed table of its own%s" % (
                o, b.cfg.name, "; delegates to " + ", ".join(deleg) if deleg else ""))
    if seen_enc != {"sliced64", "sliced32", "bytes"}:
        rep.broken.append("%s: encodings covered %s, expected all three" % (rid, sorted(seen_enc)))


def _check_use(rep, rid, m, g, owners, owner, b):
    """the table must be copied whole (40 bytes) to offset 0 of the state"""
    gname = g["name"]
    for f in owners:
        R = ptr.resolver(f)
        for i in f.insts():
            if i.op != "call":
                continue
            if not any(gname in ir.globals_in(o) for o in i.ops):
                continue
            if ptr.is_memcpy(i):
                n = ir.const_int(i.ops[2])
                dst = R.resolve(i.ops[0])
                root = dst.single()
                ok = (n == 40 and root and root[0] == "param" and dst.offset == 0
                      and not dst.variable)
                if not ok:
                    rep.violation(rid + "u", "%s:%s" % (owner, "copy"), i.where(),
                                  "pre-computed table %s is not copied as 40 bytes to offset 0 of the "
                                  "state (length %s, destination %r)" % (gname, n, dst),
                                  config=b.cfg.name)
                else:
                    rep.instance(rid + "u", 1)
