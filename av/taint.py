"""Secret-taint analysis over the dumped LLVM IR (C11).

Labels
  "S:<why>"      concrete secret (state storage, key buffer, plaintext, ...)
  ("P", i)       value of the i-th (non-pointer) parameter         (symbolic)
  ("M", i)       memory reachable through the i-th pointer parameter (symbolic)
Public data carries no label.

Memory model
  * record-typed storage (struct/union roots known from pointer provenance) is
    classified by its leaf member: secret storage types and secret member
    names yield "S:..." at every load; nonce-like members are public;
    bookkeeping scalars are tracked field-based and flow-insensitively over the
    whole program (FIELD map);
  * byte buffers: locals are flow-insensitive objects, parameter pointees are
    symbolic ("M", i) and resolved at call sites / at the roots by role.

Summaries are computed bottom-up over the acyclic call graph:
  ret labels, labels written through each pointer parameter, sinks (with call
  chain), field writes.  Sinks: conditional branch / switch on a labelled
  value, labelled address (GEP index), labelled length of a block operation,
  labelled divisor/dividend, labelled scalar control argument of an opaque
  (assembly) function, memcmp-class calls on labelled memory.
"""
from . import ir, ptr

SECRET_TYPES = {
    "ascon_state_t", "ascon_masked_word_t", "ascon_masked_key_word_t",
    "ascon_masked_state_t", "ascon_masked_key_128_t", "ascon_masked_key_160_t",
}
SECRET_MEMBERS = {"key", "prk", "out", "m_key", "S", "W", "B", "P", "M", "k", "prng"}
PUBLIC_MEMBERS = {"nonce", "m_nonce"}

DECLASSIFY = {"ascon_aead_check_tag"}

# libc / system functions: name -> model
PURE_EXTERNALS = {
    "open", "close", "abort", "fprintf", "perror", "fputs", "fwrite", "puts", "printf",
    "explicit_bzero", "memset_s", "free", "malloc", "time", "clock_gettime",
    "gettimeofday", "getpid", "syscall", "__errno_location", "fflush",
}
ENTROPY_SOURCES = {"getrandom": 0, "getentropy": 0, "read": 1}
COMPARES = {"memcmp", "bcmp", "strcmp", "strncmp", "strcasecmp", "strncasecmp"}


def secret(labels):
    return frozenset(l for l in labels if isinstance(l, str))


def symbolic(labels):
    return frozenset(l for l in labels if not isinstance(l, str))


class Sink:
    __slots__ = ("fn", "where", "kind", "labels", "chain", "what")

    def __init__(self, fn, where, kind, labels, chain=(), what=""):
        self.fn, self.where, self.kind = fn, where, kind
        self.labels, self.chain, self.what = frozenset(labels), tuple(chain), what

    def key(self):
        return (self.fn, self.where, self.kind)


class Summary:
    def __init__(self):
        self.ret = frozenset()
        self.out = {}          # param index -> labels written through it
        self.sinks = {}        # key -> Sink
        self.fieldw = {}       # field key -> labels (symbolic part only)


class Records:
    """leaf classification of record-typed storage from debug info"""

    def __init__(self, module):
        self.rec = {}
        td = {}
        for t in module.typedefs:
            td.setdefault((t[2], t[3]), []).append(t[0])
        for t in module.ditypes:
            names = [t["name"]] if t["name"] else (
                td.get((t["file"], t["line"]), []) + ["anon@%d:%d" % (t["file"], t["line"])])
            for n in names:
                if n and n not in self.rec:
                    self.rec[n] = t
        self.unknown_members = set()

    @staticmethod
    def irname(ty):
        """'%struct.foo*' -> 'foo' ; '%"class.ascon::aead128"*' -> 'aead128'"""
        t = ty.strip()
        while t.endswith("*"):
            t = t[:-1]
        t = t.strip('%"')
        for p in ("struct.", "union.", "class."):
            if t.startswith(p):
                t = t[len(p):]
                break
        else:
            return None
        if "::" in t:
            t = t.split("::")[-1]
        # clang appends .N to uniquify merged types
        parts = t.split(".")
        if len(parts) > 1 and parts[-1].isdigit():
            t = ".".join(parts[:-1])
        return t

    def classify(self, name, off, variable):
        """-> (set of concrete labels, set of field keys)"""
        if name in SECRET_TYPES:
            return {"S:state"}, set()
        t = self.rec.get(name)
        if t is None:
            return None
        if off is None or variable and not self._in_one_member(t, off):
            labs, fields = set(), set()
            for m in t["members"]:
                l2, f2 = self._leaf(name, m, 0, True)
                labs |= l2
                fields |= f2
            return labs, fields
        for m in t["members"]:
            if m[1] <= off < m[1] + max(m[2], 1):
                return self._leaf(name, m, off - m[1], variable)
        return set(), set()      # padding

    def _in_one_member(self, t, off):
        return any(m[1] <= off < m[1] + max(m[2], 1) for m in t["members"])

    def _leaf(self, rec, m, off, variable):
        mname, _, _, mty = m
        if mty in SECRET_TYPES:
            return {"S:state"}, set()
        if mty in self.rec and self.rec[mty]["members"]:
            r = self.classify(mty, off, variable)
            if r is not None:
                return r
        if mname in SECRET_MEMBERS:
            return {"S:" + mname}, set()
        if mname in PUBLIC_MEMBERS:
            return set(), set()
        if mname.startswith("_vptr"):
            return set(), set()
        return set(), {(rec, mname)}


class Engine:
    def __init__(self, module, externals_model=None):
        self.m = module
        self.records = Records(module)
        self.FIELD = {}      # field key -> concrete labels
        self.GLOBAL = {}     # mutable global -> concrete labels
        self.summ = {}
        self.imprecise = []
        self.order = module.bottom_up()
        self.changed = False

    # ------------------------------------------------------------------
    def run(self, max_rounds=6):
        for rnd in range(max_rounds):
            self.changed = False
            self.summ = {}
            for f in self.order:
                self.summ[f.name] = FuncAnalysis(self, f).run()
            if not self.changed:
                return rnd + 1
        return max_rounds

    def add_field(self, key, labels):
        c = secret(labels)
        if not c:
            return
        old = self.FIELD.get(key, frozenset())
        if not c <= old:
            self.FIELD[key] = old | c
            self.changed = True

    def add_global(self, g, labels):
        c = secret(labels)
        if not c:
            return
        old = self.GLOBAL.get(g, frozenset())
        if not c <= old:
            self.GLOBAL[g] = old | c
            self.changed = True

    # ------------------------------------------------------------------
    def evaluate_root(self, fname, roles):
        """roles: param index -> labels for ("M", i); scalar params public.
        -> list of Sink with concrete labels; also feeds FIELD map."""
        s = self.summ[fname]

        def sub(labels):
            out = set(secret(labels))
            for l in symbolic(labels):
                if l[0] == "M":
                    out |= set(roles.get(l[1], ()))
            return frozenset(out)
        res = []
        for k, snk in s.sinks.items():
            c = sub(snk.labels)
            if c:
                res.append(Sink(snk.fn, snk.where, snk.kind, c, snk.chain, snk.what))
        for fk, labels in s.fieldw.items():
            self.add_field(fk, sub(labels))
        return res


class FuncAnalysis:
    def __init__(self, eng, f):
        self.e, self.f = eng, f
        self.R = ptr.resolver(f)
        self.T = {}
        self.OBJ = {}
        self.S = Summary()
        self.pidx = {p: i for i, p in enumerate(f.params)}
        self.dirty = True
        for i, p in enumerate(f.params):
            if not f.param_ty[i].endswith("*"):
                self.T[p] = frozenset([("P", i)])

    # -- helpers ---------------------------------------------------------
    def t(self, o):
        if isinstance(o, str):
            return self.T.get(o, frozenset())
        if isinstance(o, dict) and "ce" in o:
            r = frozenset()
            for x in o["ops"]:
                r |= self.t(x)
            return r
        return frozenset()

    def setT(self, vid, labels):
        old = self.T.get(vid, frozenset())
        if not labels <= old:
            self.T[vid] = old | labels
            self.dirty = True

    def addobj(self, key, labels):
        if not labels:
            return
        old = self.OBJ.get(key, frozenset())
        if not labels <= old:
            self.OBJ[key] = old | labels
            self.dirty = True

    def root_type(self, root):
        if root[0] == "param":
            return Records.irname(self.f.param_ty[self.pidx[root[1]]])
        if root[0] == "alloca":
            return Records.irname(self.f.defs[root[1]].d.get("aty", ""))
        return None

    def memtaint(self, prov):
        out = set()
        for root in prov.roots:
            k = root[0]
            if k in ("param", "alloca"):
                rn = self.root_type(root)
                cl = None
                if rn is not None:
                    cl = self.e.records.classify(rn, prov.offset if len(prov.roots) == 1 else None,
                                                 prov.variable or len(prov.roots) > 1)
                if cl is not None:
                    labs, fields = cl
                    out |= labs
                    for fk in fields:
                        out |= self.e.FIELD.get(fk, frozenset())
                        out |= self.S.fieldw.get(fk, frozenset())
                    continue
                if k == "param":
                    out.add(("M", self.pidx[root[1]]))
                    out |= self.OBJ.get(root, frozenset())
                else:
                    out |= self.OBJ.get(root, frozenset())
            elif k == "global":
                g = self.e.m.globals.get(root[1])
                if g is None or g.get("constant"):
                    continue
                out |= self.e.GLOBAL.get(root[1], frozenset())
            elif k == "call":
                out |= self.OBJ.get(root, frozenset())
            elif k == "load":
                self.e.imprecise.append("%s: dereference of a pointer loaded from memory at %s" % (
                    self.f.name, self.f.defs[root[1]].where()))
                out |= self.T.get(root[1], frozenset())
            elif k == "unknown":
                self.e.imprecise.append("%s: pointer of unknown provenance (%s)" % (self.f.name, root[1]))
        return frozenset(out)

    def memstore(self, prov, labels):
        if not labels:
            return
        for root in prov.roots:
            k = root[0]
            if k in ("param", "alloca"):
                rn = self.root_type(root)
                cl = None
                if rn is not None:
                    cl = self.e.records.classify(rn, prov.offset if len(prov.roots) == 1 else None,
                                                 prov.variable or len(prov.roots) > 1)
                if cl is not None:
                    _, fields = cl
                    for fk in fields:
                        self.e.add_field(fk, labels)
                        sy = symbolic(labels)
                        if sy:
                            old = self.S.fieldw.get(fk, frozenset())
                            if not sy <= old:
                                self.S.fieldw[fk] = old | sy
                                self.dirty = True
                    continue
                self.addobj(root, labels)
                if k == "param":
                    i = self.pidx[root[1]]
                    old = self.S.out.get(i, frozenset())
                    if not labels <= old:
                        self.S.out[i] = old | labels
                        self.dirty = True
            elif k == "global":
                g = self.e.m.globals.get(root[1])
                if g is not None and not g.get("constant"):
                    self.e.add_global(root[1], labels)
            elif k in ("call", "load"):
                self.addobj(root if k == "call" else ("deref", root[1]), labels)

    def sink(self, inst, kind, labels, what="", fn=None, where=None, chain=()):
        if not labels:
            return
        s = Sink(fn or self.f.name, where or inst.where(), kind, labels, chain, what)
        old = self.S.sinks.get(s.key())
        if old is None:
            self.S.sinks[s.key()] = s
            self.dirty = True
        elif not s.labels <= old.labels:
            old.labels = old.labels | s.labels
            self.dirty = True

    # -- main loop ---------------------------------------------------------
    def run(self):
        rounds = 0
        while self.dirty:
            self.dirty = False
            rounds += 1
            if rounds > 50:
                raise RuntimeError("taint fixpoint did not converge in " + self.f.name)
            for b in self.f.blocks:
                for i in b.insts:
                    self.step(i)
        return self.S

    def step(self, i):
        op = i.op
        if op == "load":
            p = i.ops[0]
            tp = self.t(p)
            if tp:
                self.sink(i, "address", tp, "load through a secret-dependent address")
            self.setT(i.id, self.memtaint(self.R.resolve(p)))
        elif op == "store":
            v, p = i.ops
            tp = self.t(p)
            if tp:
                self.sink(i, "address", tp, "store through a secret-dependent address")
            self.memstore(self.R.resolve(p), self.t(v))
        elif op == "getelementptr":
            r = frozenset()
            for o in i.ops:
                r |= self.t(o)
            self.setT(i.id, r)
        elif op == "phi":
            r = frozenset()
            for v, _ in i.d["inc"]:
                r |= self.t(v)
            self.setT(i.id, r)
        elif op == "br":
            if i.ops:
                self.sink(i, "branch", self.t(i.ops[0]), "conditional branch on a secret-dependent value")
        elif op == "switch":
            self.sink(i, "branch", self.t(i.ops[0]), "switch on a secret-dependent value")
        elif op == "indirectbr":
            self.sink(i, "branch", self.t(i.ops[0]), "indirect branch on a secret-dependent value")
        elif op in ("udiv", "sdiv", "urem", "srem"):
            r = self.t(i.ops[0]) | self.t(i.ops[1])
            self.sink(i, "division", r, "variable-time division of a secret-dependent value")
            self.setT(i.id, r)
        elif op == "alloca":
            if i.ops:
                self.sink(i, "length", self.t(i.ops[0]), "stack allocation of secret-dependent size")
        elif op == "ret":
            if i.ops:
                r = self.t(i.ops[0])
                if not r <= self.S.ret:
                    self.S.ret = self.S.ret | r
                    self.dirty = True
        elif op in ("call", "invoke"):
            self.call(i)
        elif op in ("unreachable", "resume", "fence", "landingpad"):
            pass
        elif i.id:
            r = frozenset()
            for o in i.ops:
                r |= self.t(o)
            self.setT(i.id, r)

    # -- calls ---------------------------------------------------------------
    def call(self, i):
        cal = i.callee
        args = i.ops
        if cal is None:
            # indirect call (storage callbacks)
            tv = self.t(i.d.get("calleev"))
            self.sink(i, "branch", tv, "indirect call through a secret-dependent pointer")
            self.opaque(i, args, control_sink=False, public_result=True)
            return
        if i.d.get("intrinsic") or cal in ("memcpy", "memmove", "memset"):
            self.intrinsic(i, cal, args)
            return
        sm = self.e.summ.get(cal)
        if sm is not None:
            self.apply(i, cal, sm, args)
            return
        if cal in COMPARES:
            mt = frozenset()
            for a in args[:2]:
                mt |= self.memtaint(self.R.resolve(a))
            self.sink(i, "compare", mt, "early-exit comparison (%s) of secret-dependent memory" % cal)
            if len(args) > 2:
                self.sink(i, "length", self.t(args[2]), "secret-dependent length")
            if i.id:
                self.setT(i.id, mt)
            return
        if cal in ENTROPY_SOURCES:
            k = ENTROPY_SOURCES[cal]
            if k < len(args):
                self.memstore(self.R.resolve(args[k]), frozenset(["S:entropy"]))
            return
        if cal in ("strlen",):
            if i.id:
                self.setT(i.id, self.memtaint(self.R.resolve(args[0])))
            return
        if cal in PURE_EXTERNALS or cal.startswith("__"):
            return
        if cal.startswith("_Z"):
            self.opaque(i, args, control_sink=False)
            return
        # function defined in an assembly unit of the library (or unknown)
        self.opaque(i, args, control_sink=True)

    def opaque(self, i, args, control_sink, public_result=False):
        """Model of a callee without IR body (assembly unit, callback).
        It may copy anything it can read into any byte buffer / secret storage
        it is given.  It is assumed not to store secrets into bookkeeping
        members of records (for the x86-64 units the footprint rule C18.D3
        shows they only write the state / word argument), and a callback's
        result (byte count / status) is public by the storage contract."""
        allt = frozenset()
        ptrs = []
        argty = i.d.get("argty", [])
        for k, a in enumerate(args):
            ty = argty[k] if k < len(argty) else ""
            if ty.endswith("*"):
                pv = self.R.resolve(a)
                ptrs.append(pv)
                allt |= self.memtaint(pv)
            else:
                ta = self.t(a)
                if control_sink and ty in ("i8", "i16", "i32", "i1"):
                    self.sink(i, "control-arg", ta,
                              "secret-dependent control argument %d of opaque function %s" % (k, i.callee))
                allt |= ta
        for pv in ptrs:
            if any(r[0] in ("param", "alloca") and self.root_type(r) is not None
                   and self.e.records.classify(self.root_type(r), None, True) is not None
                   for r in pv.roots):
                continue
            self.memstore(pv, allt)
        if i.id:
            self.setT(i.id, frozenset() if public_result else allt)

    def intrinsic(self, i, cal, args):
        if cal.startswith(("llvm.memcpy.", "llvm.memmove.")) or cal in ("memcpy", "memmove"):
            d, s = self.R.resolve(args[0]), self.R.resolve(args[1])
            self.sink(i, "length", self.t(args[2]), "block copy of secret-dependent length")
            ta = self.t(args[0]) | self.t(args[1])
            self.sink(i, "address", ta, "block copy at a secret-dependent address")
            # same-typed whole-record copies are the identity for the field-based model
            if not self._same_record(d, s):
                self.memstore(d, self.memtaint(s))
            if i.id:
                self.setT(i.id, self.t(args[0]))
            return
        if cal.startswith("llvm.memset.") or cal == "memset":
            self.sink(i, "length", self.t(args[2]), "block fill of secret-dependent length")
            self.sink(i, "address", self.t(args[0]), "block fill at a secret-dependent address")
            self.memstore(self.R.resolve(args[0]), self.t(args[1]))
            return
        if cal.startswith(("llvm.lifetime.", "llvm.dbg.", "llvm.assume", "llvm.experimental.noalias",
                           "llvm.stacksave", "llvm.stackrestore", "llvm.trap", "llvm.va_")):
            return
        if cal.startswith("llvm.masked."):
            self.opaque(i, args, control_sink=False)
            return
        if i.id:
            r = frozenset()
            for a in args:
                r |= self.t(a)
            self.setT(i.id, r)

    def _same_record(self, d, s):
        rd, rs = d.single(), s.single()
        if not rd or not rs or rd[0] not in ("param", "alloca") or rs[0] not in ("param", "alloca"):
            return False
        a, b = self.root_type(rd), self.root_type(rs)
        return a is not None and a == b and d.offset == s.offset and not d.variable and not s.variable

    def apply(self, i, cal, sm, args):
        cf = self.e.m.funcs[cal]
        memo = {}

        def sub(labels):
            out = set(secret(labels))
            for l in symbolic(labels):
                k = l[1]
                if k >= len(args):
                    continue
                if l[0] == "P":
                    out |= self.t(args[k])
                else:
                    if k not in memo:
                        memo[k] = self.memtaint(self.R.resolve(args[k]))
                    out |= memo[k]
            return frozenset(out)
        for k, labels in sm.out.items():
            if k < len(args):
                self.memstore(self.R.resolve(args[k]), sub(labels))
        for fk, labels in sm.fieldw.items():
            sl = sub(labels)
            self.e.add_field(fk, sl)
            sy = symbolic(sl)
            if sy:
                old = self.S.fieldw.get(fk, frozenset())
                if not sy <= old:
                    self.S.fieldw[fk] = old | sy
                    self.dirty = True
        here = (self.f.name, i.where())
        for key, s in sm.sinks.items():
            sl = sub(s.labels)
            if sl:
                self.sink(i, s.kind, sl, s.what, fn=s.fn, where=s.where, chain=(here,) + s.chain)
        if i.id:
            if cal in DECLASSIFY:
                self.setT(i.id, frozenset())
            else:
                self.setT(i.id, sub(sm.ret))
