"""Abstract interpretation of a global integer flag (typestate).

The acquire/release checker of the library is a global `static int` that the
four state primitives test and assign.  This module computes, for every
function of a linked module, a summary

     entry flag value -> (set of possible exit flag values, error path or None)

where "error" means that a call to a noreturn function (abort) is reachable
with that entry value.  Branches on the *current* value of the flag are
evaluated concretely per value; every other branch is followed both ways (CFG
paths, sound over-approximation of the feasible paths).  Calls apply callee
summaries bottom-up over the (acyclic) call graph; unknown externals and
indirect calls leave the flag unchanged (the library's only indirect calls are
the storage callbacks).
"""
from . import ir

# the checker reports an imbalance by calling abort(); other noreturn callees
# (C++ terminate / throw on exception-cleanup paths) merely end the path
ERROR_CALLS = {"abort"}
NORETURN = {"abort", "exit", "_exit", "__assert_fail", "__stack_chk_fail",
            "_ZSt9terminatev", "__cxa_throw", "__cxa_rethrow",
            "__clang_call_terminate", "llvm.trap", "__cxa_pure_virtual"}


def find_flag_globals(module, writers=("ascon_acquire", "ascon_release")):
    """Globals stored to by all of the given functions."""
    cands = None
    for w in writers:
        f = module.funcs.get(w)
        if f is None or f.decl:
            return []
        s = set()
        for i in f.insts():
            if i.op == "store":
                for g in ir.globals_in(i.ops[1]):
                    s.add(g)
        cands = s if cands is None else (cands & s)
    return sorted(cands or ())


class Summary:
    __slots__ = ("exits", "error")

    def __init__(self):
        self.exits = {}   # entry value -> frozenset of exit values
        self.error = {}   # entry value -> list of (func, where, what) frames

    def as_text(self):
        out = []
        for v in sorted(self.exits):
            s = "%d->{%s}" % (v, ",".join(str(x) for x in sorted(self.exits[v])))
            if self.error.get(v):
                s += "+abort"
            out.append(s)
        return " ".join(out)


def value_domain(module, flag):
    vals = set()
    g = module.globals[flag]
    if g.get("zeroinit"):
        vals.add(0)
    elif g.get("bytes"):
        vals.add(int.from_bytes(bytes.fromhex(g["bytes"]), "little", signed=True))
    nonconst = []
    for f in module.defined():
        for i in f.insts():
            if i.op == "store" and flag in ir.globals_in(i.ops[1]):
                c = ir.const_int(i.ops[0])
                if c is None:
                    nonconst.append(i)
                else:
                    vals.add(c)
    return sorted(vals), nonconst


def analyse(module, flag, domain):
    """-> {function name: Summary} for all defined functions."""
    summaries = {}
    gname = "@" + flag
    for f in module.bottom_up():
        summaries[f.name] = _function(f, gname, domain, summaries, module)
    return summaries


def _function(f, gname, domain, summaries, module):
    S = Summary()
    for v0 in domain:
        exits, err = _run(f, gname, frozenset([v0]), domain, summaries, module)
        S.exits[v0] = frozenset(exits)
        S.error[v0] = err
    return S


def _run(f, gname, entry, domain, summaries, module):
    IN = {f.blocks[0].name: set(entry)}
    work = [f.blocks[0]]
    exits = set()
    error = None
    full = set(domain)
    guard = 0
    while work:
        guard += 1
        if guard > 200000:
            raise RuntimeError("typestate fixpoint did not converge in " + f.name)
        b = work.pop()
        S = set(IN[b.name])
        cur = {}          # ssa id -> "is the current flag value"
        cmpinfo = {}      # ssa id -> (pred, const) on current flag value
        for i in b.insts:
            if not S and i.op not in ("br", "switch", "ret", "unreachable"):
                # dead under this entry value
                pass
            if i.op == "load" and i.ops and i.ops[0] == gname:
                cur[i.id] = True
                continue
            if i.op in ("zext", "sext", "trunc") and i.ops and ir.is_local(i.ops[0]) \
                    and cur.get(i.ops[0]):
                cur[i.id] = True
                continue
            if i.op == "icmp":
                a, c = i.ops
                if ir.is_local(a) and cur.get(a) and ir.const_int(c) is not None:
                    cmpinfo[i.id] = (i.d["pred"], ir.const_int(c))
                elif ir.is_local(c) and cur.get(c) and ir.const_int(a) is not None:
                    cmpinfo[i.id] = (_swap(i.d["pred"]), ir.const_int(a))
                continue
            if i.op == "xor" and ir.is_local(i.ops[0]) and i.ops[0] in cmpinfo \
                    and ir.const_int(i.ops[1]) in (1, -1) and i.ty == "i1":
                p, c = cmpinfo[i.ops[0]]
                cmpinfo[i.id] = (_neg(p), c)
                continue
            if i.op == "store" and gname in (i.ops[1],) :
                c = ir.const_int(i.ops[0])
                S = {c} if c is not None else set(full)
                cur.clear()
                cmpinfo.clear()
                continue
            if i.op in ("call", "invoke"):
                cal = i.callee
                if cal == "llvm.trap":
                    S = set()
                    continue
                if i.d.get("intrinsic"):
                    continue
                if cal in NORETURN or (cal in module.funcs and
                                       "noreturn" in module.funcs[cal].d.get("fattrs", ())):
                    if S and error is None and cal in ERROR_CALLS:
                        error = [(f.name, i.where(), "call to %s with flag in {%s}" % (
                            cal, ",".join(map(str, sorted(S)))))]
                    S = set()
                    continue
                sm = summaries.get(cal)
                if sm is not None:
                    new = set()
                    for v in S:
                        new |= sm.exits[v]
                        if sm.error.get(v) and error is None:
                            error = [(f.name, i.where(), "call to %s with flag=%d" % (cal, v))] \
                                + sm.error[v]
                    if new != S:
                        cur.clear()
                        cmpinfo.clear()
                    S = new
                continue
        t = b.term
        outs = []
        if t.op == "ret":
            exits |= S
        elif t.op == "br" and t.ops and ir.is_local(t.ops[0]) and t.ops[0] in cmpinfo \
                and len(t.succs) == 2:
            p, c = cmpinfo[t.ops[0]]
            tv = set(v for v in S if _eval(p, v, c))
            outs = [(t.succs[0], tv), (t.succs[1], S - tv)]
        else:
            outs = [(s, S) for s in t.succs]
        for sname, vals in outs:
            if not vals:
                continue
            old = IN.get(sname)
            if old is None:
                IN[sname] = set(vals)
                work.append(f.bmap[sname])
            elif not vals <= old:
                old |= vals
                work.append(f.bmap[sname])
    return exits, error


def _swap(p):
    return {"ult": "ugt", "ugt": "ult", "ule": "uge", "uge": "ule",
            "slt": "sgt", "sgt": "slt", "sle": "sge", "sge": "sle"}.get(p, p)


def _neg(p):
    return {"eq": "ne", "ne": "eq", "ult": "uge", "uge": "ult", "ugt": "ule",
            "ule": "ugt", "slt": "sge", "sge": "slt", "sgt": "sle",
            "sle": "sgt"}[p]


def _eval(p, v, c):
    if p == "eq":
        return v == c
    if p == "ne":
        return v != c
    if p in ("slt",):
        return v < c
    if p in ("sle",):
        return v <= c
    if p in ("sgt",):
        return v > c
    if p in ("sge",):
        return v >= c
    u, cu = v & 0xffffffff, c & 0xffffffff
    if p == "ult":
        return u < cu
    if p == "ule":
        return u <= cu
    if p == "ugt":
        return u > cu
    if p == "uge":
        return u >= cu
    raise ValueError(p)
