"""Abstract interpretation of a global integer flag (typestate).

The acquire/release checker of the library is a global `static int` that the
four state primitives test and assign.  This module computes, for every
function of a linked module, a summary

     entry flag value -> (set of possible exit flag values, error path or None)

where "error" means that a call to a noreturn function (abort) is reachable
with that entry value.  Branches on the *current* value of the flag are
evaluated concretely per value; every other branch is followed both ways (CFG
paths, sound over-approximation of the feasible paths).  Calls apply callee
summaries bottom-up over the (acyclic) call graph; unknown externals and
indirect calls leave the flag unchanged (the library's only indirect calls are
the storage callbacks).
"""
from . import ceval, ir

# the checker reports an imbalance by calling abort(); other noreturn callees
# (C++ terminate / throw on exception-cleanup paths) merely end the path
ERROR_CALLS = {"abort"}
NORETURN = {"abort", "exit", "_exit", "__assert_fail", "__stack_chk_fail",
            "_ZSt9terminatev", "__cxa_throw", "__cxa_rethrow",
            "__clang_call_terminate", "llvm.trap", "__cxa_pure_virtual"}


def find_flag_globals(module, writers=("ascon_acquire", "ascon_release")):
    """Globals stored to by all of the given functions."""
    cands = None
    for w in writers:
        f = module.funcs.get(w)
        if f is None or f.decl:
            return []
        s = set()
        for i in f.insts():
            if i.op == "store":
                for g in ir.globals_in(i.ops[1]):
                    s.add(g)
        cands = s if cands is None else (cands & s)
    return sorted(cands or ())


class Summary:
    __slots__ = ("exits", "error")

    def __init__(self):
        self.exits = {}   # entry value -> frozenset of exit values
        self.error = {}   # entry value -> list of (func, where, what) frames

    def as_text(self):
        out = []
        for v in sorted(self.exits):
            s = "%d->{%s}" % (v, ",".join(str(x) for x in sorted(self.exits[v])))
            if self.error.get(v):
                s += "+abort"
            out.append(s)
        return " ".join(out)


def value_domain(module, flag):
    vals = set()
    g = module.globals[flag]
    if g.get("zeroinit"):
        vals.add(0)
    elif g.get("bytes"):
        vals.add(int.from_bytes(bytes.fromhex(g["bytes"]), "little", signed=True))
    nonconst = []
    # in the inlined view (irdump --inline-internal) file-local helpers stay defined for reference but are called from
    # nowhere: what they store is accounted for in their callers
    called = set(c.callee for g2 in module.defined() for c in g2.calls() if c.callee)
    for f in module.defined():
        if getattr(f, "internal", False) and f.name not in called:
            continue
        for i in f.insts():
            if i.op == "store" and flag in ir.globals_in(i.ops[1]):
                c = ir.const_int(i.ops[0])
                if c is None:
                    nonconst.append(i)
                else:
                    vals.add(c)
    return sorted(vals), nonconst


def analyse(module, flag, domain):
    """-> {function name: Summary} for all defined functions."""
    summaries = {}
    gname = "@" + flag
    for f in module.bottom_up():
        summaries[f.name] = _function(f, gname, domain, summaries, module)
    return summaries


def _function(f, gname, domain, summaries, module):
    S = Summary()
    for v0 in domain:
        exits, err = _run(f, gname, frozenset([v0]), domain, summaries, module)
        S.exits[v0] = frozenset(exits)
        S.error[v0] = err
    return S


def _run(f, gname, entry, domain, summaries, module):
    IN = {f.blocks[0].name: set(entry)}
    work = [f.blocks[0]]
    exits = set()
    error = None
    full = set(domain)
    guard = 0
    while work:
        guard += 1
        if guard > 200000:
            raise RuntimeError("typestate fixpoint did not converge in " + f.name)
        b = work.pop()
        S = set(IN[b.name])
        loads = []        # ssa ids holding the current flag value
        derived = []      # instructions computed only from the flag value and constants (evaluated per flag value)
        dset = set()

        def evaluate(val, v):
            """value of ssa `val` when the flag holds v (None = not determined by the flag)"""
            c = ir.const_int(val)
            if c is not None:
                return c
            if not ir.is_local(val) or val not in dset:
                return None
            env = {l: v for l in loads}
            for d in derived:
                r = ceval.step(d, env)
                if r is None:
                    return None
                env[d.id] = r
                if d.id == val:
                    return r
            return env.get(val)
        for i in b.insts:
            if i.op == "load" and i.ops and i.ops[0] == gname:
                loads.append(i.id)
                dset.add(i.id)
                continue
            if i.id and i.op in ("zext", "sext", "trunc", "icmp", "xor", "and", "or", "select", "add", "sub") and \
                    all(ir.const_int(o) is not None or (ir.is_local(o) and o in dset) for o in i.ops) and \
                    any(ir.is_local(o) and o in dset for o in i.ops):
                derived.append(i)
                dset.add(i.id)
                continue
            if i.op == "store" and gname in (i.ops[1],):
                c = ir.const_int(i.ops[0])
                if c is not None:
                    S = {c}
                else:
                    vals = set(evaluate(i.ops[0], v) for v in S)
                    S = set(full) if None in vals else set(x if x < (1 << 31) else x - (1 << 32) for x in vals)
                    if not S <= set(full):
                        S = set(full)
                loads, derived, dset = [], [], set()
                continue
            if i.op in ("call", "invoke"):
                cal = i.callee
                if cal == "llvm.trap":
                    S = set()
                    continue
                if i.d.get("intrinsic"):
                    continue
                if cal in NORETURN or (cal in module.funcs and
                                       "noreturn" in module.funcs[cal].d.get("fattrs", ())):
                    if S and error is None and cal in ERROR_CALLS:
                        error = [(f.name, i.where(), "call to %s with flag in {%s}" % (
                            cal, ",".join(map(str, sorted(S)))))]
                    S = set()
                    continue
                sm = summaries.get(cal)
                if sm is not None:
                    new = set()
                    for v in S:
                        new |= sm.exits[v]
                        if sm.error.get(v) and error is None:
                            error = [(f.name, i.where(), "call to %s with flag=%d" % (cal, v))] \
                                + sm.error[v]
                    if new != S:
                        loads, derived, dset = [], [], set()
                    S = new
                continue
        t = b.term
        outs = []
        if t.op == "ret":
            exits |= S
        elif t.op == "br" and t.ops and ir.is_local(t.ops[0]) and t.ops[0] in dset \
                and len(t.succs) == 2 and all(evaluate(t.ops[0], v) is not None for v in S):
            tv = set(v for v in S if evaluate(t.ops[0], v) & 1)
            outs = [(t.succs[0], tv), (t.succs[1], S - tv)]
        else:
            outs = [(s, S) for s in t.succs]
        for sname, vals in outs:
            if not vals:
                continue
            old = IN.get(sname)
            if old is None:
                IN[sname] = set(vals)
                work.append(f.bmap[sname])
            elif not vals <= old:
                old |= vals
                work.append(f.bmap[sname])
    return exits, error


def _swap(p):
    return {"ult": "ugt", "ugt": "ult", "ule": "uge", "uge": "ule",
            "slt": "sgt", "sgt": "slt", "sle": "sge", "sge": "sle"}.get(p, p)


def _neg(p):
    return {"eq": "ne", "ne": "eq", "ult": "uge", "uge": "ult", "ugt": "ule",
            "ule": "ugt", "slt": "sge", "sge": "slt", "sgt": "sle",
            "sle": "sgt"}[p]


def _eval(p, v, c):
    if p == "eq":
        return v == c
    if p == "ne":
        return v != c
    if p in ("slt",):
        return v < c
    if p in ("sle",):
        return v <= c
    if p in ("sgt",):
        return v > c
    if p in ("sge",):
        return v >= c
    u, cu = v & 0xffffffff, c & 0xffffffff
    if p == "ult":
        return u < cu
    if p == "ule":
        return u <= cu
    if p == "ugt":
        return u > cu
    if p == "uge":
        return u >= cu
    raise ValueError(p)
