"""Length arithmetic is done in the full width of size_t.

Every mode of the library must process exactly `len` bytes for every value of
a size_t length.  A necessary condition that is visible in the code: a value
derived from a size_t length parameter never loses its upper 32 bits on the
way to a loop bound or a pointer offset.  The rule decided here is the exact
signature of the classic slip `len & ~7U` / `len & ~15U` (a 32-bit mask
constant that is zero-extended when combined with a 64-bit length):

    and i64 X, C      with X derived from a size_t parameter,
                      C < 2^32 and C > 0xFFFF

i.e. a mask that keeps more than a block offset but clears bits 32..63.  Masks
that keep only low bits (`len & 7`) are untouched.  The rule has no instance
on the unchanged tree, so it carries a positive control (fixtures/c12_mask32.c).
"""
import os

from . import ir, repo


def _len_derived(f):
    """values derived from 64-bit integer parameters through add/sub/phi/select"""
    seeds = set(p for k, p in enumerate(f.params) if f.param_ty[k] == "i64")
    derived = set(seeds)
    changed = True
    while changed:
        changed = False
        for i in f.insts():
            if not i.id or i.id in derived or i.ty != "i64":
                continue
            if i.op in ("add", "sub", "select", "and", "or"):
                ops = [o for o in i.ops if isinstance(o, str)]
            elif i.op == "phi":
                ops = [v for v, _ in i.d["inc"] if isinstance(v, str)]
            else:
                continue
            if any(o in derived for o in ops):
                derived.add(i.id)
                changed = True
    return derived


def scan(m, only_repo=True):
    """-> (number of 64-bit masks examined, [(function, instruction, mask)])"""
    n, bad = 0, []
    for f in m.defined():
        if only_repo and not f.srcfile.startswith(repo.REPO):
            continue
        der = None
        for i in f.insts():
            if i.op != "and" or i.ty != "i64":
                continue
            c = ir.const_int(i.ops[1])
            x = i.ops[0]
            if c is None:
                c, x = ir.const_int(i.ops[0]), i.ops[1]
            if c is None:
                continue
            c &= (1 << 64) - 1
            if der is None:
                der = _len_derived(f)
            if x not in der:
                continue
            n += 1
            if c < (1 << 32) and c > 0xFFFF:
                bad.append((f, i, c))
    return n, bad


def rule(rep, rid, m, cname, only_repo=True):
    n, bad = scan(m, only_repo)
    for f, i, c in bad:
        rep.violation(rid, "%s:mask%#x" % (f.name, c), i.where(),
                      "%s masks a 64-bit length with the 32-bit constant %#x (a `~N U` mask is zero-extended): bits 32..63 of "
                      "the length are cleared, so for lengths of 4 GiB or more only len mod 2^32 bytes are processed" % (f.name, c),
                      config=cname)
    rep.instance(rid, n - len(bad), {"config": cname, "masks_examined": n})
    return n


def control(rep, rid):
    src = os.path.join(repo.VERIF, "fixtures", "c12_mask32.c")
    out = os.path.join(repo.scratch(), "maskfix")
    os.makedirs(out, exist_ok=True)
    ll, opt, js = os.path.join(out, "f.ll"), os.path.join(out, "f.opt.ll"), os.path.join(out, "f.json")
    repo.run(["clang", "-O0", "-Xclang", "-disable-O0-optnone", "-g", "-fno-discard-value-names", "-S", "-emit-llvm", src, "-o", ll])
    repo.run(["opt-14", "-S", "-passes=function(sroa,early-cse)", ll, "-o", opt])
    repo.run([repo.IRDUMP, opt, js])
    n, bad = scan(ir.Module.load(js), only_repo=False)
    if not bad:
        rep.broken.append("%s positive control: the fixture's 32-bit mask of a size_t length was not reported" % rid)
    else:
        rep.instance(rid, 1, {"positive_control": "fixtures/c12_mask32.c flagged"})
