"""Length arithmetic is done in the full width of size_t.

Every mode of the library must process exactly `len` bytes for every value of
a size_t length.  A necessary condition that is visible in the code: a value
derived from a size_t length parameter never loses its upper 32 bits on the
way to a loop bound or a pointer offset.  The rule decided here is the exact
signature of the classic slip `len & ~7U` / `len & ~15U` (a 32-bit mask
constant that is zero-extended when combined with a 64-bit length):

    and i64 X, C      with X derived from a size_t parameter,
                      C < 2^32 and C > 0xFFFF

i.e. a mask that keeps more than a block offset but clears bits 32..63.  Masks
that keep only low bits (`len & 7`) are untouched.  The rule has no instance
on the unchanged tree, so it carries a positive control (fixtures/c12_mask32.c).
"""
import os

from . import ir, repo


def _len_derived(f):
    """values derived from 64-bit integer parameters through add/sub/phi/select"""
    seeds = set(p for k, p in enumerate(f.params) if f.param_ty[k] == "i64")
    derived = set(seeds)
    changed = True
    while changed:
        changed = False
        for i in f.insts():
            if not i.id or i.id in derived or i.ty != "i64":
                continue
            if i.op in ("add", "sub", "select", "and", "or"):
                ops = [o for o in i.ops if isinstance(o, str)]
            elif i.op == "phi":
                ops = [v for v, _ in i.d["inc"] if isinstance(v, str)]
            else:
                continue
            if any(o in derived for o in ops):
                derived.add(i.id)
                changed = True
    return derived


def _reaches_control(f, v, uses, depth=0, seen=None):
    """does value v flow (through casts and arithmetic) into a comparison, an
    address computation, a block length or a call argument?  -> the sink or None"""
    seen = seen if seen is not None else set()
    if v in seen or depth > 8:
        return None
    seen.add(v)
    for u in uses.get(v, []):
        if u.op in ("icmp", "getelementptr", "switch"):
            return u
        if u.op in ("call", "invoke"):
            if (u.callee or "").startswith("llvm.dbg"):
                continue
            return u
        if u.op in ("zext", "sext", "trunc", "add", "sub", "mul", "and", "or", "shl", "lshr", "ashr", "phi", "select", "udiv", "urem"):
            r = _reaches_control(f, u.id, uses, depth + 1, seen)
            if r is not None:
                return r
    return None


_CALLERS = {}


def _callers_bound(m, f, k, w):
    """does every call site of the internal function f pass, as argument k, a value whose guard-implied range fits w bits?"""
    from . import ranges
    key = id(m)
    if key not in _CALLERS:
        idx = {}
        for g in m.defined():
            for c in g.calls():
                if c.callee:
                    idx.setdefault(c.callee, []).append((g, c))
        _CALLERS[key] = idx
    sites = _CALLERS[key].get(f.name, [])
    if not sites:
        return False
    for g, c in sites:
        if k >= len(c.ops):
            return False
        a = c.ops[k]
        cv = ir.const_int(a)
        if cv is not None:
            if cv >= (1 << w):
                return False
            continue
        if not ir.is_local(a):
            return False
        lo, hi = ranges.Ranges(g, wide=False).at(a, c.block.name)
        if hi >= (1 << w):
            return False
    return True


def scan_truncations(m, only_repo=True, files=None, skip_internal=False):
    """truncations of a size_t-derived value to 32 bits or fewer whose operand is
    not bounded (by the guards that dominate it, type widths included) to the
    narrower type and whose result is used for control, addressing or as a
    length -> (number examined, [(function, trunc, sink, upper bound)])"""
    from . import ranges
    n, bad = 0, []
    for f in m.defined():
        if only_repo and not f.srcfile.startswith(repo.REPO):
            continue
        if files and not any(x in f.srcfile for x in files):
            continue
        if skip_internal and f.internal:
            continue        # inlined view: the body is judged inside every caller, with the caller's bounds
        der = RG = uses = None
        for i in f.insts():
            if i.op != "trunc" or i.d.get("fromty", "") != "i64":
                continue
            w = ranges._w(i.ty)
            if w < 16:
                continue            # byte extraction of a word, not a length
            if der is None:
                der = _len_derived(f)
            if i.ops[0] not in der:
                continue
            n += 1
            if RG is None:
                RG = ranges.Ranges(f, wide=False)
            lo, hi = RG.at(i.ops[0], i.block.name)
            if hi < (1 << w):
                continue
            if f.internal and i.ops[0] in f.params and _callers_bound(m, f, f.params.index(i.ops[0]), w):
                continue        # a file-local helper: every caller passes a value that fits the narrower type
            if uses is None:
                uses = f.uses()
            sink = _reaches_control(f, i.id, uses)
            if sink is not None:
                bad.append((f, i, sink, hi))
    return n, bad


def scan(m, only_repo=True, files=None):
    """-> (number of 64-bit masks examined, [(function, instruction, mask)])"""
    n, bad = 0, []
    for f in m.defined():
        if only_repo and not f.srcfile.startswith(repo.REPO):
            continue
        if files and not any(x in f.srcfile for x in files):
            continue
        der = None
        for i in f.insts():
            if i.op != "and" or i.ty != "i64":
                continue
            c = ir.const_int(i.ops[1])
            x = i.ops[0]
            if c is None:
                c, x = ir.const_int(i.ops[0]), i.ops[1]
            if c is None:
                continue
            c &= (1 << 64) - 1
            if der is None:
                der = _len_derived(f)
            if x not in der:
                continue
            n += 1
            if c < (1 << 32) and c > 0xFFFF:
                bad.append((f, i, c))
    return n, bad


def rule(rep, rid, m, cname, only_repo=True, files=None, inlined=False):
    n, bad = scan(m, only_repo, files)
    for f, i, c in bad:
        rep.violation(rid, "%s:mask%#x" % (f.name, c), i.where(),
                      "%s masks a 64-bit length with the 32-bit constant %#x (a `~N U` mask is zero-extended): bits 32..63 of "
                      "the length are cleared, so for lengths of 4 GiB or more only len mod 2^32 bytes are processed" % (f.name, c),
                      config=cname)
    rep.instance(rid, n - len(bad), {"config": cname, "masks_examined": n})
    nt, badt = scan_truncations(m, only_repo, files, skip_internal=inlined)
    for f, i, sink, hi in badt:
        rep.violation(rid, "%s:trunc%d" % (f.name, 8 * (i.d.get("sz") or 0) or int(i.ty[1:])), i.where(),
                      "%s narrows a size_t-derived value to %s although nothing bounds it below 2^%s (the guards allow values up to "
                      "%#x), and uses the narrowed value for %s at %s: lengths of 4 GiB or more are processed as if they were "
                      "len mod 2^%s" % (f.name, i.ty, i.ty[1:], hi, {"icmp": "a comparison", "getelementptr": "an address",
                                                                     "switch": "a switch"}.get(sink.op, "a call argument"),
                                        sink.where(), i.ty[1:]), config=cname)
    rep.instance(rid, nt - len(badt), {"config": cname, "truncations_examined": nt})
    return n


def control(rep, rid):
    src = os.path.join(repo.VERIF, "fixtures", "c12_mask32.c")
    out = os.path.join(repo.scratch(), "maskfix")
    os.makedirs(out, exist_ok=True)
    ll, opt, js = os.path.join(out, "f.ll"), os.path.join(out, "f.opt.ll"), os.path.join(out, "f.json")
    repo.run(["clang", "-O0", "-Xclang", "-disable-O0-optnone", "-g", "-fno-discard-value-names", "-S", "-emit-llvm", src, "-o", ll])
    repo.run(["opt-14", "-S", "-passes=function(sroa,early-cse)", ll, "-o", opt])
    repo.run([repo.IRDUMP, opt, js])
    mm = ir.Module.load(js)
    n, bad = scan(mm, only_repo=False)
    nt, badt = scan_truncations(mm, only_repo=False)
    if not badt:
        rep.broken.append("%s positive control: the fixture's unguarded (unsigned) cast of a size_t length was not reported" % rid)
    if not bad:
        rep.broken.append("%s positive control: the fixture's 32-bit mask of a size_t length was not reported" % rid)
    else:
        rep.instance(rid, 1, {"positive_control": "fixtures/c12_mask32.c flagged"})
