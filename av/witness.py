"""Compile witnesses for the C++ API (C17.D1) - generated from the type-checked
declarations (build/asconfacts) on every run, so a new member is covered
without touching the checker.

The witness translation unit odr-uses every public, non-deleted constructor,
method, overload and default-argument form of every class in namespace ascon,
explicitly instantiates the class templates for several lengths, calls every
free function of the namespace, and states the negative expectations (cipher
objects are not copyable) as static assertions.  It is only type-checked
(-fsyntax-only); nothing is executed.
"""
import os
import re
import subprocess

from . import facts, repo

TEMPLATE_ARGS = (0, 1, 17, 32, 64)
AS_PUBLIC = 0


def _arg(ty):
    """an lvalue expression of (decayed) type ty"""
    t = ty.strip()
    m = re.match(r"^(.*)\[\d*\]$", t)       # array parameter decays
    if m:
        t = m.group(1).strip() + " *"
    if t.endswith("&&"):
        return "static_cast<%s>(mk< %s >())" % (t, t[:-2].strip())
    if t.endswith("&"):
        t = t[:-1].strip()
    return "mk< %s >()" % t


class Witness:
    def __init__(self):
        self.lines = []
        self.where = {}       # line number (1-based) -> member description

    def add(self, text, member=None):
        self.lines.append(text)
        if member:
            self.where[len(self.lines)] = member

    def text(self):
        return "\n".join(self.lines) + "\n"


def generate(hf, headers, no_stl=False):
    """hf: header facts (C++ mode).  -> Witness"""
    w = Witness()
    for h in headers:
        w.add('#include "%s"' % h)
    w.add("#include <type_traits>" if not no_stl else "")
    w.add("template <class T> T &mk();")
    pub = os.path.join(repo.REPO, "src", "ascon") + os.sep
    records = [r for r in hf["records"] if r["qname"].startswith("ascon::") and "(anonymous" not in r["qname"]
               and r["loc"][0].startswith(pub) and r["kind"] in ("class", "struct")
               and not (r.get("nested_in") and r.get("access", 0) != AS_PUBLIC)]
    methods = {}
    for d in hf["decls"]:
        rec = d.get("record", "")
        if rec.startswith("ascon::"):
            methods.setdefault(rec, []).append(d)
    count = 0
    for r in records:
        q = r["qname"]
        tps = r.get("template_params")
        if q == "ascon::byte_array" and not no_stl:
            continue
        insts = [q]
        if tps:
            if len(tps) != 1 or tps[0]["kind"] != "nontype":
                raise repo.AnalysisBroken("witness: unsupported template parameter list on %s" % q)
            insts = ["%s<%d>" % (q, n) for n in TEMPLATE_ARGS]
            for t in insts:
                w.add("template class %s;" % t, "explicit instantiation of %s" % t)
        ms = methods.get(q, [])
        has_pure = any(m.get("virtual") and not m["def"] and False for m in ms)
        abstract = _is_abstract(q, ms, methods, records)
        for t in insts:
            tsub = None
            if tps:
                tsub = (tps[0]["name"], t[t.index("<") + 1:-1])
            fn = "w_" + re.sub(r"\W", "_", t)
            w.add("void %s() {" % fn)
            if not abstract:
                w.add("  %s &o = mk< %s >(); const %s &co = o; (void)co;" % (t, t, t))
            else:
                w.add("  %s &o = mk< %s >(); const %s &co = o; (void)co;" % (t, t, t))
            seen = set()
            for m in ms:
                if m["access"] != AS_PUBLIC or m["deleted"] or m.get("template"):
                    continue
                name = m["name"]
                ptys = [p["ty"] for p in m["params"]]
                desc = "%s::%s(%s)" % (q, name, ", ".join(ptys))
                if tsub:
                    ptys = [re.sub(r"\b%s\b" % re.escape(tsub[0]), tsub[1], x) for x in ptys]
                if (name, tuple(ptys), m.get("const")) in seen:
                    continue
                seen.add((name, tuple(ptys), m.get("const")))
                nmin = m.get("min_args", len(ptys))
                for n in range(nmin, len(ptys) + 1):
                    args = ", ".join(_arg(x) for x in ptys[:n])
                    d2 = desc if n == len(ptys) else desc + " with %d argument(s)" % n
                    if m.get("ctor"):
                        if abstract:
                            continue
                        if n == 0:
                            w.add("  { %s x; (void)x; }" % t, d2)
                        else:
                            w.add("  { %s x(%s); (void)x; }" % (t, args), d2)
                    elif m.get("dtor"):
                        continue
                    elif m.get("conversion"):
                        continue
                    elif m.get("overloaded_operator"):
                        if name == "operator=" and n == 1:
                            w.add("  o = %s;" % args, d2)
                        elif name == "operator[]" and n == 1:
                            w.add("  (void)%s[%s];" % ("co" if m.get("const") else "o", args), d2)
                        elif name in ("operator==", "operator!=", "operator<", "operator<=", "operator>", "operator>=") and n == 1:
                            w.add("  (void)(co %s %s);" % (name[8:], args), d2)
                        else:
                            continue
                    elif m.get("method_static"):
                        w.add("  (void)%s::%s(%s);" % (t, name, args), d2)
                    else:
                        obj = "co" if m.get("const") else "o"
                        w.add("  (void)%s.%s(%s);" % (obj, name, args), d2) if m["ret"] != "void" else \
                            w.add("  %s.%s(%s);" % (obj, name, args), d2)
                    count += 1
            w.add("}")
    # free functions
    w.add("void w_free_functions() {")
    seenf = set()
    for d in hf["decls"]:
        if d.get("record") or not d["qname"].startswith("ascon::") or not d["loc"][0].startswith(pub):
            continue
        if d.get("template") or d["deleted"]:
            continue
        ptys = [p["ty"] for p in d["params"]]
        key = (d["qname"], tuple(ptys))
        if key in seenf:
            continue
        seenf.add(key)
        nmin = d.get("min_args", len(ptys))
        for n in range(nmin, len(ptys) + 1):
            args = ", ".join(_arg(x) for x in ptys[:n])
            desc = "%s(%s)" % (d["qname"], ", ".join(ptys)) + ("" if n == len(ptys) else " with %d argument(s)" % n)
            w.add("  (void)%s(%s);" % (d["qname"], args), desc)
            count += 1
    w.add("}")
    # negative witnesses: cipher objects must not be copyable
    if not no_stl:
        for r in records:
            q = r["qname"]
            ms = methods.get(q, [])
            if any(m.get("copy_ctor") and m["access"] != AS_PUBLIC for m in ms) and not r.get("template_params"):
                w.add("static_assert(!std::is_copy_constructible< %s >::value, \"copyable\");" % q,
                      "negative: %s must not be copy-constructible" % q)
                count += 1
    w.count = count
    return w


def _is_abstract(q, ms, methods, records):
    # a class is abstract if it (or a base) declares a method that is virtual
    # and never defined in the headers / has no out-of-line definition; we
    # approximate by "constructor is not public or class is ascon::aead /
    # ascon::aead_masked style base": decided by trying to construct - the
    # witness avoids constructing classes that have no public constructor
    # taking zero arguments AND are used as a base of another class.
    used_as_base = any(q in r.get("bases", []) for r in records)
    return used_as_base


def compile_witness(w, build, compiler, outdir, extra=(), tag=""):
    """-> list of (line, message, member, notes)"""
    us = build.group("lib", ("c++",))
    src = os.path.join(outdir, "witness%s.cpp" % tag)
    with open(src, "w") as f:
        f.write(w.text())
    flags = us[0].flags() + list(extra)
    if compiler == "clang++":
        cmd = ["clang++", "-fsyntax-only", "-ferror-limit=0", "-Wno-everything", "-fno-caret-diagnostics"] + flags + [src]
    else:
        cmd = ["g++", "-fsyntax-only", "-fmax-errors=0", "-w", "-fno-diagnostics-show-caret"] + flags + [src]
    p = subprocess.run(cmd, cwd=us[0].directory, stdout=subprocess.PIPE, stderr=subprocess.PIPE)
    out = p.stderr.decode(errors="replace")
    errs = []
    cur = None
    gctx = None
    for line in out.splitlines():
        mc = re.match(r"^.*?: In (?:instantiation of|member function|constructor|function|static member function) [‘'](.*?)[’']:?$", line)
        if mc:
            gctx = re.sub(r" \[with .*$", "", mc.group(1))
            continue
        m = re.match(r"^(.*?):(\d+):(?:(\d+):)? (fatal error|error|note): (.*)$", line)
        if not m:
            m2 = re.match(r"^(.*?):(\d+):(?:(\d+):)?\s+required from here", line)
            if m2 and cur is not None and os.path.abspath(m2.group(1)) == os.path.abspath(src):
                cur["wline"] = int(m2.group(2))
            continue
        fn, ln, _, kind, msg = m.groups()
        ln = int(ln)
        if kind in ("error", "fatal error"):
            cur = {"file": fn, "line": ln, "msg": msg, "wline": ln if os.path.abspath(fn) == os.path.abspath(src) else None,
                   "inst": gctx if os.path.abspath(fn) != os.path.abspath(src) else None}
            errs.append(cur)
        elif cur is not None:
            mi = re.search(r"in instantiation of (?:member function|template class|function template specialization) '([^']+)'", msg)
            if mi and cur["inst"] is None:
                cur["inst"] = mi.group(1)
            if os.path.abspath(fn) == os.path.abspath(src) and cur["wline"] is None:
                cur["wline"] = ln
    res = []
    for e in errs:
        member = w.where.get(e["wline"]) if e["wline"] else None
        res.append((e["file"], e["line"], e["msg"], member or e["inst"] or "?"))
    return res, p.returncode, src


def lower_witness(src, build, outdir, extra=(), tag=""):
    """lower a generated witness unit to the JSON IR (clang++ -O0 + sroa): the
    header-inline members and template instantiations it odr-uses get bodies"""
    from . import repo as _r
    us = build.group("lib", ("c++",))
    ll = os.path.join(outdir, "witness%s.ll" % tag)
    cmd = ["clang++", "-O0", "-Xclang", "-disable-O0-optnone", "-g", "-S", "-emit-llvm", "-Wno-everything"] + \
        [x for x in us[0].flags() if not x.startswith("-O")] + list(extra) + [src, "-o", ll]
    p = subprocess.run(cmd, cwd=us[0].directory, stdout=subprocess.PIPE, stderr=subprocess.PIPE)
    if p.returncode != 0:
        return None, p.stderr.decode(errors="replace")[-800:]
    opt = os.path.join(outdir, "witness%s.opt.ll" % tag)
    _r.run(["opt-14", "-S", "-passes=function(sroa,early-cse)", ll, "-o", opt])
    js = os.path.join(outdir, "witness%s.json" % tag)
    _r.run([_r.IRDUMP, opt, js])
    return js, ""
