/* positive control for the length-width rule: `len & ~7U` clears bits 32..63
 * of a size_t length (the mask is a 32-bit constant), so only len mod 2^32
 * bytes are processed */
#include <stddef.h>
void fixture_consume(const unsigned char *p);
void fixture_blocks(const unsigned char *data, size_t len)
{
    const unsigned char *end = data + (len & ~7U);
    while (data != end) {
        fixture_consume(data);
        data += 8;
    }
}

/* second control: an unguarded cast of the length before the loop bound */
void fixture_blocks_cast(const unsigned char *data, size_t len)
{
    unsigned count = (unsigned)len / 8;
    while (count > 0) {
        fixture_consume(data);
        data += 8;
        --count;
    }
}
