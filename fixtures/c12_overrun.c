/* positive control for C12.D6: the trailing partial block (1..7 bytes) is
 * handled with an 8-byte store */
#include <stddef.h>
#include <stdint.h>
#include <string.h>
void fixture_copy_blocks(uint8_t *output, const uint8_t *input, unsigned size)
{
    while (size >= 8) {
        memcpy(output, input, 8);
        output += 8;
        input += 8;
        size -= 8;
    }
    if (size > 0) {
        uint64_t word = 0;
        unsigned posn;
        for (posn = 0; posn < size; ++posn)
            word |= ((uint64_t)input[posn]) << (posn * 8);
        output[0] = (uint8_t)word;
        output[7] = (uint8_t)(word >> 56);   /* past the remaining 1..7 bytes */
    }
}
