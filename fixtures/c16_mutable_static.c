/* positive control for C16.D1: a function-local mutable static */
unsigned char *scratch_buffer(void)
{
    static unsigned char scratch[64];
    return scratch;
}
