// asconfacts - LibTooling fact extractor for the /verif framework.
//
// Emits JSON facts about the type-checked AST of one translation unit:
//   decls    function / method declarations (public API enumeration, C++
//            member enumeration for compile witnesses)
//   records  struct / class layouts and members
//   calls    call sites with resolved callee, argument constant values and
//            how the result is used
//   rets     return statements with the folded value (if constant)
//   subs     array subscripts with constant index and constant array bound
//   vars     file-scope and static variables
// No rule logic lives here.
//
// usage: asconfacts [--all-files] <source> -- <compiler flags>
//   facts are restricted to declarations whose spelling location is under
//   one of the --root=<dir> prefixes (default /repo)
#include "clang/AST/ASTConsumer.h"
#include "clang/AST/ASTContext.h"
#include "clang/AST/Comment.h"
#include "clang/AST/DeclTemplate.h"
#include "clang/AST/ParentMapContext.h"
#include "clang/AST/RecordLayout.h"
#include "clang/AST/RecursiveASTVisitor.h"
#include "clang/Frontend/CompilerInstance.h"
#include "clang/Frontend/FrontendAction.h"
#include "clang/Tooling/CommonOptionsParser.h"
#include "clang/Tooling/Tooling.h"
#include "llvm/Support/CommandLine.h"
#include "llvm/Support/JSON.h"

using namespace clang;
using namespace clang::tooling;
using namespace llvm;

static cl::OptionCategory Cat("asconfacts");
static cl::list<std::string> Roots("root", cl::desc("source root prefix"),
                                   cl::cat(Cat));
static cl::opt<std::string> OutFile("out", cl::desc("output file"),
                                    cl::init("-"), cl::cat(Cat));

namespace {

struct Visitor : RecursiveASTVisitor<Visitor> {
  ASTContext &Ctx;
  SourceManager &SM;
  PrintingPolicy PP;
  json::Array Decls, Records, Calls, Rets, Subs, Vars, Casts;
  std::vector<const FunctionDecl *> FnStack;

  Visitor(ASTContext &C)
      : Ctx(C), SM(C.getSourceManager()), PP(C.getLangOpts()) {
    PP.SuppressTagKeyword = true;
    PP.FullyQualifiedName = true;
    PP.Bool = true;
    PP.SuppressUnwrittenScope = true;
  }

  bool shouldVisitTemplateInstantiations() const { return false; }
  bool shouldVisitImplicitCode() const { return false; }

  std::string fileOf(SourceLocation L) {
    L = SM.getExpansionLoc(L);
    if (L.isInvalid())
      return "";
    PresumedLoc P = SM.getPresumedLoc(L);
    if (P.isInvalid())
      return "";
    return P.getFilename();
  }
  unsigned lineOf(SourceLocation L) {
    L = SM.getExpansionLoc(L);
    return SM.getExpansionLineNumber(L);
  }
  std::string realFile(SourceLocation L) {
    L = SM.getExpansionLoc(L);
    if (L.isInvalid())
      return "";
    const FileEntry *FE = SM.getFileEntryForID(SM.getFileID(L));
    if (!FE)
      return "";
    SmallString<256> P(FE->tryGetRealPathName());
    if (P.empty())
      P = FE->getName();
    return std::string(P.str());
  }
  bool inRoots(SourceLocation L) {
    std::string F = realFile(L);
    if (F.empty())
      return false;
    if (Roots.empty())
      return StringRef(F).startswith("/repo/");
    for (auto &R : Roots)
      if (StringRef(F).startswith(R))
        return true;
    return false;
  }
  json::Value locJ(SourceLocation L) {
    return json::Array{realFile(L), (int64_t)lineOf(L),
                       (int64_t)SM.getExpansionColumnNumber(
                           SM.getExpansionLoc(L))};
  }
  std::string ty(QualType T) { return T.getAsString(PP); }

  std::string enclosing() {
    if (FnStack.empty())
      return "";
    return FnStack.back()->getQualifiedNameAsString();
  }

  // ---------------- declarations
  bool VisitFunctionDecl(FunctionDecl *FD) {
    if (!inRoots(FD->getLocation()))
      return true;
    json::Object O;
    O["name"] = FD->getNameAsString();
    O["qname"] = FD->getQualifiedNameAsString();
    O["loc"] = locJ(FD->getLocation());
    O["def"] = FD->isThisDeclarationADefinition();
    O["static"] = FD->getStorageClass() == SC_Static;
    O["inline"] = FD->isInlineSpecified();
    O["ret"] = ty(FD->getReturnType());
    O["variadic"] = FD->isVariadic();
    O["deleted"] = FD->isDeleted();
    O["extern_c"] = FD->isExternC();
    json::Array Ps;
    unsigned MinArgs = FD->getMinRequiredArguments();
    for (ParmVarDecl *P : FD->parameters()) {
      json::Object PO;
      PO["name"] = P->getNameAsString();
      PO["ty"] = ty(P->getType());
      QualType PT = P->getType();
      if (PT->isPointerType() || PT->isReferenceType())
        PO["pointee_const"] = PT->getPointeeType().isConstQualified();
      PO["has_default"] = P->hasDefaultArg();
      Ps.push_back(std::move(PO));
    }
    O["params"] = std::move(Ps);
    O["min_args"] = (int64_t)MinArgs;
    if (auto *MD = dyn_cast<CXXMethodDecl>(FD)) {
      O["record"] = MD->getParent()->getQualifiedNameAsString();
      O["access"] = (int64_t)MD->getAccess();
      O["const"] = MD->isConst();
      O["method_static"] = MD->isStatic();
      O["virtual"] = MD->isVirtual();
      O["ctor"] = isa<CXXConstructorDecl>(MD);
      O["dtor"] = isa<CXXDestructorDecl>(MD);
      O["conversion"] = isa<CXXConversionDecl>(MD);
      if (auto *CD = dyn_cast<CXXConstructorDecl>(MD)) {
        O["explicit"] = CD->isExplicit();
        O["copy_ctor"] = CD->isCopyConstructor();
      }
      O["copy_assign"] = MD->isCopyAssignmentOperator();
      O["overloaded_operator"] = MD->isOverloadedOperator();
    }
    if (FD->getDescribedFunctionTemplate())
      O["template"] = true;
    if (const RawComment *RC = Ctx.getRawCommentForDeclNoCache(FD)) {
      std::string T = RC->getRawText(SM).str();
      if (T.size() > 4000)
        T.resize(4000);
      O["doc"] = T;
    }
    Decls.push_back(std::move(O));
    return true;
  }

  bool TraverseFunctionDecl(FunctionDecl *FD) {
    FnStack.push_back(FD);
    bool R = RecursiveASTVisitor::TraverseFunctionDecl(FD);
    FnStack.pop_back();
    return R;
  }
  bool TraverseCXXMethodDecl(CXXMethodDecl *FD) {
    FnStack.push_back(FD);
    bool R = RecursiveASTVisitor::TraverseCXXMethodDecl(FD);
    FnStack.pop_back();
    return R;
  }
  bool TraverseCXXConstructorDecl(CXXConstructorDecl *FD) {
    FnStack.push_back(FD);
    bool R = RecursiveASTVisitor::TraverseCXXConstructorDecl(FD);
    FnStack.pop_back();
    return R;
  }
  bool TraverseCXXDestructorDecl(CXXDestructorDecl *FD) {
    FnStack.push_back(FD);
    bool R = RecursiveASTVisitor::TraverseCXXDestructorDecl(FD);
    FnStack.pop_back();
    return R;
  }

  bool VisitRecordDecl(RecordDecl *RD) {
    if (!RD->isThisDeclarationADefinition() || !inRoots(RD->getLocation()))
      return true;
    json::Object O;
    O["name"] = RD->getNameAsString();
    O["qname"] = RD->getQualifiedNameAsString();
    if (auto *TD = RD->getTypedefNameForAnonDecl())
      O["typedef"] = TD->getNameAsString();
    O["loc"] = locJ(RD->getLocation());
    O["kind"] = RD->getKindName().str();
    O["access"] = (int64_t)RD->getAccess();
    if (auto *Outer = dyn_cast<RecordDecl>(RD->getDeclContext()))
      O["nested_in"] = Outer->getQualifiedNameAsString();
    bool Dependent = RD->isDependentType();
    O["dependent"] = Dependent;
    if (auto *CRD = dyn_cast<CXXRecordDecl>(RD)) {
      if (auto *CT = CRD->getDescribedClassTemplate()) {
        json::Array TPs;
        for (NamedDecl *P : *CT->getTemplateParameters()) {
          json::Object TP;
          TP["name"] = P->getNameAsString();
          if (auto *NT = dyn_cast<NonTypeTemplateParmDecl>(P)) {
            TP["kind"] = "nontype";
            TP["ty"] = ty(NT->getType());
          } else
            TP["kind"] = "type";
          TPs.push_back(std::move(TP));
        }
        O["template_params"] = std::move(TPs);
      }
      json::Array Bases;
      if (CRD->hasDefinition())
        for (auto &B : CRD->bases())
          Bases.push_back(ty(B.getType()));
      O["bases"] = std::move(Bases);
    }
    json::Array Fs;
    const ASTRecordLayout *L = nullptr;
    if (!Dependent && !RD->isInvalidDecl() && RD->isCompleteDefinition())
      L = &Ctx.getASTRecordLayout(RD);
    if (L)
      O["size"] = (int64_t)L->getSize().getQuantity();
    unsigned Idx = 0;
    for (FieldDecl *F : RD->fields()) {
      json::Object FO;
      FO["name"] = F->getNameAsString();
      FO["ty"] = ty(F->getType());
      FO["access"] = (int64_t)F->getAccess();
      if (L) {
        FO["off"] = (int64_t)(L->getFieldOffset(Idx) / 8);
        if (!F->getType()->isIncompleteType() &&
            !F->getType()->isDependentType())
          FO["size"] =
              (int64_t)Ctx.getTypeSizeInChars(F->getType()).getQuantity();
      }
      Fs.push_back(std::move(FO));
      Idx++;
    }
    O["fields"] = std::move(Fs);
    Records.push_back(std::move(O));
    return true;
  }

  bool VisitVarDecl(VarDecl *VD) {
    if (isa<ParmVarDecl>(VD) || !inRoots(VD->getLocation()))
      return true;
    if (!VD->hasGlobalStorage())
      return true;
    json::Object O;
    O["name"] = VD->getNameAsString();
    O["qname"] = VD->getQualifiedNameAsString();
    O["loc"] = locJ(VD->getLocation());
    O["ty"] = ty(VD->getType());
    O["const"] = VD->getType().isConstQualified() ||
                 (VD->getType()->isArrayType() &&
                  Ctx.getBaseElementType(VD->getType()).isConstQualified());
    O["tls"] = VD->getTLSKind() != VarDecl::TLS_None;
    O["static_local"] = VD->isStaticLocal();
    O["def"] = VD->isThisDeclarationADefinition() != VarDecl::DeclarationOnly;
    O["func"] = enclosing();
    Vars.push_back(std::move(O));
    return true;
  }

  // ---------------- expressions
  json::Value constOf(const Expr *E) {
    if (!E || E->isValueDependent() || E->isTypeDependent())
      return nullptr;
    Expr::EvalResult R;
    if (E->getType()->isIntegralOrEnumerationType() &&
        E->EvaluateAsInt(R, Ctx) && R.Val.isInt()) {
      APSInt V = R.Val.getInt();
      if (V.isSigned() ? V.isSignedIntN(64) : V.isIntN(63))
        return (int64_t)V.getExtValue();
    }
    return nullptr;
  }

  std::string text(const Expr *E) {
    std::string S;
    raw_string_ostream OS(S);
    E->printPretty(OS, nullptr, PP);
    OS.flush();
    if (S.size() > 200)
      S.resize(200);
    return S;
  }

  // root object of an lvalue / pointer expression: kind + name + member path
  json::Value rootOf(const Expr *E, int Depth = 0) {
    if (!E || Depth > 12)
      return nullptr;
    E = E->IgnoreParenCasts();
    if (auto *DRE = dyn_cast<DeclRefExpr>(E)) {
      json::Object O;
      const ValueDecl *D = DRE->getDecl();
      O["name"] = D->getNameAsString();
      if (isa<ParmVarDecl>(D))
        O["kind"] = "param";
      else if (auto *VD = dyn_cast<VarDecl>(D))
        O["kind"] = VD->hasGlobalStorage() ? "global" : "local";
      else if (isa<FunctionDecl>(D))
        O["kind"] = "function";
      else
        O["kind"] = "other";
      O["ty"] = ty(D->getType());
      if (!D->getType()->isIncompleteType() &&
          !D->getType()->isDependentType() && !D->getType()->isFunctionType())
        O["size"] = (int64_t)Ctx.getTypeSizeInChars(D->getType()).getQuantity();
      return std::move(O);
    }
    if (auto *ME = dyn_cast<MemberExpr>(E)) {
      json::Value B = rootOf(ME->getBase(), Depth + 1);
      json::Object O;
      if (auto *BO = B.getAsObject())
        O = *BO;
      else {
        O["kind"] = isa<CXXThisExpr>(ME->getBase()->IgnoreParenCasts())
                        ? "this"
                        : "expr";
        O["name"] = "";
      }
      std::string Path;
      if (auto P = O.getString("path"))
        Path = P->str() + ".";
      Path += ME->getMemberDecl()->getNameAsString();
      O["path"] = Path;
      QualType MT = ME->getMemberDecl()->getType();
      O["ty"] = ty(MT);
      if (!MT->isIncompleteType() && !MT->isDependentType() &&
          !MT->isFunctionType())
        O["size"] = (int64_t)Ctx.getTypeSizeInChars(MT).getQuantity();
      else
        O.erase("size");
      return std::move(O);
    }
    if (auto *UO = dyn_cast<UnaryOperator>(E)) {
      if (UO->getOpcode() == UO_AddrOf || UO->getOpcode() == UO_Deref)
        return rootOf(UO->getSubExpr(), Depth + 1);
      return nullptr;
    }
    if (auto *AS = dyn_cast<ArraySubscriptExpr>(E)) {
      json::Value B = rootOf(AS->getBase(), Depth + 1);
      if (auto *BO = B.getAsObject()) {
        json::Object O = *BO;
        O["indexed"] = true;
        json::Value C = constOf(AS->getIdx());
        if (C.getAsInteger())
          O["index"] = std::move(C);
        O.erase("size");
        return std::move(O);
      }
      return nullptr;
    }
    if (auto *BO = dyn_cast<BinaryOperator>(E)) {
      if (BO->getOpcode() == BO_Add || BO->getOpcode() == BO_Sub) {
        const Expr *P = BO->getLHS()->getType()->isPointerType() ||
                                BO->getLHS()->IgnoreParenCasts()
                                    ->getType()
                                    ->isArrayType()
                            ? BO->getLHS()
                            : BO->getRHS();
        const Expr *Off = P == BO->getLHS() ? BO->getRHS() : BO->getLHS();
        json::Value B = rootOf(P, Depth + 1);
        if (auto *BOb = B.getAsObject()) {
          json::Object O = *BOb;
          O["offset_text"] = text(Off);
          json::Value C = constOf(Off);
          if (C.getAsInteger())
            O["offset"] = std::move(C);
          O.erase("size");
          return std::move(O);
        }
      }
      return nullptr;
    }
    if (isa<CXXThisExpr>(E)) {
      json::Object O;
      O["kind"] = "this";
      O["name"] = "this";
      return std::move(O);
    }
    if (auto *CE = dyn_cast<CallExpr>(E)) {
      json::Object O;
      O["kind"] = "call";
      if (auto *FD = CE->getDirectCallee())
        O["name"] = FD->getQualifiedNameAsString();
      else
        O["name"] = "";
      return std::move(O);
    }
    if (auto *SL = dyn_cast<clang::StringLiteral>(E)) {
      json::Object O;
      O["kind"] = "string";
      O["name"] = SL->getBytes().str();
      O["size"] = (int64_t)SL->getByteLength() + 1;
      return std::move(O);
    }
    return nullptr;
  }

  // how is the value of expression E used by its parent?
  std::string usageOf(const Stmt *S) {
    DynTypedNodeList Ps = Ctx.getParents(*S);
    const Stmt *Cur = S;
    for (int Guard = 0; Guard < 16 && !Ps.empty(); Guard++) {
      const DynTypedNode &N = Ps[0];
      if (const Stmt *P = N.get<Stmt>()) {
        if (isa<ParenExpr>(P) || isa<ImplicitCastExpr>(P) ||
            isa<ExprWithCleanups>(P) || isa<ConstantExpr>(P)) {
          Cur = P;
          Ps = Ctx.getParents(*P);
          continue;
        }
        if (auto *CS = dyn_cast<CStyleCastExpr>(P)) {
          if (CS->getType()->isVoidType())
            return "voidcast";
          Cur = P;
          Ps = Ctx.getParents(*P);
          continue;
        }
        if (isa<CompoundStmt>(P))
          return "discarded";
        if (auto *IS = dyn_cast<IfStmt>(P)) {
          if (IS->getCond() == Cur)
            return "cond";
          return "discarded";
        }
        if (auto *WS = dyn_cast<WhileStmt>(P))
          return WS->getCond() == Cur ? "cond" : "discarded";
        if (auto *FS = dyn_cast<ForStmt>(P))
          return FS->getCond() == Cur ? "cond" : "discarded";
        if (isa<DoStmt>(P))
          return "cond";
        if (isa<ReturnStmt>(P))
          return "returned";
        if (auto *UO = dyn_cast<UnaryOperator>(P)) {
          if (UO->getOpcode() == UO_LNot) {
            std::string U = usageOf(P);
            return "not:" + U;
          }
          return "expr";
        }
        if (auto *BO = dyn_cast<BinaryOperator>(P)) {
          if (BO->isAssignmentOp() && BO->getRHS() == Cur) {
            json::Value R = rootOf(BO->getLHS());
            std::string N2;
            if (auto *RO = R.getAsObject())
              if (auto S2 = RO->getString("name"))
                N2 = S2->str();
            return "assigned:" + N2;
          }
          if (BO->isComparisonOp()) {
            const Expr *Other = BO->getLHS() == Cur ? BO->getRHS() : BO->getLHS();
            std::string C = "?";
            json::Value CV = constOf(Other);
            if (auto I = CV.getAsInteger())
              C = std::to_string(*I);
            else
              C = text(Other);
            std::string Op = BO->getOpcodeStr().str();
            if (BO->getRHS() == Cur) {
              // normalise to "value OP const"
              if (Op == "<") Op = ">";
              else if (Op == ">") Op = "<";
              else if (Op == "<=") Op = ">=";
              else if (Op == ">=") Op = "<=";
            }
            return "cmp:" + Op + ":" + C;
          }
          if (BO->isLogicalOp())
            return "cond";
          if (BO->getOpcode() == BO_Comma && BO->getLHS() == Cur)
            return "discarded";
          return "expr";
        }
        if (isa<ConditionalOperator>(P)) {
          if (cast<ConditionalOperator>(P)->getCond() == Cur)
            return "cond";
          return "expr";
        }
        if (isa<CallExpr>(P))
          return "arg";
        if (isa<DeclStmt>(P))
          return "init";
        if (isa<SwitchStmt>(P))
          return "cond";
        if (isa<Expr>(P))
          return "expr";
        return "discarded";
      }
      if (const VarDecl *VD = N.get<VarDecl>())
        return "init:" + VD->getNameAsString();
      break;
    }
    return "unknown";
  }

  bool VisitCallExpr(CallExpr *CE) {
    if (!inRoots(CE->getExprLoc()))
      return true;
    const FunctionDecl *FD = CE->getDirectCallee();
    json::Object O;
    O["loc"] = locJ(CE->getExprLoc());
    O["func"] = enclosing();
    if (FD) {
      O["callee"] = FD->getQualifiedNameAsString();
      O["callee_ret"] = ty(FD->getReturnType());
    } else {
      O["callee"] = "";
      O["callee_text"] = text(CE->getCallee());
      QualType CT = CE->getCallee()->getType();
      if (CT->isPointerType())
        CT = CT->getPointeeType();
      if (const auto *FPT = CT->getAs<FunctionProtoType>()) {
        json::Array PC;
        for (QualType PT : FPT->param_types())
          PC.push_back((PT->isPointerType() || PT->isReferenceType()) &&
                       PT->getPointeeType().isConstQualified());
        O["proto_pointee_const"] = std::move(PC);
      }
    }
    if (auto *MC = dyn_cast<CXXMemberCallExpr>(CE)) {
      json::Value R = rootOf(MC->getImplicitObjectArgument());
      O["object"] = std::move(R);
    }
    json::Array As;
    for (const Expr *A : CE->arguments()) {
      json::Object AO;
      AO["text"] = text(A);
      json::Value C = constOf(A);
      if (C.getAsInteger())
        AO["const"] = std::move(C);
      const Expr *AI = A->IgnoreParenImpCasts();
      if (isa<UnaryExprOrTypeTraitExpr>(AI))
        AO["sizeof"] = true;
      if (A->getType()->isPointerType() || AI->getType()->isArrayType() ||
          A->getType()->isReferenceType() || A->getType()->isRecordType()) {
        json::Value R = rootOf(A);
        if (R.getAsObject())
          AO["root"] = std::move(R);
        if (A->isNullPointerConstant(Ctx, Expr::NPC_ValueDependentIsNotNull))
          AO["null"] = true;
      } else {
        json::Value R = rootOf(A);
        if (R.getAsObject())
          AO["root"] = std::move(R);
      }
      As.push_back(std::move(AO));
    }
    O["args"] = std::move(As);
    O["use"] = usageOf(CE);
    Calls.push_back(std::move(O));
    return true;
  }

  bool VisitReturnStmt(ReturnStmt *RS) {
    if (!inRoots(RS->getReturnLoc()) || FnStack.empty())
      return true;
    json::Object O;
    O["loc"] = locJ(RS->getReturnLoc());
    O["func"] = enclosing();
    if (const Expr *V = RS->getRetValue()) {
      O["text"] = text(V);
      json::Value C = constOf(V);
      if (C.getAsInteger())
        O["const"] = std::move(C);
      const Expr *VI = V->IgnoreParenImpCasts();
      if (auto *BO = dyn_cast<BinaryOperator>(VI)) {
        if (BO->isComparisonOp() || BO->isLogicalOp())
          O["boolean"] = true;
      }
      if (auto *UO = dyn_cast<UnaryOperator>(VI))
        if (UO->getOpcode() == UO_LNot)
          O["boolean"] = true;
      if (auto *CO = dyn_cast<ConditionalOperator>(VI)) {
        json::Value A = constOf(CO->getTrueExpr());
        json::Value B = constOf(CO->getFalseExpr());
        if (A.getAsInteger() && B.getAsInteger()) {
          O["cond_true"] = std::move(A);
          O["cond_false"] = std::move(B);
          O["cond_text"] = text(CO->getCond());
        }
      }
      if (auto *C2 = dyn_cast<CallExpr>(VI))
        if (auto *FD = C2->getDirectCallee())
          O["call"] = FD->getQualifiedNameAsString();
      if (auto *DRE = dyn_cast<DeclRefExpr>(VI))
        O["var"] = DRE->getDecl()->getNameAsString();
    }
    Rets.push_back(std::move(O));
    return true;
  }

  bool VisitArraySubscriptExpr(ArraySubscriptExpr *AS) {
    if (!inRoots(AS->getExprLoc()))
      return true;
    const Expr *Base = AS->getBase()->IgnoreParenImpCasts();
    QualType BT = Base->getType();
    const ConstantArrayType *CAT = Ctx.getAsConstantArrayType(BT);
    if (!CAT)
      return true;
    json::Object O;
    O["loc"] = locJ(AS->getExprLoc());
    O["func"] = enclosing();
    O["bound"] = (int64_t)CAT->getSize().getZExtValue();
    O["base"] = text(Base);
    json::Value C = constOf(AS->getIdx());
    if (C.getAsInteger())
      O["index"] = std::move(C);
    else
      O["index_text"] = text(AS->getIdx());
    Subs.push_back(std::move(O));
    return true;
  }
};

struct Consumer : ASTConsumer {
  void HandleTranslationUnit(ASTContext &Ctx) override {
    Visitor V(Ctx);
    V.TraverseDecl(Ctx.getTranslationUnitDecl());
    json::Object Root;
    Root["decls"] = std::move(V.Decls);
    Root["records"] = std::move(V.Records);
    Root["calls"] = std::move(V.Calls);
    Root["rets"] = std::move(V.Rets);
    Root["subs"] = std::move(V.Subs);
    Root["vars"] = std::move(V.Vars);
    Root["errors"] =
        (int64_t)Ctx.getDiagnostics().getClient()->getNumErrors();
    std::error_code EC;
    if (OutFile == "-") {
      outs() << json::Value(std::move(Root)) << "\n";
    } else {
      raw_fd_ostream OS(OutFile, EC);
      OS << json::Value(std::move(Root)) << "\n";
    }
  }
};

struct Action : ASTFrontendAction {
  std::unique_ptr<ASTConsumer> CreateASTConsumer(CompilerInstance &,
                                                 StringRef) override {
    return std::make_unique<Consumer>();
  }
};

} // namespace

int main(int argc, const char **argv) {
  auto Opts = CommonOptionsParser::create(argc, argv, Cat);
  if (!Opts) {
    errs() << toString(Opts.takeError());
    return 2;
  }
  ClangTool Tool(Opts->getCompilations(), Opts->getSourcePathList());
  int R = Tool.run(newFrontendActionFactory<Action>().get());
  return R == 0 ? 0 : 3; // 3: facts emitted but the TU had errors
}
