#!/bin/sh
# Run every check (quick tier) on every behaviour-preserving refactoring kept in /verif/benign: all must stay silent.
# usage: tools/benign_all.sh [jobs]    (scratch worktrees of /repo HEAD; results under $TMPDIR/benign-results)
cd "$(dirname "$0")/.."
J=${1:-4}
OUT=$(mktemp -d "${TMPDIR:-/tmp}/benign-results-XXXX")
ls benign/*/refactor-*.diff | xargs -P "$J" -I{} sh -c 'python3 tools/benign_eval.py {} > "'"$OUT"'/$(echo {} | tr "/" "_").log" 2>&1'
bad=0
for f in "$OUT"/*.log; do
    if ! tail -n 1 "$f" | grep -q ": 0 check(s) alarmed"; then
        bad=1; echo "== $f"; grep "^ALARM\|PATCH" "$f" | cut -c1-300
    fi
done
echo "results in $OUT"
exit $bad
