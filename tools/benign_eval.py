#!/usr/bin/env python3
"""Evaluate behaviour-preserving refactorings: apply each patch to a scratch
worktree of /repo HEAD and run quick checks on it; every check must stay silent.

usage: tools/benign_eval.py <patch.diff> [Cxx ...]   (default: all 20 checks)
Prints one line per check that raised an alarm or broke; exit 1 if any did."""
import json
import os
import shutil
import subprocess
import sys
import tempfile

VERIF = os.path.dirname(os.path.dirname(os.path.abspath(__file__)))


def sh(cmd, **kw):
    p = subprocess.run(cmd, stdout=subprocess.PIPE, stderr=subprocess.STDOUT, **kw)
    return p.returncode, p.stdout.decode(errors="replace")


def main():
    patch = os.path.abspath(sys.argv[1])
    props = sys.argv[2:] or ["C%02d" % k for k in range(1, 21)]
    wt = tempfile.mkdtemp(prefix="benigneval-")
    ev = tempfile.mkdtemp(prefix="benignev-")
    os.rmdir(wt)
    bad = []
    try:
        rc, out = sh(["git", "-C", "/repo", "worktree", "add", "--detach", wt, "HEAD"])
        if rc:
            print("worktree failed: " + out)
            return 2
        rc, out = sh(["git", "-C", wt, "apply", patch])
        if rc:
            print("PATCH DOES NOT APPLY: " + out.strip()[:300])
            return 2
        env = dict(os.environ, VERIF_REPO=wt, VERIF_EVIDENCE_DIR=ev)
        for p in props:
            rc, out = sh([os.path.join(VERIF, "check"), p, "--tier", "quick"], env=env, cwd=VERIF)
            if rc != 0:
                lines = [l for l in out.splitlines() if l.strip().startswith(("rule=", "ANALYSIS-BROKEN"))][:3]
                bad.append((p, rc, lines))
                print("ALARM %s exit %d: %s" % (p, rc, " | ".join(l.strip()[:260] for l in lines)))
                sys.stdout.flush()
    finally:
        sh(["git", "-C", "/repo", "worktree", "remove", "--force", wt])
        shutil.rmtree(wt, ignore_errors=True)
        shutil.rmtree(ev, ignore_errors=True)
    print("%s: %d check(s) alarmed of %d" % (os.path.basename(patch), len(bad), len(props)))
    return 1 if bad else 0


if __name__ == "__main__":
    sys.exit(main())
