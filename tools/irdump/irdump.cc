// irdump - dump an LLVM-14 module as JSON facts for the python analyses.
//
// Part of the /verif static-analysis framework for rweather/ascon-suite.
// The tool only *parses and describes* IR (using LLVM's own reader, data
// layout, loop info and scalar evolution); all rule logic lives in python.
//
// usage: irdump [--scev] in.ll|in.bc out.json
#include "llvm/ADT/SmallString.h"
#include "llvm/Analysis/AssumptionCache.h"
#include "llvm/Analysis/LoopInfo.h"
#include "llvm/Analysis/ScalarEvolution.h"
#include "llvm/Analysis/ScalarEvolutionExpressions.h"
#include "llvm/Analysis/TargetLibraryInfo.h"
#include "llvm/IR/Constants.h"
#include "llvm/IR/DataLayout.h"
#include "llvm/IR/DebugInfo.h"
#include "llvm/IR/DebugInfoMetadata.h"
#include "llvm/IR/Dominators.h"
#include "llvm/IR/GetElementPtrTypeIterator.h"
#include "llvm/IR/InlineAsm.h"
#include "llvm/IR/InstIterator.h"
#include "llvm/IR/Instructions.h"
#include "llvm/IR/IntrinsicInst.h"
#include "llvm/IR/LLVMContext.h"
#include "llvm/IR/Module.h"
#include "llvm/IR/Operator.h"
#include "llvm/IRReader/IRReader.h"
#include "llvm/Support/JSON.h"
#include "llvm/Support/SourceMgr.h"
#include "llvm/Support/raw_ostream.h"
#include "llvm/Passes/PassBuilder.h"
#include "llvm/Transforms/IPO/AlwaysInliner.h"
#include "llvm/Transforms/Scalar/EarlyCSE.h"
#include "llvm/Transforms/Scalar/SROA.h"
#include "llvm/Transforms/Utils/ModuleUtils.h"
#include "llvm/Transforms/Utils/Local.h"
#include "llvm/Transforms/Utils/BasicBlockUtils.h"
#include <map>
#include <string>

using namespace llvm;

static std::string tyStr(Type *T) {
  std::string S;
  raw_string_ostream OS(S);
  T->print(OS, false, true);
  return OS.str();
}

struct Dumper {
  Module &M;
  const DataLayout &DL;
  json::OStream &J;
  std::map<const Value *, std::string> Names;
  std::map<const DIFile *, int> FileIdx;
  std::vector<std::string> Files;
  unsigned Counter = 0;

  Dumper(Module &M, json::OStream &J) : M(M), DL(M.getDataLayout()), J(J) {}

  int fileIndex(const DIFile *F) {
    if (!F)
      return -1;
    auto It = FileIdx.find(F);
    if (It != FileIdx.end())
      return It->second;
    SmallString<256> P;
    if (!F->getFilename().startswith("/")) {
      P = F->getDirectory();
      P += "/";
    }
    P += F->getFilename();
    int Idx = Files.size();
    Files.push_back(std::string(P.str()));
    FileIdx[F] = Idx;
    return Idx;
  }

  // ------------------------------------------------------------------
  // operands
  void constBytes(const Constant *C, std::string &Out, bool &Ok) {
    // flatten a constant initializer to bytes (little-endian host layout)
    Type *T = C->getType();
    uint64_t Sz = DL.getTypeAllocSize(T);
    if (isa<ConstantAggregateZero>(C) || isa<UndefValue>(C) ||
        isa<ConstantPointerNull>(C)) {
      Out.append(Sz, '\0');
      return;
    }
    if (auto *CI = dyn_cast<ConstantInt>(C)) {
      APInt V = CI->getValue();
      unsigned NB = (V.getBitWidth() + 7) / 8;
      for (unsigned i = 0; i < NB; i++)
        Out.push_back((char)V.extractBitsAsZExtValue(
            std::min(8u, V.getBitWidth() - i * 8), i * 8));
      Out.append(Sz - NB, '\0');
      return;
    }
    if (auto *CDS = dyn_cast<ConstantDataSequential>(C)) {
      StringRef R = CDS->getRawDataValues();
      Out.append(R.begin(), R.end());
      if (Sz > R.size())
        Out.append(Sz - R.size(), '\0');
      return;
    }
    if (auto *CA = dyn_cast<ConstantArray>(C)) {
      for (unsigned i = 0; i < CA->getNumOperands(); i++)
        constBytes(CA->getOperand(i), Out, Ok);
      return;
    }
    if (auto *CS = dyn_cast<ConstantStruct>(C)) {
      const StructLayout *SL = DL.getStructLayout(CS->getType());
      size_t Base = Out.size();
      for (unsigned i = 0; i < CS->getNumOperands(); i++) {
        size_t Want = Base + SL->getElementOffset(i);
        if (Out.size() < Want)
          Out.append(Want - Out.size(), '\0');
        constBytes(CS->getOperand(i), Out, Ok);
      }
      if (Out.size() < Base + Sz)
        Out.append(Base + Sz - Out.size(), '\0');
      return;
    }
    if (auto *CV = dyn_cast<ConstantVector>(C)) {
      for (unsigned i = 0; i < CV->getNumOperands(); i++)
        constBytes(CV->getOperand(i), Out, Ok);
      return;
    }
    // the address of a global object or function: recorded as a relocation (offset, symbol), bytes left zero
    if (T->isPointerTy()) {
      const Value *S = C->stripPointerCastsAndAliases();
      if (auto *GV = dyn_cast<GlobalValue>(S)) {
        Relocs.push_back({Out.size(), GV->getName().str()});
        Out.append(Sz, '\0');
        return;
      }
    }
    // other constant expressions: not flattenable
    Ok = false;
    Out.append(Sz, '\0');
  }
  std::vector<std::pair<size_t, std::string>> Relocs;

  void operand(const Value *V) {
    if (auto *CI = dyn_cast<ConstantInt>(V)) {
      J.object([&] {
        if (CI->getBitWidth() <= 64) {
          J.attribute("c", (int64_t)CI->getSExtValue());
          J.attribute("u", std::to_string(CI->getZExtValue()));
        } else {
          SmallString<40> S;
          CI->getValue().toStringUnsigned(S);
          J.attribute("u", S.str());
        }
        J.attribute("w", (int64_t)CI->getBitWidth());
      });
      return;
    }
    if (isa<GlobalValue>(V)) {
      J.value(("@" + V->getName()).str());
      return;
    }
    if (isa<Argument>(V) || isa<Instruction>(V)) {
      J.value(Names[V]);
      return;
    }
    if (isa<BasicBlock>(V)) {
      J.value(Names[V]);
      return;
    }
    if (isa<ConstantPointerNull>(V)) {
      J.value("null");
      return;
    }
    if (isa<PoisonValue>(V)) {
      J.value("poison");
      return;
    }
    if (isa<UndefValue>(V)) {
      J.value("undef");
      return;
    }
    if (auto *CE = dyn_cast<ConstantExpr>(V)) {
      J.object([&] {
        J.attribute("ce", CE->getOpcodeName());
        J.attribute("ty", tyStr(CE->getType()));
        if (auto *GEP = dyn_cast<GEPOperator>(CE)) {
          APInt Off(DL.getIndexTypeSizeInBits(GEP->getType()), 0);
          if (GEP->accumulateConstantOffset(DL, Off))
            J.attribute("off", (int64_t)Off.getSExtValue());
        }
        J.attributeArray("ops", [&] {
          for (const Use &U : CE->operands())
            operand(U.get());
        });
      });
      return;
    }
    if (auto *MAV = dyn_cast<MetadataAsValue>(V)) {
      (void)MAV;
      J.value("metadata");
      return;
    }
    if (auto *IA = dyn_cast<InlineAsm>(V)) {
      J.object([&] {
        J.attribute("asm", IA->getAsmString());
        J.attribute("constraints", IA->getConstraintString());
        J.attribute("sideeffect", IA->hasSideEffects());
      });
      return;
    }
    if (auto *C = dyn_cast<Constant>(V)) {
      // aggregate / vector / fp constants
      J.object([&] {
        std::string S;
        raw_string_ostream OS(S);
        C->print(OS);
        OS.flush();
        if (S.size() > 400)
          S.resize(400);
        J.attribute("k", S);
        J.attribute("zero", C->isNullValue());
        if (auto *Sp = C->getSplatValue())
          if (auto *CI = dyn_cast<ConstantInt>(Sp))
            if (CI->getBitWidth() <= 64)
              J.attribute("splat", (int64_t)CI->getSExtValue());
      });
      return;
    }
    J.value("?");
  }

  void loc(const DebugLoc &L) {
    if (!L)
      return;
    J.attributeArray("loc", [&] {
      const DILocation *D = L.get();
      // innermost location first, then the inlined-at chain
      while (D) {
        J.array([&] {
          J.value(fileIndex(D->getFile()));
          J.value((int64_t)D->getLine());
          J.value((int64_t)D->getColumn());
          if (auto *SP = D->getScope()->getSubprogram())
            J.value(SP->getName());
          else
            J.value("");
        });
        D = D->getInlinedAt();
      }
    });
  }

  // ------------------------------------------------------------------
  void gepDetail(const GEPOperator *GEP) {
    // constant part + (stride, index) terms
    int64_t Const = 0;
    J.attribute("srcty", tyStr(GEP->getSourceElementType()));
    std::vector<std::pair<int64_t, const Value *>> Terms;
    // also describe the indexed path for bound checks:
    //   [kind, bound_or_field, index]
    J.attributeArray("path", [&] {
      Type *Cur = nullptr; // aggregate being indexed (null for the pointer step)
      for (gep_type_iterator GTI = gep_type_begin(GEP), E = gep_type_end(GEP);
           GTI != E; ++GTI) {
        const Value *Idx = GTI.getOperand();
        if (StructType *ST = GTI.getStructTypeOrNull()) {
          unsigned F = cast<ConstantInt>(Idx)->getZExtValue();
          Const += DL.getStructLayout(ST)->getElementOffset(F);
          J.array([&] {
            J.value("field");
            J.value(ST->hasName() ? ST->getName() : "");
            J.value((int64_t)F);
          });
          Cur = ST->getElementType(F);
          continue;
        }
        Type *ElT = GTI.getIndexedType();
        int64_t Stride = DL.getTypeAllocSize(ElT);
        int64_t Bound = -1;
        if (Cur) {
          if (auto *AT = dyn_cast<ArrayType>(Cur))
            Bound = AT->getNumElements();
          else if (auto *VT = dyn_cast<FixedVectorType>(Cur))
            Bound = VT->getNumElements();
        }
        Cur = ElT;
        J.array([&] {
          J.value(Bound >= 0 ? "array" : "ptr");
          J.value(Bound);
          J.value(Stride);
          operand(Idx);
        });
        if (auto *CI = dyn_cast<ConstantInt>(Idx))
          Const += Stride * CI->getSExtValue();
        else
          Terms.push_back({Stride, Idx});
      }
    });
    J.attribute("coff", Const);
    J.attributeArray("terms", [&] {
      for (auto &T : Terms)
        J.array([&] {
          J.value(T.first);
          operand(T.second);
        });
    });
    J.attribute("inbounds", GEP->isInBounds());
  }

  void inst(const Instruction &I) {
    J.object([&] {
      if (!I.getType()->isVoidTy())
        J.attribute("id", Names[&I]);
      J.attribute("op", I.getOpcodeName());
      J.attribute("ty", tyStr(I.getType()));
      loc(I.getDebugLoc());
      if (auto *CB = dyn_cast<CallBase>(&I)) {
        const Value *Callee = CB->getCalledOperand()->stripPointerCastsAndAliases();
        if (auto *F = dyn_cast<Function>(Callee)) {
          J.attribute("callee", F->getName());
          if (F->isIntrinsic())
            J.attribute("intrinsic", true);
        } else if (isa<InlineAsm>(Callee)) {
          J.attribute("callee", "<asm>");
          J.attributeBegin("asm");
          operand(Callee);
          J.attributeEnd();
        } else {
          J.attributeBegin("calleev");
          operand(Callee);
          J.attributeEnd();
        }
        J.attributeArray("ops", [&] {
          for (const Use &U : CB->args())
            operand(U.get());
        });
        J.attributeArray("argty", [&] {
          for (const Use &U : CB->args())
            J.value(tyStr(U.get()->getType()));
        });
        if (auto *II = dyn_cast<InvokeInst>(&I)) {
          J.attributeArray("succs", [&] {
            J.value(Names[II->getNormalDest()]);
            J.value(Names[II->getUnwindDest()]);
          });
        }
        return;
      }
      if (auto *PN = dyn_cast<PHINode>(&I)) {
        J.attributeArray("inc", [&] {
          for (unsigned i = 0; i < PN->getNumIncomingValues(); i++)
            J.array([&] {
              operand(PN->getIncomingValue(i));
              J.value(Names[PN->getIncomingBlock(i)]);
            });
        });
        return;
      }
      if (auto *BI = dyn_cast<BranchInst>(&I)) {
        J.attributeArray("ops", [&] {
          if (BI->isConditional())
            operand(BI->getCondition());
        });
        J.attributeArray("succs", [&] {
          for (unsigned i = 0; i < BI->getNumSuccessors(); i++)
            J.value(Names[BI->getSuccessor(i)]);
        });
        return;
      }
      if (auto *SI = dyn_cast<SwitchInst>(&I)) {
        J.attributeArray("ops", [&] { operand(SI->getCondition()); });
        J.attributeArray("succs", [&] {
          J.value(Names[SI->getDefaultDest()]);
          for (auto &C : SI->cases())
            J.value(Names[C.getCaseSuccessor()]);
        });
        J.attributeArray("cases", [&] {
          for (auto &C : SI->cases())
            J.value((int64_t)C.getCaseValue()->getSExtValue());
        });
        return;
      }
      if (auto *IB = dyn_cast<IndirectBrInst>(&I)) {
        J.attributeArray("ops", [&] { operand(IB->getAddress()); });
        J.attributeArray("succs", [&] {
          for (unsigned i = 0; i < IB->getNumSuccessors(); i++)
            J.value(Names[IB->getSuccessor(i)]);
        });
        return;
      }
      J.attributeArray("ops", [&] {
        for (const Use &U : I.operands())
          operand(U.get());
      });
      if (auto *GEP = dyn_cast<GetElementPtrInst>(&I))
        gepDetail(cast<GEPOperator>(GEP));
      if (auto *LI = dyn_cast<LoadInst>(&I)) {
        J.attribute("sz", (int64_t)DL.getTypeStoreSize(LI->getType()));
        J.attribute("align", (int64_t)LI->getAlign().value());
        if (LI->isVolatile())
          J.attribute("vol", true);
      }
      if (auto *SI = dyn_cast<StoreInst>(&I)) {
        J.attribute("sz", (int64_t)DL.getTypeStoreSize(
                              SI->getValueOperand()->getType()));
        J.attribute("vty", tyStr(SI->getValueOperand()->getType()));
        J.attribute("align", (int64_t)SI->getAlign().value());
        if (SI->isVolatile())
          J.attribute("vol", true);
      }
      if (auto *AI = dyn_cast<AllocaInst>(&I)) {
        J.attribute("aty", tyStr(AI->getAllocatedType()));
        if (auto Sz = AI->getAllocationSizeInBits(DL))
          J.attribute("sz", (int64_t)(*Sz / 8));
      }
      if (auto *CI = dyn_cast<CmpInst>(&I))
        J.attribute("pred", CmpInst::getPredicateName(CI->getPredicate()));
      if (auto *CI = dyn_cast<CastInst>(&I))
        J.attribute("fromty", tyStr(CI->getSrcTy()));
      if (auto *EV = dyn_cast<ExtractValueInst>(&I))
        J.attributeArray("idx", [&] {
          for (unsigned i : EV->indices())
            J.value((int64_t)i);
        });
      if (auto *IV = dyn_cast<InsertValueInst>(&I))
        J.attributeArray("idx", [&] {
          for (unsigned i : IV->indices())
            J.value((int64_t)i);
        });
      if (auto *SV = dyn_cast<ShuffleVectorInst>(&I))
        J.attributeArray("mask", [&] {
          for (int i : SV->getShuffleMask())
            J.value((int64_t)i);
        });
    });
  }

  // ------------------------------------------------------------------
  std::string scevStr(const SCEV *S) {
    std::string R;
    raw_string_ostream OS(R);
    S->print(OS);
    return OS.str();
  }

  void loops(Function &F) {
    DominatorTree DT(F);
    LoopInfo LI(DT);
    TargetLibraryInfoImpl TLII(Triple(M.getTargetTriple()));
    TargetLibraryInfo TLI(TLII, &F);
    AssumptionCache AC(F);
    ScalarEvolution SE(F, TLI, AC, DT, LI);
    J.attributeArray("loops", [&] {
      for (Loop *L : LI.getLoopsInPreorder()) {
        J.object([&] {
          J.attribute("header", Names[L->getHeader()]);
          J.attribute("depth", (int64_t)L->getLoopDepth());
          J.attributeArray("blocks", [&] {
            for (BasicBlock *B : L->blocks())
              J.value(Names[B]);
          });
          SmallVector<BasicBlock *, 4> Ex;
          L->getExitingBlocks(Ex);
          J.attributeArray("exiting", [&] {
            for (BasicBlock *B : Ex)
              J.value(Names[B]);
          });
          const SCEV *BTC = SE.getBackedgeTakenCount(L);
          J.attribute("btc", scevStr(BTC));
          if (auto *C = dyn_cast<SCEVConstant>(BTC))
            J.attribute("btc_const", (int64_t)C->getAPInt().getSExtValue());
          const SCEV *MaxBTC = SE.getConstantMaxBackedgeTakenCount(L);
          if (auto *C = dyn_cast<SCEVConstant>(MaxBTC))
            if (C->getAPInt().getActiveBits() <= 62)
              J.attribute("btc_max", (int64_t)C->getAPInt().getZExtValue());
          J.attributeArray("exit_counts", [&] {
            for (BasicBlock *B : Ex)
              J.array([&] {
                J.value(Names[B]);
                J.value(scevStr(SE.getExitCount(L, B)));
              });
          });
          // add-recurrences of header phis and of pointers used by memory
          // accesses inside the loop
          J.attributeArray("scev", [&] {
            for (BasicBlock *B : L->blocks())
              for (Instruction &I : *B) {
                const Value *P = nullptr;
                if (auto *LD = dyn_cast<LoadInst>(&I))
                  P = LD->getPointerOperand();
                else if (auto *ST = dyn_cast<StoreInst>(&I))
                  P = ST->getPointerOperand();
                else if (isa<PHINode>(&I) && B == L->getHeader() &&
                         SE.isSCEVable(I.getType()))
                  P = &I;
                if (!P || !SE.isSCEVable(P->getType()))
                  continue;
                if (LI.getLoopFor(B) != L)
                  continue;
                J.array([&] {
                  if (I.getType()->isVoidTy())
                    J.value(std::string("store@") +
                            Names[cast<StoreInst>(&I)->getPointerOperand()]);
                  else
                    J.value(Names[&I]);
                  J.value(I.getOpcodeName());
                  J.value(scevStr(SE.getSCEV(const_cast<Value *>(P))));
                });
              }
          });
        });
      }
    });
  }

  void function(Function &F, bool WithScev) {
    Counter = 0;
    auto fresh = [&](const Value *V, const char *Pfx) {
      std::string N;
      if (V->hasName())
        N = ("%" + V->getName()).str();
      else
        N = std::string("%") + Pfx + std::to_string(Counter++);
      Names[V] = N;
    };
    for (Argument &A : F.args())
      fresh(&A, "a");
    for (BasicBlock &B : F)
      fresh(&B, "b");
    for (BasicBlock &B : F)
      for (Instruction &I : B)
        if (!I.getType()->isVoidTy())
          fresh(&I, "v");
    J.object([&] {
      J.attribute("name", F.getName());
      J.attribute("decl", F.isDeclaration());
      J.attribute("internal", F.hasLocalLinkage());
      J.attribute("linkage", (int64_t)F.getLinkage());
      J.attribute("ret", tyStr(F.getReturnType()));
      J.attribute("varargs", F.isVarArg());
      std::vector<std::string> FA;
      if (F.doesNotAccessMemory())
        FA.push_back("readnone");
      if (F.onlyReadsMemory())
        FA.push_back("readonly");
      if (F.onlyAccessesArgMemory())
        FA.push_back("argmemonly");
      if (F.doesNotReturn())
        FA.push_back("noreturn");
      J.attributeArray("fattrs", [&] {
        for (auto &S : FA)
          J.value(S);
      });
      if (DISubprogram *SP = F.getSubprogram()) {
        J.attribute("file", fileIndex(SP->getFile()));
        J.attribute("line", (int64_t)SP->getLine());
        J.attribute("srcname", SP->getName());
      }
      J.attributeArray("params", [&] {
        for (Argument &A : F.args())
          J.object([&] {
            J.attribute("id", Names[&A]);
            J.attribute("ty", tyStr(A.getType()));
            std::vector<std::string> AA;
            if (A.onlyReadsMemory())
              AA.push_back("readonly");
            if (A.hasAttribute(Attribute::ReadNone))
              AA.push_back("readnone");
            if (A.hasAttribute(Attribute::WriteOnly))
              AA.push_back("writeonly");
            if (A.hasNoCaptureAttr())
              AA.push_back("nocapture");
            if (A.hasStructRetAttr())
              AA.push_back("sret");
            if (A.hasByValAttr())
              AA.push_back("byval");
            J.attributeArray("attrs", [&] {
              for (auto &S : AA)
                J.value(S);
            });
          });
      });
      if (F.isDeclaration())
        return;
      // source-variable names of allocas / values
      J.attributeArray("dbgvars", [&] {
        for (Instruction &I : instructions(F))
          if (auto *DVI = dyn_cast<DbgVariableIntrinsic>(&I)) {
            Value *V = DVI->getVariableLocationOp(0);
            if (!V || !(isa<Instruction>(V) || isa<Argument>(V)))
              continue;
            J.array([&] {
              J.value(Names[V]);
              J.value(DVI->getVariable()->getName());
              J.value(isa<DbgDeclareInst>(DVI) ? "declare" : "value");
              // variables of inlined callees carry the callee's argument numbers: they are not parameters of F
              bool Inlined = DVI->getDebugLoc() && DVI->getDebugLoc()->getInlinedAt();
              J.value((int64_t)(Inlined ? 0 : DVI->getVariable()->getArg()));
            });
          }
      });
      J.attributeArray("blocks", [&] {
        for (BasicBlock &B : F)
          J.object([&] {
            J.attribute("name", Names[&B]);
            J.attributeArray("insts", [&] {
              for (Instruction &I : B) {
                if (isa<DbgInfoIntrinsic>(&I))
                  continue;
                inst(I);
              }
            });
          });
      });
      if (WithScev)
        loops(F);
    });
  }

  void diType(const DICompositeType *CT) {
    J.object([&] {
      J.attribute("name", CT->getName());
      J.attribute("ident", CT->getIdentifier());
      J.attribute("tag", (int64_t)CT->getTag());
      J.attribute("size", (int64_t)(CT->getSizeInBits() / 8));
      J.attribute("file", fileIndex(CT->getFile()));
      J.attribute("line", (int64_t)CT->getLine());
      J.attributeArray("members", [&] {
        for (const DINode *N : CT->getElements())
          if (auto *DT = dyn_cast<DIDerivedType>(N)) {
            if (DT->getTag() != dwarf::DW_TAG_member)
              continue;
            if (DT->isStaticMember())
              continue;
            J.array([&] {
              J.value(DT->getName());
              J.value((int64_t)(DT->getOffsetInBits() / 8));
              J.value((int64_t)(DT->getSizeInBits() / 8));
              // name of the member's own type, through typedefs/const
              const DIType *T = DT->getBaseType();
              std::string TN;
              int Guard = 0;
              while (T && Guard++ < 8) {
                if (auto *CT2 = dyn_cast<DICompositeType>(T)) {
                  unsigned Tag = CT2->getTag();
                  if (Tag == dwarf::DW_TAG_structure_type ||
                      Tag == dwarf::DW_TAG_union_type ||
                      Tag == dwarf::DW_TAG_class_type) {
                    if (!T->getName().empty())
                      TN = T->getName().str();
                    else if (TN.empty())
                      TN = "anon@" + std::to_string(fileIndex(CT2->getFile())) +
                           ":" + std::to_string(CT2->getLine());
                    break;
                  }
                }
                if (!T->getName().empty()) {
                  TN = T->getName().str();
                  if (isa<DICompositeType>(T))
                    break;
                }
                if (auto *D2 = dyn_cast<DIDerivedType>(T))
                  T = D2->getBaseType();
                else
                  break;
              }
              J.value(TN);
            });
          }
      });
    });
  }

  void run(bool WithScev) {
    J.object([&] {
      J.attribute("triple", M.getTargetTriple());
      J.attributeArray("structs", [&] {
        for (StructType *ST : M.getIdentifiedStructTypes()) {
          if (ST->isOpaque())
            continue;
          const StructLayout *SL = DL.getStructLayout(ST);
          J.object([&] {
            J.attribute("name", ST->getName());
            J.attribute("size", (int64_t)SL->getSizeInBytes());
            J.attributeArray("fields", [&] {
              for (unsigned i = 0; i < ST->getNumElements(); i++)
                J.array([&] {
                  J.value((int64_t)SL->getElementOffset(i));
                  J.value((int64_t)DL.getTypeAllocSize(ST->getElementType(i)));
                  J.value(tyStr(ST->getElementType(i)));
                });
            });
          });
        }
      });
      J.attributeArray("globals", [&] {
        for (GlobalVariable &G : M.globals())
          J.object([&] {
            J.attribute("name", G.getName());
            J.attribute("ty", tyStr(G.getValueType()));
            J.attribute("size",
                        (int64_t)DL.getTypeAllocSize(G.getValueType()));
            J.attribute("constant", G.isConstant());
            J.attribute("tls", G.isThreadLocal());
            J.attribute("decl", G.isDeclaration());
            J.attribute("internal", G.hasLocalLinkage());
            J.attribute("section", G.getSection());
            if (G.hasInitializer()) {
              std::string B;
              bool Ok = true;
              if (DL.getTypeAllocSize(G.getValueType()) <= (1u << 16)) {
                Relocs.clear();
                constBytes(G.getInitializer(), B, Ok);
                if (Ok && !Relocs.empty()) {
                  J.attributeArray("ptrs", [&] {
                    for (auto &R : Relocs)
                      J.array([&] {
                        J.value((int64_t)R.first);
                        J.value(R.second);
                      });
                  });
                }
                if (Ok) {
                  std::string Hex;
                  static const char *D = "0123456789abcdef";
                  for (unsigned char c : B) {
                    Hex.push_back(D[c >> 4]);
                    Hex.push_back(D[c & 15]);
                  }
                  J.attribute("bytes", Hex);
                }
              }
              J.attribute("zeroinit", G.getInitializer()->isNullValue());
            }
            SmallVector<DIGlobalVariableExpression *, 1> GVs;
            G.getDebugInfo(GVs);
            if (!GVs.empty()) {
              auto *GV = GVs[0]->getVariable();
              J.attribute("srcname", GV->getName());
              J.attribute("file", fileIndex(GV->getFile()));
              J.attribute("line", (int64_t)GV->getLine());
              if (auto *Sc = dyn_cast_or_null<DISubprogram>(GV->getScope()))
                J.attribute("infunc", Sc->getName());
            }
          });
      });
      J.attributeArray("functions", [&] {
        for (Function &F : M)
          function(F, WithScev);
      });
      DebugInfoFinder Finder;
      Finder.processModule(M);
      J.attributeArray("ditypes", [&] {
        for (const DIType *T : Finder.types())
          if (auto *CT = dyn_cast<DICompositeType>(T))
            if (CT->getTag() == dwarf::DW_TAG_structure_type ||
                CT->getTag() == dwarf::DW_TAG_union_type ||
                CT->getTag() == dwarf::DW_TAG_class_type)
              diType(CT);
      });
      // typedef name -> composite name (C code uses anonymous structs
      // behind typedefs)
      J.attributeArray("typedefs", [&] {
        for (const DIType *T : Finder.types())
          if (auto *DT = dyn_cast<DIDerivedType>(T))
            if (DT->getTag() == dwarf::DW_TAG_typedef)
              if (auto *CT =
                      dyn_cast_or_null<DICompositeType>(DT->getBaseType()))
                J.array([&] {
                  J.value(DT->getName());
                  J.value(CT->getName());
                  J.value(fileIndex(CT->getFile()));
                  J.value((int64_t)CT->getLine());
                });
      });
      J.attributeArray("files", [&] {
        for (auto &S : Files)
          J.value(S);
      });
    });
  }
};

int main(int argc, char **argv) {
  bool WithScev = false;
  bool InlineInternal = false;
  std::vector<std::string> Pos;
  for (int i = 1; i < argc; i++) {
    std::string A = argv[i];
    if (A == "--scev")
      WithScev = true;
    else if (A == "--inline-internal")
      InlineInternal = true;
    else
      Pos.push_back(A);
  }
  if (Pos.size() != 2) {
    errs() << "usage: irdump [--scev] [--inline-internal] in.ll out.json\n";
    return 2;
  }
  LLVMContext Ctx;
  SMDiagnostic Err;
  std::unique_ptr<Module> M = parseIRFile(Pos[0], Err, Ctx);
  if (!M) {
    Err.print("irdump", errs());
    return 2;
  }
  if (InlineInternal) {
    // "inlined view": every function with internal linkage (file-local helpers) is inlined into its callers, so
    // that rules about a public function see the whole of what it does however it is split into helpers
    std::vector<GlobalValue *> Keep;
    for (Function &F : *M) {
      if (F.isDeclaration() || !F.hasLocalLinkage())
        continue;
      F.removeFnAttr(Attribute::NoInline);
      F.removeFnAttr(Attribute::OptimizeNone);
      F.addFnAttr(Attribute::AlwaysInline);
      Keep.push_back(&F);
    }
    // keep the helpers themselves defined (with their own helpers inlined) so that rules can still look at them
    appendToCompilerUsed(*M, Keep);
    PassBuilder PB;
    LoopAnalysisManager LAM;
    FunctionAnalysisManager FAM;
    CGSCCAnalysisManager CGAM;
    ModuleAnalysisManager MAM;
    PB.registerModuleAnalyses(MAM);
    PB.registerCGSCCAnalyses(CGAM);
    PB.registerFunctionAnalyses(FAM);
    PB.registerLoopAnalyses(LAM);
    PB.crossRegisterProxies(LAM, FAM, CGAM, MAM);
    ModulePassManager MPM;
    MPM.addPass(AlwaysInlinerPass(/*InsertLifetime=*/false));
    FunctionPassManager FPM;
    FPM.addPass(SROAPass());
    FPM.addPass(EarlyCSEPass());
    MPM.addPass(createModuleToFunctionPassAdaptor(std::move(FPM)));
    MPM.run(*M, MAM);
    // a helper called with a constant mode argument leaves branches on constants behind: fold exactly those (no other
    // restructuring of the control flow) and drop the blocks that became unreachable, then clean up once more
    for (Function &F : *M) {
      if (F.isDeclaration())
        continue;
      bool Changed = false;
      std::vector<BasicBlock *> Blocks;
      for (BasicBlock &BB : F)
        Blocks.push_back(&BB);
      for (BasicBlock *BB : Blocks)
        Changed |= ConstantFoldTerminator(BB, /*DeleteDeadConditions=*/true);
      if (Changed)
        removeUnreachableBlocks(F);
    }
    {
      PassBuilder PB2;
      LoopAnalysisManager LAM2;
      FunctionAnalysisManager FAM2;
      CGSCCAnalysisManager CGAM2;
      ModuleAnalysisManager MAM2;
      PB2.registerModuleAnalyses(MAM2);
      PB2.registerCGSCCAnalyses(CGAM2);
      PB2.registerFunctionAnalyses(FAM2);
      PB2.registerLoopAnalyses(LAM2);
      PB2.crossRegisterProxies(LAM2, FAM2, CGAM2, MAM2);
      ModulePassManager MPM2;
      FunctionPassManager FPM2;
      FPM2.addPass(EarlyCSEPass());
      MPM2.addPass(createModuleToFunctionPassAdaptor(std::move(FPM2)));
      MPM2.run(*M, MAM2);
    }
  }
  std::error_code EC;
  raw_fd_ostream Out(Pos[1], EC);
  if (EC) {
    errs() << "irdump: cannot write " << Pos[1] << "\n";
    return 2;
  }
  json::OStream J(Out, 0);
  Dumper D(*M, J);
  D.run(WithScev);
  Out << "\n";
  return 0;
}
