#!/usr/bin/env python3
"""Regenerate MANIFEST.json from the rule modules (av/rules_cNN.py: MANIFEST
dict) and the not-applicable table below."""
import importlib
import json
import os
import sys

ROOT = os.path.dirname(os.path.dirname(os.path.abspath(__file__)))
sys.path.insert(0, ROOT)

NOT_APPLICABLE = {
}

PENDING = "check not yet built in this framework (static-analysis design in DESIGN.md section 3); not claimed until it is"


def main():
    props = [json.loads(l)["id"] for l in open(os.path.join(ROOT, "properties.jsonl"))]
    checks, na, served = [], [], {}
    for p in props:
        try:
            mod = importlib.import_module("av.rules_" + p.lower())
        except ModuleNotFoundError:
            na.append({"property_id": p, "reason": NOT_APPLICABLE.get(p, PENDING)})
            continue
        if p in NOT_APPLICABLE:
            na.append({"property_id": p, "reason": NOT_APPLICABLE[p]})
            continue
        m = mod.MANIFEST
        checks.append({
            "property_id": p,
            "quick_cmd": "./check %s --tier quick" % p,
            "thorough_cmd": "./check %s --tier thorough" % p,
            "evidence_file": "evidence/%s.json" % p,
            "replay_cmd_template": "./check %s --replay {path}" % p,
            "engine": m.get("engine", "av"),
            "level_claimed": {"category": getattr(mod, "LEVEL", "other"),
                              "text": m["text"], "design_ref": m.get("design_ref", "DESIGN.md section 3, " + p)},
            "level_note": m["note"],
            "technique": m["technique"],
        })
        for e in m.get("engines", ["irdump", "av"]):
            served.setdefault(e, []).append(p)
    man = {
        "version": 1,
        "setup_cmd": "sh tools/setup.sh",
        "hooks": {
            "guard": "ASCON_SUITE_VERIF",
            "enable": "no hooks are used: anchors, role tables and rules live in /verif; /repo receives only fix: commits",
            "baseline_off_cmd": "rm -rf /tmp/ascon-baseline && cmake -G Ninja -S /repo -B /tmp/ascon-baseline -Wno-dev && cmake --build /tmp/ascon-baseline -j16 && ctest --test-dir /tmp/ascon-baseline -j8 --timeout 900; rc=$?; rm -rf /tmp/ascon-baseline; exit $rc",
            "source_commits": [],
            "add_only": True,
        },
        "engines": [
            {"name": "irdump", "path": "tools/irdump/irdump.cc", "serves_properties": sorted(served.get("irdump", [])),
             "kind_free_text": "LLVM-14 based IR describer (JSON): instructions, resolved callees, GEP offsets, debug locations, loops and scalar evolution"},
            {"name": "asconfacts", "path": "tools/asconfacts/asconfacts.cc", "serves_properties": sorted(served.get("asconfacts", [])),
             "kind_free_text": "LibTooling AST fact extractor (declarations, records, resolved calls with folded arguments, returns, subscripts)"},
            {"name": "av", "path": "av/", "serves_properties": sorted(served.get("av", [])),
             "kind_free_text": "python analyses over the dumped IR / AST facts / assembly text: CFG, dominators, typestate, taint, effects, pointer provenance, table oracle, witnesses"},
        ],
        "checks": checks,
        "not_applicable": na,
        "notes": "Static analysis only: every verdict is computed from /repo's current working tree (cmake configure-only for flags and unit lists, clang for IR/AST); no library code is executed. Exit 2 = analysis broken (anchor lost), never a pass.",
    }
    with open(os.path.join(ROOT, "MANIFEST.json"), "w") as f:
        json.dump(man, f, indent=1)
    print("MANIFEST: %d checks, %d not_applicable" % (len(checks), len(na)))


if __name__ == "__main__":
    main()
