#!/bin/sh
# usage: repo_tests.sh <source dir> [cmake options...]
# Builds the repository in a scratch directory with the given options and runs
# its own ctest suite (used to validate fix: commits and seeded changes; not
# part of any registered check).
src="$1"; shift
bld=$(mktemp -d /tmp/asconbuild-XXXXXX)
trap 'rm -rf "$bld"' EXIT
cmake -G Ninja -S "$src" -B "$bld" -Wno-dev "$@" >"$bld/configure.log" 2>&1 || { tail -20 "$bld/configure.log"; echo "CONFIGURE FAILED"; exit 3; }
cmake --build "$bld" -j16 >"$bld/build.log" 2>&1 || { grep -E "error|Error" "$bld/build.log" | head -20; echo "BUILD FAILED"; exit 3; }
ctest --test-dir "$bld" -j8 --timeout 900 2>&1 | tail -5
