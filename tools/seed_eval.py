#!/usr/bin/env python3
"""Confirm a seeded breaking change and run the property's check against it.

  tools/seed_eval.py <Cxx> <dir with patch.diff, demo.sh> [name]

Steps (all in scratch worktrees of /repo, never in /repo itself):
  1. the patch applies to /repo HEAD and the repository's own test-suite passes with it
  2. demo.sh exits non-zero on the patched tree and 0 on the clean tree
  3. ./check <Cxx> (quick, then thorough if quick is silent) on the patched tree
Result is printed as JSON and, with a name, copied to /verif/seeded/<name>/ .
"""
import json
import os
import shutil
import subprocess
import sys
import tempfile

ROOT = os.path.dirname(os.path.dirname(os.path.abspath(__file__)))


def sh(cmd, timeout=1800, **kw):
    try:
        p = subprocess.run(cmd, stdout=subprocess.PIPE, stderr=subprocess.STDOUT, timeout=timeout, **kw)
        return p.returncode, p.stdout.decode(errors="replace")
    except subprocess.TimeoutExpired as e:
        return 124, (e.stdout or b"").decode(errors="replace") + "\nTIMEOUT"


def main():
    prop, d = sys.argv[1].upper(), sys.argv[2]
    name = sys.argv[3] if len(sys.argv) > 3 else None
    patch = os.path.join(d, "patch.diff")
    demo = os.path.join(d, "demo.sh")
    wt = tempfile.mkdtemp(prefix="seedeval-")
    clean = tempfile.mkdtemp(prefix="seedclean-")
    os.rmdir(wt)
    os.rmdir(clean)
    res = {"property": prop, "source_dir": d}
    try:
        sh(["git", "-C", "/repo", "worktree", "add", "--detach", wt, "HEAD"])
        sh(["git", "-C", "/repo", "worktree", "add", "--detach", clean, "HEAD"])
        rc, out = sh(["git", "-C", wt, "apply", "--whitespace=nowarn", patch])
        res["applies"] = rc == 0
        if rc != 0:
            res["apply_error"] = out[-400:]
            print(json.dumps(res, indent=1))
            return 1
        rc, out = sh([os.path.join(ROOT, "tools", "repo_tests.sh"), wt])
        res["suite_passes_with_change"] = "100% tests passed" in out
        res["suite_tail"] = out.strip().splitlines()[-3:]
        if os.path.exists(demo):
            rc1, o1 = sh(["bash", demo, wt], timeout=1800, cwd=d)
            rc0, o0 = sh(["bash", demo, clean], timeout=1800, cwd=d)
            res["demo_exit_changed"] = rc1
            res["demo_exit_clean"] = rc0
            res["demo_tail_changed"] = o1.strip().splitlines()[-3:]
        ev = tempfile.mkdtemp(prefix="seedev-")
        env = dict(os.environ, VERIF_REPO=wt, VERIF_EVIDENCE_DIR=ev)
        for tier in ("quick", "thorough"):
            rc, out = sh([os.path.join(ROOT, "check"), prop, "--tier", tier], env=env)
            lines = [l for l in out.splitlines() if l.startswith(("VIOLATION", "  rule=", "ANALYSIS-BROKEN"))]
            res["check_%s_exit" % tier] = rc
            res["check_%s_report" % tier] = [l[:400] for l in lines[:8]]
            if rc == 1:
                break
        shutil.rmtree(ev, ignore_errors=True)
        res["detected"] = any(res.get("check_%s_exit" % t) == 1 for t in ("quick", "thorough"))
    finally:
        sh(["git", "-C", "/repo", "worktree", "remove", "--force", wt])
        sh(["git", "-C", "/repo", "worktree", "remove", "--force", clean])
    print(json.dumps(res, indent=1))
    if name:
        dst = os.path.join(ROOT, "seeded", name)
        os.makedirs(dst, exist_ok=True)
        for fn in os.listdir(d):
            p = os.path.join(d, fn)
            if os.path.isfile(p) and os.path.getsize(p) < 200000 and not fn.endswith((".log", ".o")):
                shutil.copy(p, os.path.join(dst, fn))
        with open(os.path.join(dst, "eval.json"), "w") as f:
            json.dump(res, f, indent=1)
    return 0


if __name__ == "__main__":
    sys.exit(main())
