#!/usr/bin/env python3
"""Both-ways self-test of the checks.

  tools/selftest.py [--build] [Cxx ...] [--only name]

selftest/<Cxx>/<name>.patch   a change to /repo that must be REPORTED by ./check Cxx
                              (first line of the patch file: '# expect: <substring of a
                              violation line>' ; optional '# tier: thorough')
selftest/<Cxx>/<name>.benign.patch   a behaviour-preserving change on which the check
                              must stay silent
Each patch is applied to a scratch git worktree of /repo (never to /repo itself);
with --build the mutant must also compile and pass the repository's own tests.
"""
import glob
import os
import subprocess
import sys
import tempfile
import shutil

ROOT = os.path.dirname(os.path.dirname(os.path.abspath(__file__)))


def sh(cmd, **kw):
    return subprocess.run(cmd, stdout=subprocess.PIPE, stderr=subprocess.STDOUT, **kw)


def main():
    args = sys.argv[1:]
    build = "--build" in args
    only = None
    if "--only" in args:
        only = args[args.index("--only") + 1]
        args.remove(only)
    props = [a.upper() for a in args if not a.startswith("--")]
    wt = tempfile.mkdtemp(prefix="asconverif-self-")
    ev = tempfile.mkdtemp(prefix="asconverif-ev-")
    os.rmdir(wt)
    r = sh(["git", "-C", "/repo", "worktree", "add", "--detach", wt, "HEAD"])
    if r.returncode != 0:
        print(r.stdout.decode())
        return 2
    bad = 0
    try:
        patches = sorted(glob.glob(os.path.join(ROOT, "selftest", "*", "*.patch")))
        for p in patches:
            prop = os.path.basename(os.path.dirname(p))
            name = os.path.basename(p)[:-6]
            if props and prop not in props:
                continue
            if only and only not in name:
                continue
            benign = name.endswith(".benign")
            head = open(p).read().splitlines()[:6]
            expect = [l.split(":", 1)[1].strip() for l in head if l.startswith("# expect:")]
            tier = ([l.split(":", 1)[1].strip() for l in head if l.startswith("# tier:")] or ["quick"])[0]
            sh(["git", "-C", wt, "checkout", "-q", "--", "."])
            sh(["git", "-C", wt, "clean", "-fdq"])
            r = sh(["git", "-C", wt, "apply", "--whitespace=nowarn", p])
            if r.returncode != 0:
                print("FAIL %s/%s: patch does not apply: %s" % (prop, name, r.stdout.decode()[:300]))
                bad += 1
                continue
            if build:
                r = sh([os.path.join(ROOT, "tools", "repo_tests.sh"), wt])
                if b"100% tests passed" not in r.stdout:
                    print("FAIL %s/%s: mutant does not build/pass the suite: %s" % (prop, name, r.stdout.decode()[-400:]))
                    bad += 1
                    continue
            env = dict(os.environ, VERIF_REPO=wt, VERIF_EVIDENCE_DIR=ev)
            r = sh([os.path.join(ROOT, "check"), prop, "--tier", tier], env=env)
            out = r.stdout.decode()
            vl = [l for l in out.splitlines() if l.startswith(("VIOLATION", "  rule="))]
            if benign:
                ok = r.returncode == 0
                why = "silent" if ok else "raised an alarm (exit %d): %s" % (r.returncode, " | ".join(vl)[:600] or out[-600:])
            else:
                ok = r.returncode == 1 and all(any(e in l for l in vl) for e in expect)
                why = ("reported: " + (vl[1].strip()[:160] if len(vl) > 1 else "")) if ok else \
                    "exit %d, expected %r, got: %s" % (r.returncode, expect, " | ".join(vl)[:800] or out[-800:])
            print("%s %s/%s: %s" % ("ok  " if ok else "FAIL", prop, name, why))
            if not ok:
                bad += 1
    finally:
        sh(["git", "-C", "/repo", "worktree", "remove", "--force", wt])
        shutil.rmtree(ev, ignore_errors=True)
    print("selftest: %d failure(s)" % bad)
    return 1 if bad else 0


if __name__ == "__main__":
    sys.exit(main())
