#!/bin/sh
# Build the two native helper tools of the framework (offline; clang 14 and the
# system LLVM/clang shared libraries only).
set -e
cd "$(dirname "$0")/.."
mkdir -p build evidence
CXXFLAGS="$(llvm-config-14 --cxxflags) -O1 -fno-rtti"
clang++ $CXXFLAGS tools/irdump/irdump.cc -o build/irdump /usr/lib/llvm-14/lib/libLLVM-14.so &
clang++ $CXXFLAGS tools/asconfacts/asconfacts.cc -o build/asconfacts \
    /usr/lib/llvm-14/lib/libclang-cpp.so.14 /usr/lib/llvm-14/lib/libLLVM-14.so &
wait
test -x build/irdump && test -x build/asconfacts
echo "setup ok"
