#!/usr/bin/env python3
"""Validate av/sponge.Spec (run on constant bits, with the real permutation
from av/oracle.py) against the published known-answer vectors in
/repo/test/kat/*.txt.  This validates the *oracle*, not the library."""
import os
import sys

ROOT = os.path.dirname(os.path.dirname(os.path.abspath(__file__)))
sys.path.insert(0, ROOT)
from av import sponge, affine  # noqa


def parse(path):
    recs, cur = [], {}
    for line in open(path):
        line = line.strip()
        if not line:
            if cur:
                recs.append(cur)
                cur = {}
            continue
        k, _, v = line.partition("=")
        cur[k.strip()] = v.strip()
    if cur:
        recs.append(cur)
    return recs


def B(h):
    return sponge.cbytes(bytes.fromhex(h))


def H(bits):
    return bytes(affine.to_int(bits[8 * k:8 * k + 8]) for k in range(len(bits) // 8)).hex().upper()


def main(limit=400):
    kat = "/repo/test/kat"
    ctx = sponge.Ctx()
    S = sponge.SpecIsap(ctx)
    bad = 0
    total = 0
    per = {}

    def chk(name, got, want):
        nonlocal bad, total
        total += 1
        if got != want.upper():
            bad += 1
            per[name] = per.get(name, 0) + 1
            if per[name] < 3:
                print("MISMATCH", name, got[:64], want[:64])
    for alg in ("128", "128a", "80pq"):
        for r in parse("%s/ASCON-%s.txt" % (kat, alg))[:limit]:
            c, t = S.aead_encrypt(alg, B(r["Key"]), B(r["Nonce"]), B(r["AD"]), B(r["PT"]))
            chk("aead" + alg, H(c + t), r["CT"])
        for r in parse("%s/ASCON-%s-SIV.txt" % (kat, alg))[:limit]:
            c, t = S.siv_encrypt(alg, B(r["Key"]), B(r["Nonce"]), B(r["AD"]), B(r["PT"]))
            chk("siv" + alg, H(c + t), r["CT"])
    for fn, alg in (("ISAP-A-128A", "128a"), ("ISAP-A-128", "128"), ("ISAP-A-80PQ", "80pq")):
        for r in parse("%s/%s.txt" % (kat, fn))[:120]:
            c, t = S.isap_encrypt(alg, B(r["Key"]), B(r["Nonce"]), B(r["AD"]), B(r["PT"]))
            chk("isap" + alg, H(c + t), r["CT"])
    for fn, a in (("ASCON-HASH", False), ("ASCON-HASHA", True)):
        for r in parse("%s/%s.txt" % (kat, fn))[:limit]:
            chk(fn, H(S.hash(a, B(r["Msg"]))), r["MD"])
    for fn, a in (("ASCON-XOF", False), ("ASCON-XOFA", True), ("ASCON-XOF-long-output", False), ("ASCON-XOFA-long-output", True)):
        for r in parse("%s/%s.txt" % (kat, fn))[:limit]:
            chk(fn, H(S.xof(a, B(r["Msg"]), len(r["MD"]) // 2)), r["MD"])
    for r in parse("%s/ASCON-Prf.txt" % kat)[:limit]:
        chk("prf", H(S.prf(B(r["Key"]), B(r["Msg"]), len(r["Tag"]) // 2)), r["Tag"])
    for r in parse("%s/ASCON-Prf-long-output.txt" % kat)[:limit]:
        chk("prf-long", H(S.prf(B(r["Key"]), B(r["Msg"]), len(r["Tag"]) // 2)), r["Tag"])
    for r in parse("%s/ASCON-Mac.txt" % kat)[:limit]:
        chk("mac", H(S.mac(B(r["Key"]), B(r["Msg"]))), r["Tag"])
    for r in parse("%s/ASCON-PrfShort.txt" % kat)[:limit]:
        chk("prfshort", H(S.prf_short(B(r["Key"]), B(r["Msg"]), len(r["Tag"]) // 2)), r["Tag"])
    for fn, a in (("ASCON-HMAC", False), ("ASCON-HMACA", True)):
        for r in parse("%s/%s.txt" % (kat, fn))[:limit]:
            chk(fn, H(S.hmac(a, B(r["Key"]), B(r["Msg"]))), r["Tag"])
    for fn, a in (("ASCON-KMAC", False), ("ASCON-KMACA", True)):
        for r in parse("%s/%s.txt" % (kat, fn))[:limit]:
            chk(fn, H(S.kmac(a, B(r["Key"]), B(r["Msg"]), B(r.get("Custom", "")), len(r["Tag"]) // 2)), r["Tag"])
    print("oracle validation: %d vectors, %d mismatches %s" % (total, bad, per))
    return 1 if bad else 0


if __name__ == "__main__":
    sys.exit(main())
